"""Resolution of the local / parameter names a contract mentions against the CURRENT source of the function.

contracts/locals.json (tools/mklocals.py) records, for the source the contracts were written against, each function's parameter
names and local names in order of first binding.  If the current function has the same NUMBER of parameters and locals, a name
of the pinned list that no longer exists is resolved to the name at the same position (a pure renaming); anything else is left
alone (the contract then fails to find its variable and the cell is reported undecided, never a violation)."""
import ast
import json
import os

_TABLE = None


def ordered_locals(fn):
    a = fn.args
    params = [x.arg for x in a.posonlyargs + a.args] + ([a.vararg.arg] if a.vararg else []) + [x.arg for x in a.kwonlyargs] + \
             ([a.kwarg.arg] if a.kwarg else [])
    seen, locs = set(params), []

    def bind(name):
        if name not in seen:
            seen.add(name)
            locs.append(name)

    class V(ast.NodeVisitor):
        def visit_FunctionDef(self, n):
            if n is fn:
                self.generic_visit(n)
            else:
                bind(n.name)

        visit_AsyncFunctionDef = visit_FunctionDef

        def visit_ClassDef(self, n):
            bind(n.name)

        def visit_Lambda(self, n):
            pass

        def visit_ListComp(self, n):
            pass

        visit_SetComp = visit_DictComp = visit_GeneratorExp = visit_ListComp

        def visit_Name(self, n):
            if isinstance(n.ctx, (ast.Store, ast.Del)):
                bind(n.id)

        def visit_ExceptHandler(self, n):
            if n.name:
                bind(n.name)
            self.generic_visit(n)

        def visit_Import(self, n):
            for al in n.names:
                bind((al.asname or al.name).split(".")[0])

        visit_ImportFrom = visit_Import
    V().visit(fn)
    return params, locs


def fingerprints(fn):
    """{local name: how it is used}: for every occurrence, in source order, (load / store, type of the enclosing node, field).
    A renamed variable keeps its fingerprint; a newly introduced temporary has its own."""
    out = {}

    def walk(node, parent, field):
        if isinstance(node, ast.Name):
            out.setdefault(node.id, []).append("%s/%s.%s" % (type(node.ctx).__name__[0], type(parent).__name__, field))
        for f, v in ast.iter_fields(node):
            if isinstance(v, list):
                for x in v:
                    if isinstance(x, ast.AST):
                        walk(x, node, f)
            elif isinstance(v, ast.AST):
                walk(v, node, f)
    walk(fn, None, "")
    return {k: " ".join(v) for k, v in out.items()}


def table():
    global _TABLE
    if _TABLE is None:
        p = os.path.join(os.path.dirname(os.path.dirname(os.path.abspath(__file__))), "contracts", "locals.json")
        try:
            _TABLE = json.load(open(p))
        except (OSError, ValueError):
            _TABLE = {}
    return _TABLE


_CACHE = {}


def aliases(func):
    """{pinned name: current name} for the renamed locals / parameters of func (an interpreter Func)"""
    key = getattr(func, "key", None)
    node = getattr(func, "node", None)
    if key is None or node is None:
        return {}
    ck = (key, id(node))
    if ck in _CACHE:
        return _CACHE[ck]
    out = {}
    pinned = table().get(key)
    if pinned:
        params, locs = ordered_locals(node)
        cur = set(params) | set(locs)
        for old, new in ((pinned["params"], params), (pinned["locals"], locs)):
            if len(old) == len(new):
                for o, n in zip(old, new):
                    if o != n and o not in cur:
                        out[o] = n
        # lists of different length (temporaries were added or removed as well): a vanished name is the new name with the
        # same usage fingerprint, if there is exactly one
        fp_old = pinned.get("uses", {})
        if fp_old:
            fp_new = fingerprints(node)
            known = set(pinned["params"]) | set(pinned["locals"])
            for o in pinned["locals"] + pinned["params"]:
                if o in cur or o in out or o not in fp_old:
                    continue
                cands = [n for n in locs + params if n not in known and fp_new.get(n) == fp_old[o] and n not in out.values()]
                if len(cands) == 1:
                    out[o] = cands[0]
    _CACHE[ck] = out
    return out


class AliasDict:
    """a view of a frame's locals (or of a call's bound arguments) that accepts the pinned names"""

    def __init__(self, d, alias):
        self.d, self.alias = d, alias

    def _k(self, k):
        return self.alias.get(k, k) if k not in self.d else k

    def __getitem__(self, k):
        return self.d[self._k(k)]

    def __setitem__(self, k, v):
        self.d[self._k(k)] = v

    def __delitem__(self, k):
        del self.d[self._k(k)]

    def __contains__(self, k):
        return self._k(k) in self.d

    def get(self, k, default=None):
        return self.d.get(self._k(k), default)

    def pop(self, k, *a):
        return self.d.pop(self._k(k), *a)

    def setdefault(self, k, v):
        return self.d.setdefault(self._k(k), v)

    def items(self):
        return self.d.items()

    def keys(self):
        return self.d.keys()

    def values(self):
        return self.d.values()

    def __iter__(self):
        return iter(self.d)

    def __len__(self):
        return len(self.d)
