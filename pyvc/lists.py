"""
Symbolic list representations.

  SymRange -- range() with symbolic bounds; iterating it unrolls with forks (bounded by the
              interpreter's unroll limit) unless a loop invariant cuts the loop.
  SeqList  -- append-only byte buffer of symbolic length: z3 Seq(Int)
  ArrList  -- random access buffer: z3 Array(Int,Int) + length (int | SymInt) + offset view
"""
import z3

from .sym import SymInt, SymBool, EngineError, branch, mk, mks, And, Or, Not, _z, cur, PathAbort


def _ident(x):
    """abstract objects are stored in symbolic sequences through their ghost identity field `_id`"""
    f = getattr(x, "fields", None)
    if f is not None and "_id" in f:
        return f["_id"]
    return x


class SymRange:
    def __init__(self, *a):
        if len(a) == 1:
            self.start, self.stop, self.step = 0, a[0], 1
        elif len(a) == 2:
            self.start, self.stop, self.step = a[0], a[1], 1
        else:
            self.start, self.stop, self.step = a
        if isinstance(self.step, SymInt):
            raise EngineError("range with symbolic step")
        if self.step == 0:
            raise ValueError("range() arg 3 must not be zero")

    def length(self):
        if self.step != 1:
            raise EngineError("len of stepped symbolic range")
        d = self.stop - self.start
        return d if branch(d > 0) else 0

    def iterate(self, interp):
        i = self.start
        n = 0
        while True:
            cond = (i < self.stop) if self.step > 0 else (i > self.stop)
            if not branch(cond):
                return
            n += 1
            if n > interp.unroll_limit:
                raise EngineError("symbolic range exceeded the unroll limit (needs an invariant)")
            yield i
            i = i + self.step


IntSeq = z3.SeqSort(z3.IntSort())


class SeqList:
    """list of ints as a z3 sequence (append / extend / len / == / slicing from a concrete or symbolic cut)."""

    def __init__(self, seq, ghost=None):
        self.seq = seq
        self.ghost = ghost or {}

    @staticmethod
    def fresh(name):
        return SeqList(z3.Const(name, IntSeq))

    @staticmethod
    def of(xs):
        if isinstance(xs, SeqList):
            return xs
        if len(xs) == 0:
            return SeqList(z3.Empty(IntSeq))
        units = [z3.Unit(_z(x)) for x in xs]
        return SeqList(units[0] if len(units) == 1 else z3.Concat(*units))

    def clone(self):
        return SeqList(self.seq, dict(self.ghost))

    def length(self):
        return mks(z3.Length(self.seq))

    def concat(self, o):
        return SeqList(z3.Concat(self.seq, SeqList.of(o).seq))

    def rconcat(self, o):
        return SeqList(z3.Concat(SeqList.of(o).seq, self.seq))

    def eq(self, o):
        if isinstance(o, (list, SeqList)):
            return mks(self.seq == SeqList.of(o).seq)
        return False

    def getitem(self, interp, i):
        if isinstance(i, slice):
            if i.step is not None:
                raise EngineError("stepped slice of SeqList")
            n = self.length()
            lo = i.start if i.start is not None else 0
            hi = i.stop if i.stop is not None else n
            # clamp like python, deciding each case through the path condition (keeps the term a plain SubSeq)
            if branch(lo < 0):
                lo = lo + n
                if branch(lo < 0):
                    lo = 0
            elif branch(lo > n):
                lo = n
            if i.stop is not None:
                if branch(hi < 0):
                    hi = hi + n
                    if branch(hi < 0):
                        hi = 0
                elif branch(hi > n):
                    hi = n
            if not branch(hi > lo):
                return SeqList(z3.Empty(IntSeq))
            if isinstance(lo, int) and lo == 0 and i.stop is None:
                return SeqList(self.seq)
            return SeqList(z3.simplify(z3.SubSeq(self.seq, _z(lo), _z(hi - lo))))
        n = self.length()
        if not branch(And(i >= 0, i < n)):
            if branch(And(i < 0, i >= -n)):
                i = i + n
            else:
                interp.raise_("IndexError", "list index out of range")
        return mks(self.seq[_z(i)])

    def setitem(self, interp, i, v):
        raise EngineError("item assignment on SeqList (use ArrList)")

    def iterate(self, interp):
        n = self.length()
        if isinstance(n, int):
            for k in range(n):
                yield mks(self.seq[k])
            return
        k = 0
        while branch(k < n):
            if k > interp.unroll_limit:
                raise EngineError("SeqList iteration exceeded the unroll limit")
            yield mks(self.seq[k])
            k += 1

    def method(self, interp, name, args, kwargs):
        if name == "append":
            self.seq = z3.Concat(self.seq, z3.Unit(_z(_ident(args[0]))))
            return None
        if name == "extend":
            a = args[0]
            if not isinstance(a, SeqList):
                a = SeqList.of([_ident(x) for x in interp.iterate(a)])
            self.seq = z3.Concat(self.seq, a.seq)
            return None
        if name == "insert" and isinstance(args[0], int) and args[0] == 0:
            self.seq = z3.Concat(z3.Unit(_z(_ident(args[1]))), self.seq)
            return None
        raise EngineError("SeqList.%s" % name)


class ArrList:
    """list of ints as z3 array with explicit length; slicing gives a copy-on-read view."""

    def __init__(self, arr, length, offset=0):
        self.arr = arr
        self.len = length
        self.off = offset

    @staticmethod
    def fresh(name, length):
        return ArrList(z3.Array(name, z3.IntSort(), z3.IntSort()), length)

    def clone(self):
        return ArrList(self.arr, self.len, self.off)

    def length(self):
        return self.len

    def eq(self, o):
        if isinstance(o, list):
            if isinstance(self.len, int) and self.len != len(o):
                return False
            c = [self.len == len(o)] + [mk(z3.Select(self.arr, _z(self.off + k)) == _z(x)) for k, x in enumerate(o)]
            return And(*c)
        raise EngineError("ArrList == %r" % type(o))

    def _norm(self, interp, i):
        n = self.len
        if not branch(And(i >= 0, i < n)):
            if branch(And(i < 0, i >= -n)):
                return i + n
            interp.raise_("IndexError", "list index out of range")
        return i

    def getitem(self, interp, i):
        if isinstance(i, slice):
            if i.step is not None:
                raise EngineError("stepped slice of ArrList")
            n = self.len
            lo = i.start if i.start is not None else 0
            hi = i.stop if i.stop is not None else n
            if isinstance(lo, int) and lo < 0:
                lo = n + lo
                if branch(lo < 0):
                    lo = 0
            if isinstance(hi, int) and hi < 0:
                hi = n + hi
                if branch(hi < 0):
                    hi = 0
            if isinstance(lo, SymInt) and not cur().implied(lo.e >= 0):
                raise EngineError("slice lower bound not provably >= 0")
            if isinstance(hi, SymInt) and not cur().implied(hi.e >= 0):
                raise EngineError("slice upper bound not provably >= 0")
            lo = lo if not branch(lo > n) else n
            hi = hi if not branch(hi > n) else n
            ln = (hi - lo) if branch(hi > lo) else 0
            return ArrList(self.arr, ln, self.off + lo)
        i = self._norm(interp, i)
        return mks(z3.Select(self.arr, _z(self.off + i)))

    def setitem(self, interp, i, v):
        if isinstance(i, slice):
            raise EngineError("slice assignment on ArrList")
        i = self._norm(interp, i)
        self.arr = z3.Store(self.arr, _z(self.off + i), _z(v))

    def iterate(self, interp):
        n = self.len
        k = 0
        while branch(k < n):
            if k > interp.unroll_limit:
                raise EngineError("ArrList iteration exceeded the unroll limit")
            yield mks(z3.Select(self.arr, _z(self.off + k)))
            k += 1

    def concat(self, o):
        """self + <python list of known length>: the new list is a z3 Store chain behind the last element (a new array
        term; the operands are not changed)"""
        if isinstance(o, list):
            arr = self.arr
            for k, x in enumerate(o):
                arr = z3.Store(arr, _z(self.off + self.len + k), _z(x))
            return ArrList(arr, self.len + len(o), self.off)
        raise EngineError("ArrList + %r" % type(o))

    def rconcat(self, o):
        raise EngineError("ArrList +")

    def method(self, interp, name, args, kwargs):
        if name == "append":
            if not (isinstance(self.off, int) and self.off == 0):
                raise EngineError("append on an ArrList view")
            self.arr = z3.Store(self.arr, _z(self.len), _z(args[0]))
            self.len = self.len + 1
            return None
        if name == "extend" and getattr(self, "on_extend", None) is not None and isinstance(args[0], ArrList):
            # ghost concatenation: the lemma's hook introduces the new array with its two defining quantified facts
            self.on_extend(self, args[0])
            return None
        raise EngineError("ArrList.%s" % name)

    def select(self, i):
        """A[off + i] without bounds checks (for specifications)"""
        return mks(z3.Select(self.arr, _z(self.off + i)))


class EnumView:
    """enumerate(<symbolic list>): kept as a view so that a loop over it can be cut with an invariant"""

    def __init__(self, base, start=0):
        self.base, self.start = base, start

    def length(self):
        return self.base.length()

    def getitem(self, interp, i):
        return (self.start + i, self.base.getitem(interp, i))

    def iterate(self, interp):
        k = 0
        for v in self.base.iterate(interp):
            yield (self.start + k, v)
            k += 1


class AbsList:
    """list of abstract objects with symbolic length: element k is produced by elem(k) (an interpreter object whose
    leaf fields are terms over k, e.g. Select(SIZE, k)).  Used for Program.statements of arbitrary length."""

    def __init__(self, length, elem, off=0):
        self.len, self.elem, self.off = length, elem, off

    def length(self):
        return self.len

    def getitem(self, interp, i):
        if isinstance(i, slice):
            if i.step is not None:
                raise EngineError("stepped slice of AbsList")
            n = self.len
            lo = i.start if i.start is not None else 0
            hi = i.stop if i.stop is not None else n
            if branch(lo < 0):
                lo = lo + n
                if branch(lo < 0):
                    lo = 0
            elif branch(lo > n):
                lo = n
            if branch(hi < 0):
                hi = hi + n
                if branch(hi < 0):
                    hi = 0
            elif branch(hi > n):
                hi = n
            ln = (hi - lo) if branch(hi > lo) else 0
            return AbsList(ln, self.elem, self.off + lo)
        n = self.len
        if not branch(And(i >= 0, i < n)):
            if branch(And(i < 0, i >= -n)):
                i = i + n
            else:
                interp.raise_("IndexError", "list index out of range")
        return self.elem(self.off + i)

    def iterate(self, interp):
        k = 0
        while branch(k < self.len):
            if k > interp.unroll_limit:
                raise EngineError("AbsList iteration exceeded the unroll limit (needs an invariant)")
            yield self.elem(self.off + k)
            k += 1

    def eq(self, o):
        return self is o

    def method(self, interp, name, args, kwargs):
        if name == "append" and getattr(self, "on_append", None) is not None and isinstance(self.off, int) and self.off == 0:
            # ghost fold: the lemma's hook checks that the appended object is the one the abstraction expects at index len
            self.on_append(self, args[0])
            self.len = self.len + 1
            return None
        raise EngineError("AbsList.%s" % name)


class GhostKey(str):
    """an abstract dictionary key (a label of an abstract statement): a str for concatenation / printing, identified by the
    symbolic id `gid`; id 0 is the empty string (falsy)"""

    def __new__(cls, gid):
        o = str.__new__(cls, "<label>")
        o.gid = gid
        return o


class GhostDict:
    """dict with abstract keys: the domain is a z3 array id -> Bool; stores go through `on_set(key, value)` (the lemma keeps
    its own ghost of the stored values)"""

    def __init__(self, dom, on_set=None):
        self.dom = dom
        self.on_set = on_set

    def contains(self, interp, key):
        if not isinstance(key, GhostKey):
            raise EngineError("GhostDict membership of a concrete key")
        return SymBool(z3.Select(self.dom, _z(key.gid)))

    def setitem(self, interp, key, v):
        if not isinstance(key, GhostKey):
            raise EngineError("GhostDict store with a concrete key")
        if self.on_set is not None:
            self.on_set(self, key, v)
        self.dom = z3.Store(self.dom, _z(key.gid), z3.BoolVal(True))

    def method(self, interp, name, args, kwargs):
        if name == "items" and getattr(self, "items_view", None) is not None:
            return self.items_view          # an AbsList of (GhostKey, value) pairs supplied by the lemma
        raise EngineError("GhostDict.%s" % name)
