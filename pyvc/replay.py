"""./check replay <file>: re-run one replay file natively on the real code of $VERIF_REPO."""
import json
import os
import sys


def main(argv=None):
    argv = argv if argv is not None else sys.argv[1:]
    path = argv[0]
    with open(path) as f:
        r = json.load(f)
    from pyvc.runner import all_lemmas
    from pyvc.core import native_replay
    lem = {l.name: l for l in all_lemmas()}[r["lemma"]]
    cell = None
    for tier in ("quick", "thorough"):
        for c in lem.cells(tier):
            if c["id"] == r["cell"]:
                cell = c
                break
        if cell:
            break
    if cell is None:
        print("cell %s not found" % r["cell"])
        return 3
    out = native_replay(lem, cell, r["holes"], r["clause"])
    print(json.dumps({"obligation": r["obligation"], "native": out["native"], "signature": out["signature"], "input": out["info"]},
                     indent=1, default=str))
    if out["native"] == "confirmed":
        print("VIOLATION property=%s replay=%s" % (r["property"], path))
        return 1
    return 0


if __name__ == "__main__":
    sys.setrecursionlimit(300000)
    rc = main()
    sys.stdout.flush()
    os._exit(rc)
