"""
Symbolic value domain shared by the AST interpreter (repo code) and by the
natively executed spec / contract code.

  SymInt, SymBool   -- wrappers around z3 Int / Bool terms
  SymRatio          -- result of a true division, only int() is defined on it
  SStr              -- char-vector string: concrete length, each char a code point
                       (int) or a SymChar
  Path              -- the current path: decisions, path condition, solver

A branch on a symbolic condition goes through `branch()`, which consults the
current Path: decisions of the replayed prefix are re-taken, new decisions are
checked for feasibility and the alternative is queued (DFS by re-execution).
"""
import z3

# --------------------------------------------------------------------------- paths


class EngineError(Exception):
    """The engine met something it cannot model: exit 3, never a verdict."""


class Undecided(Exception):
    """A feasibility query came back unknown."""


class PathAbort(Exception):
    """Path is infeasible / pruned (assume false)."""


class Path:
    def __init__(self, prefix=(), timeout_ms=10000):
        self.prefix = list(prefix)
        self.decisions = []
        self.pc = []
        self.solver = z3.Solver()
        self.solver.set("timeout", timeout_ms)
        self.pending = []          # alternative prefixes discovered on this run
        self.nqueries = 0
        self.solver_s = 0.0
        self.notes = []
        self.fresh = 0
        self.decomp = {}           # z3 ast id -> (base, digit terms lsb first, term)
        # feasibility of branches is decided on an integer abstraction of the path condition as soon as it
        # mentions sequences (sat queries over z3 Seq are slow); over-approximating feasibility is sound for proving
        self.light = None
        self.lenvars = {}

    def assume(self, c, seqfree=False):
        if isinstance(c, SymBool):
            c = c.e
        if isinstance(c, bool):
            if not c:
                raise PathAbort()
            return
        self.pc.append(c)
        self.solver.add(c)
        if self.light is None and not seqfree and _mentions_seq(c):
            self.light = z3.Solver()
            self.light.set("timeout", 3000)
            for old in self.pc[:-1]:
                a = _abstract(self, old)
                if a is not None:
                    self.light.add(a)
        if self.light is not None:
            a = _abstract(self, c)
            if a is not None:
                self.light.add(a)

    def check(self, *extra):
        import time
        t = time.time()
        self.nqueries += 1
        r = self.solver.check(*extra)
        self.solver_s += time.time() - t
        return r

    def decide(self, cond):
        """cond: z3 BoolRef. Returns the python bool taken on this path."""
        cond = z3.simplify(cond)
        if z3.is_true(cond):
            return True
        if z3.is_false(cond):
            return False
        n = len(self.decisions)
        if n < len(self.prefix):
            # replay: every symbolic branch event is recorded (0/1 free, 2/3 forced by the path
            # condition), so no query is needed and forced events add nothing to the pc
            d = self.prefix[n]
            self.decisions.append(d)
            if d < 2:
                self.assume(cond if d else z3.Not(cond))
            return bool(d & 1)
        if self.light is not None:
            ac = _abstract(self, cond)
            if ac is None:
                rt = rf = z3.sat          # not expressible in the abstraction: both sides explored
            else:
                import time as _t
                t0 = _t.time()
                self.nqueries += 2
                rt = self.light.check(ac)
                rf = self.light.check(z3.Not(ac)) if rt != z3.unsat else z3.sat
                self.solver_s += _t.time() - t0
        else:
            rt = self.check(cond)
            rf = self.check(z3.Not(cond)) if rt != z3.unsat else z3.sat
        if rt == z3.unknown or rf == z3.unknown:
            # unknown is treated as feasible (sound for proving: more paths), but remembered
            self.notes.append("feasibility-unknown")
        t_ok = rt != z3.unsat
        f_ok = rf != z3.unsat
        if t_ok and f_ok:
            self.pending.append(self.decisions + [0])
            self.decisions.append(1)
            self.assume(cond)
            return True
        if t_ok:
            self.decisions.append(3)
            return True       # implied by pc
        if f_ok:
            self.decisions.append(2)
            return False
        raise PathAbort()

    def implied(self, cond):
        """True iff pc => cond is valid (unsat of the negation)."""
        if isinstance(cond, SymBool):
            cond = cond.e
        if isinstance(cond, bool):
            return cond
        return self.check(z3.Not(cond)) == z3.unsat

    def fresh_int(self, name):
        self.fresh += 1
        return z3.Int("%s!%d" % (name, self.fresh))


def _mentions_seq(e):
    seen = set()
    todo = [e]
    while todo:
        t = todo.pop()
        if t.get_id() in seen:
            continue
        seen.add(t.get_id())
        if z3.is_seq(t):
            return True
        if z3.is_app(t):
            todo.extend(t.children())
    return False


def _abs_len(path, t):
    """integer abstraction of Length(t) for a sequence term t"""
    if z3.is_app(t):
        k = t.decl().kind()
        if k == z3.Z3_OP_SEQ_CONCAT:
            return z3.Sum([_abs_len(path, c) for c in t.children()])
        if k == z3.Z3_OP_SEQ_UNIT:
            return z3.IntVal(1)
        if k == z3.Z3_OP_SEQ_EMPTY:
            return z3.IntVal(0)
    key = t.get_id()
    if key not in path.lenvars:
        v = z3.Int("len!%d" % len(path.lenvars))
        path.lenvars[key] = (v, t)
        path.light.add(v >= 0)
        if z3.is_app(t) and t.decl().kind() == z3.Z3_OP_SEQ_EXTRACT:
            s0, off, ln = t.children()
            a_ln = _abstract_term(path, ln)
            a_s0 = _abs_len(path, s0)
            path.light.add(v <= a_s0)
            if a_ln is not None:
                path.light.add(z3.Implies(a_ln >= 0, v <= a_ln))
                a_off = _abstract_term(path, off)
                if a_off is not None:
                    path.light.add(z3.Implies(z3.And(a_off >= 0, a_ln >= 0, a_off + a_ln <= a_s0), v == a_ln))
    return path.lenvars[key][0]


def _abstract_term(path, t):
    """abstraction of an Int/Bool term; None when it depends on sequence contents"""
    if z3.is_seq(t):
        return None
    if not z3.is_app(t):
        return None
    k = t.decl().kind()
    if k == z3.Z3_OP_SEQ_LENGTH:
        return _abs_len(path, t.arg(0))
    if t.num_args() == 0:
        return t
    kids = []
    for c in t.children():
        if z3.is_seq(c):
            return None
        a = _abstract_term(path, c)
        if a is None:
            return None
        kids.append(a)
    try:
        return t.decl()(*kids)
    except Exception:  # noqa
        return None


def _abstract(path, c):
    """sound over-approximation of a Bool constraint without sequence contents (None = dropped)"""
    if z3.is_and(c):
        parts = [_abstract(path, x) for x in c.children()]
        parts = [x for x in parts if x is not None]
        return z3.And(*parts) if parts else None
    return _abstract_term(path, c)


_current = [None]


def cur():
    p = _current[0]
    if p is None:
        raise EngineError("symbolic branch outside of a path")
    return p


def set_path(p):
    _current[0] = p


def branch(cond):
    if isinstance(cond, bool):
        return cond
    if isinstance(cond, SymBool):
        cond = cond.e
    return cur().decide(cond)


# --------------------------------------------------------------------------- ints


def _z(x):
    if isinstance(x, SymInt):
        return x.e
    if isinstance(x, bool):
        return z3.IntVal(int(x))
    if isinstance(x, int):
        return z3.IntVal(x)
    if isinstance(x, SymBool):
        return z3.If(x.e, z3.IntVal(1), z3.IntVal(0))
    raise EngineError("not an int: %r" % (x,))


def is_sym(x):
    return isinstance(x, (SymInt, SymBool, SStr, SymRatio))


def mk(e):
    """Wrap a z3 term, folding constants to native values."""
    if z3.is_int_value(e):
        return e.as_long()
    if z3.is_true(e):
        return True
    if z3.is_false(e):
        return False
    if z3.is_bool(e):
        return SymBool(e)
    return SymInt(e)


def mks(e):
    return mk(z3.simplify(e))


class SymBool:
    __slots__ = ("e",)

    def __init__(self, e):
        self.e = e

    def __bool__(self):
        return branch(self.e)

    def __repr__(self):
        return "SymBool(%s)" % self.e

    def __and__(self, o):
        return mk(z3.And(self.e, _zb(o)))

    __rand__ = __and__

    def __or__(self, o):
        return mk(z3.Or(self.e, _zb(o)))

    __ror__ = __or__

    def __invert__(self):
        return mk(z3.Not(self.e))

    def __eq__(self, o):
        return mk(self.e == _zb(o))

    def __ne__(self, o):
        return mk(self.e != _zb(o))

    __hash__ = None


def _zb(x):
    if isinstance(x, SymBool):
        return x.e
    if isinstance(x, bool):
        return z3.BoolVal(x)
    if isinstance(x, SymInt):
        return x.e != 0
    if isinstance(x, int):
        return z3.BoolVal(x != 0)
    if z3.is_expr(x):
        return x
    raise EngineError("not a bool: %r" % (x,))


def And(*xs):
    xs = [x for x in xs if x is not True]
    if any(x is False for x in xs):
        return False
    if not xs:
        return True
    return mk(z3.And(*[_zb(x) for x in xs]))


def Or(*xs):
    xs = [x for x in xs if x is not False]
    if any(x is True for x in xs):
        return True
    if not xs:
        return False
    return mk(z3.Or(*[_zb(x) for x in xs]))


def Not(x):
    if isinstance(x, bool):
        return not x
    return mk(z3.Not(_zb(x)))


def Implies(a, b):
    return Or(Not(a), b)


def Ite(c, a, b):
    if isinstance(c, bool):
        return a if c else b
    if isinstance(a, (bool, SymBool)) and isinstance(b, (bool, SymBool)):
        return mk(z3.If(_zb(c), _zb(a), _zb(b)))
    return mk(z3.If(_zb(c), _z(a), _z(b)))


class SymInt:
    __slots__ = ("e",)

    def __init__(self, e):
        self.e = e

    def __repr__(self):
        return "SymInt(%s)" % self.e

    def __bool__(self):
        return branch(self.e != 0)

    def __index__(self):
        raise EngineError("symbolic integer used as a concrete index: %s" % self.e)

    __hash__ = None

    # arithmetic
    def __add__(self, o):
        if isinstance(o, (int, SymInt, SymBool)):
            return mk(self.e + _z(o))
        return NotImplemented

    __radd__ = __add__

    def __sub__(self, o):
        if isinstance(o, (int, SymInt, SymBool)):
            return mk(self.e - _z(o))
        return NotImplemented

    def __rsub__(self, o):
        return mk(_z(o) - self.e)

    def __mul__(self, o):
        if isinstance(o, (int, SymInt, SymBool)):
            return mk(self.e * _z(o))
        return NotImplemented

    __rmul__ = __mul__

    def __neg__(self):
        return mk(-self.e)

    def __pos__(self):
        return self

    def __abs__(self):
        return mk(z3.If(self.e >= 0, self.e, -self.e))

    def __truediv__(self, o):
        return SymRatio(self, o)

    def __rtruediv__(self, o):
        return SymRatio(o, self)

    def __floordiv__(self, o):
        return floordiv(self, o)

    def __rfloordiv__(self, o):
        return floordiv(o, self)

    def __mod__(self, o):
        return pymod(self, o)

    def __rmod__(self, o):
        return pymod(o, self)

    # comparisons
    def __eq__(self, o):
        if isinstance(o, (int, SymInt)):
            return mk(self.e == _z(o))
        return False

    def __ne__(self, o):
        if isinstance(o, (int, SymInt)):
            return mk(self.e != _z(o))
        return True

    def __lt__(self, o):
        return mk(self.e < _z(o))

    def __le__(self, o):
        return mk(self.e <= _z(o))

    def __gt__(self, o):
        return mk(self.e > _z(o))

    def __ge__(self, o):
        return mk(self.e >= _z(o))

    # bit operations (need range knowledge from the path condition)
    def __and__(self, o):
        return bitand(self, o)

    __rand__ = __and__

    def __or__(self, o):
        return bitor(self, o)

    __ror__ = __or__

    def __lshift__(self, o):
        if isinstance(o, int):
            return mk(self.e * (1 << o))
        raise EngineError("symbolic shift amount")

    def __rshift__(self, o):
        if isinstance(o, int):
            return floordiv(self, 1 << o)
        raise EngineError("symbolic shift amount")


def _divisor_sign(o):
    """Return +1/-1 if the divisor's sign is known on this path (forks on zero/sign otherwise)."""
    if isinstance(o, int):
        if o == 0:
            raise ZeroDivisionError("division by zero")
        return 1 if o > 0 else -1
    if branch(o == 0):
        raise ZeroDivisionError("division by zero")
    return 1 if branch(o > 0) else -1


def floordiv(a, b):
    s = _divisor_sign(b)
    if s > 0:
        return mk(_z(a) / _z(b))          # z3 int div == floor for positive divisor
    # a // b == (-a) // (-b)
    return mk((-_z(a)) / (-_z(b)))


def pymod(a, b):
    s = _divisor_sign(b)
    if s > 0:
        return mk(_z(a) % _z(b))
    return mk(-((-_z(a)) % (-_z(b))))


def truncdiv(a, b):
    """int(a / b) for exact integers a, b (see DESIGN 2.5 item 1)."""
    if isinstance(a, int) and isinstance(b, int):
        return int(a / b)
    _divisor_sign(b)   # zero check (forks)
    za, zb = _z(a), _z(b)
    if branch(mk(za >= 0)):
        if branch(mk(zb > 0)):
            return mk(za / zb)
        return mk(-(za / (-zb)))
    if branch(mk(zb > 0)):
        return mk(-((-za) / zb))
    return mk((-za) / (-zb))


class SymRatio:
    def __init__(self, a, b):
        self.a, self.b = a, b

    def __int__(self):
        raise EngineError("int(SymRatio) must go through the builtin model")

    def trunc(self):
        return truncdiv(self.a, self.b)


def _bits_bound(x, maxbits=24):
    """smallest k<=maxbits with pc => 0 <= x < 2^k; None if not provable."""
    if isinstance(x, int):
        if x < 0:
            return None
        return max(x.bit_length(), 0)
    p = cur()
    for k in (4, 5, 7, 8, 16, maxbits):
        if p.implied(z3.And(x.e >= 0, x.e < (1 << k))):
            return k
    return None


def bitand(a, b):
    if isinstance(a, int) and isinstance(b, int):
        return a & b
    if isinstance(a, int):
        a, b = b, a
    # a symbolic
    if isinstance(b, int):
        if b < 0:
            raise EngineError("bitand with negative mask")
        # general mask: sum of contiguous runs
        res = 0
        m = b
        lo = 0
        while m:
            if m & 1:
                hi = lo
                while (b >> (hi + 1)) & 1:
                    hi += 1
                width = hi - lo + 1
                # ((a div 2^lo) mod 2^width) * 2^lo ; python & on negative ints = two's complement,
                # z3 div/mod with positive divisor is floor/nonneg mod which matches two's complement
                res = res + mk(((a.e / (1 << lo)) % (1 << width)) * (1 << lo))
                m >>= width
                lo = hi + 1
            else:
                m >>= 1
                lo += 1
        return res
    return _bitblast(a, b, lambda x, y: z3.And(x, y))


def _bitblast(a, b, fn):
    ka, kb = _bits_bound(a), _bits_bound(b)
    if ka is None or kb is None:
        raise EngineError("bit operation on integer without provable range")
    k = max(ka, kb)
    res = 0
    for i in range(k):
        ba = (_z(a) / (1 << i)) % 2 == 1
        bb = (_z(b) / (1 << i)) % 2 == 1
        res = res + mk(z3.If(fn(ba, bb), z3.IntVal(1 << i), z3.IntVal(0)))
    return res if not isinstance(res, SymInt) else mks(res.e)


def bitor(a, b):
    if isinstance(a, int) and isinstance(b, int):
        return a | b
    if isinstance(a, int):
        a, b = b, a
    if isinstance(b, int):
        if b == 0:
            return a
        k = _bits_bound(a)
        if k is None:
            raise EngineError("bitor on integer without provable range")
        if b & ((1 << k) - 1) == 0:
            return a + b
        # per-bit: result = (a with bits of b forced to one)
        res = b
        for i in range(k):
            if not (b >> i) & 1:
                res = res + mk(((a.e / (1 << i)) % 2) * (1 << i))
        return res
    # disjoint-bits fast path:  (x << k) | y  with 0 <= y < 2**k   is   (x << k) + y
    for x, y in ((a, b), (b, a)):
        k = _bits_bound(y, 16)
        if k is not None and cur().implied(z3.And(_z(x) >= 0, _z(x) % (1 << k) == 0)):
            return x + y
    return _bitblast(a, b, lambda x, y: z3.Or(x, y))


def sym_int(name, lo=None, hi=None):
    v = SymInt(z3.Int(name))
    p = _current[0]
    if p is not None:
        if lo is not None:
            p.assume(v.e >= lo)
        if hi is not None:
            p.assume(v.e <= hi)
    return v


# --------------------------------------------------------------------------- strings


class SymChar:
    """One symbolic character: `code` is a z3 Int term; `hexval` (optional) is the z3 term of the
    hex digit value this char renders (so int(s,16) on an unmodified rendering is exact and linear)."""
    __slots__ = ("code", "hexval")

    def __init__(self, code, hexval=None):
        self.code = code
        self.hexval = hexval

    def __repr__(self):
        return "<%s>" % self.code


def _code(c):
    return c.code if isinstance(c, SymChar) else z3.IntVal(c)


class SStr:
    """char-vector string with concrete length."""
    __slots__ = ("chars", "origin")

    def __init__(self, chars, origin=None):
        self.chars = list(chars)
        self.origin = origin       # ("hex"|"dec", SymInt) when an unmodified rendering of an int

    @staticmethod
    def of(x):
        if isinstance(x, SStr):
            return x
        if isinstance(x, str):
            return SStr([ord(c) for c in x])
        raise EngineError("SStr.of(%r)" % (x,))

    def concrete(self):
        return all(isinstance(c, int) for c in self.chars)

    def norm(self):
        if self.concrete():
            return "".join(chr(c) for c in self.chars)
        return self

    def __repr__(self):
        return "SStr(%s)" % "".join(chr(c) if isinstance(c, int) else "<%s>" % c.code for c in self.chars)

    def __len__(self):
        return len(self.chars)

    __hash__ = None

    def __getitem__(self, i):
        if isinstance(i, slice):
            return SStr(self.chars[i]).norm()
        if isinstance(i, SymInt):
            raise EngineError("symbolic index into SStr")
        return SStr([self.chars[i]]).norm()

    def __iter__(self):
        for c in self.chars:
            yield SStr([c]).norm()

    def __add__(self, o):
        if isinstance(o, (str, SStr)):
            return SStr(self.chars + SStr.of(o).chars).norm()
        return NotImplemented

    def __radd__(self, o):
        if isinstance(o, str):
            return SStr(SStr.of(o).chars + self.chars).norm()
        return NotImplemented

    def eq(self, o):
        """symbolic equality -> bool | SymBool"""
        if not isinstance(o, (str, SStr)):
            return False
        o = SStr.of(o)
        if len(o.chars) != len(self.chars):
            return False
        cs = []
        for a, b in zip(self.chars, o.chars):
            if isinstance(a, int) and isinstance(b, int):
                if a != b:
                    return False
            else:
                cs.append(_code(a) == _code(b))
        if not cs:
            return True
        return mks(z3.And(*cs))

    def __eq__(self, o):
        return self.eq(o)

    def __ne__(self, o):
        return Not(self.eq(o))

    def contains(self, sub):
        sub = SStr.of(sub)
        n, m = len(self.chars), len(sub.chars)
        if m == 0:
            return True
        if m > n:
            return False
        alts = []
        for i in range(n - m + 1):
            r = SStr(self.chars[i:i + m]).eq(sub)
            if r is True:
                return True
            if r is not False:
                alts.append(r)
        return Or(*alts) if alts else False

    def __contains__(self, sub):
        return bool(self.contains(sub))


def char_in_ranges(c, ranges):
    """c: int | SymChar; ranges: list of (lo,hi) inclusive code ranges. -> bool | SymBool"""
    if isinstance(c, int):
        return any(lo <= c <= hi for lo, hi in ranges)
    return mks(z3.Or(*[z3.And(c.code >= lo, c.code <= hi) if lo != hi else c.code == lo for lo, hi in ranges]))


def sym_char(name, ranges):
    """fresh symbolic char constrained to the union of inclusive code ranges."""
    code = z3.Int(name)
    p = cur()
    p.assume(z3.Or(*[z3.And(code >= lo, code <= hi) for lo, hi in ranges]))
    return SymChar(code)


HEXCH = "0123456789ABCDEF"

# positional decompositions of parsed literals: z3 ast id -> (base, [digit terms, least significant first])
# (kept alive by holding the term, so ids are not recycled)
DECOMP = {}


def register_decomp(v, base, digits_lsb):
    if isinstance(v, SymInt):
        cur().decomp[v.e.get_id()] = (base, list(digits_lsb), v.e)


def digit_var(c, base):
    """fresh bounded digit variable equal to the value of digit char c (keeps sums linear)"""
    val, valid = hexdigit_value(c, base)
    if isinstance(val, int):
        return val, valid
    if c.hexval is not None and base == 16:
        return val, valid
    p = cur()
    dv = p.fresh_int("dg")
    p.assume(z3.And(dv >= 0, dv < base))
    # the defining equation is only meaningful when the char is a valid digit
    p.assume(z3.Implies(_zb(valid), dv == val.e))
    return SymInt(dv), valid


def hexdigit_value(c, base=16):
    """value of a digit char in the given base -> (value, valid) with value int|SymInt, valid bool|SymBool"""
    if isinstance(c, int):
        ch = chr(c)
        try:
            return int(ch, base), True
        except ValueError:
            return 0, False
    if c.hexval is not None and base == 16:
        return mk(c.hexval), True
    code = c.code
    val = z3.If(code <= 57, code - 48, z3.If(code <= 70, code - 55, code - 87))
    if base == 16:
        valid = z3.Or(z3.And(code >= 48, code <= 57), z3.And(code >= 65, code <= 70), z3.And(code >= 97, code <= 102))
    else:
        valid = z3.And(code >= 48, code <= 48 + base - 1)
        val = code - 48
    return mk(val), mks(valid)


def positional_digits(a, base, nd):
    """digit terms (least significant first) of the non-negative SymInt a < base**nd in `base`.
    Uses / records a positional decomposition so that no div/mod reaches the solver:
    fresh bounded digit variables d_k with  a == sum d_k * base**k  (the decomposition is unique)."""
    dec = cur().decomp.get(a.e.get_id())
    if dec is not None:
        b0, ds = dec[0], dec[1]
        if b0 == base:
            return [ds[k] if k < len(ds) else z3.IntVal(0) for k in range(nd)]
        # base b0 -> base b0**m (binary -> hex)
        m = 1
        while b0 ** m < base:
            m += 1
        if b0 ** m == base:
            out = []
            for k in range(nd):
                t = z3.IntVal(0)
                for j in range(m):
                    idx = m * k + j
                    if idx < len(ds):
                        t = t + ds[idx] * (b0 ** j)
                out.append(z3.simplify(t))
            return out
    p = cur()
    ds = []
    tot = z3.IntVal(0)
    for k in range(nd):
        d = p.fresh_int("pd")
        p.assume(z3.And(d >= 0, d < base))
        ds.append(d)
        tot = tot + d * (base ** k)
    p.assume(a.e == tot)
    p.decomp[a.e.get_id()] = (base, ds, a.e)
    return ds


def render_int(v, base=10, upper=True, width=0, fill="0"):
    """str rendering of an int (possibly symbolic) -> str | SStr.  Forks on the digit count."""
    if isinstance(v, bool):
        v = int(v)
    if isinstance(v, int):
        if base == 16:
            s = ("%X" if upper else "%x") % v
        else:
            s = "%d" % v
        return s.rjust(width, fill) if width else s
    neg = branch(v < 0)
    a = -v if neg else v
    nd = 1
    while True:
        if branch(a < base ** nd):
            break
        nd += 1
        if nd > 12:
            raise EngineError("render_int: more than 12 digits")
    chars = []
    digits = positional_digits(a, base, nd)
    for k in range(nd - 1, -1, -1):
        d = digits[k]
        if base == 16:
            code = z3.If(d < 10, 48 + d, (55 if upper else 87) + d)
        else:
            code = 48 + d
        chars.append(SymChar(z3.simplify(code), hexval=d if base == 16 else None))
    if neg:
        chars = [ord("-")] + chars
    if width and len(chars) < width:
        chars = [ord(fill)] * (width - len(chars)) + chars
    return SStr(chars, origin=("hex" if base == 16 else "dec", v))


def parse_int(s, base=10):
    """int(s, base) for str | SStr. Raises ValueError (python) on invalid digits."""
    if isinstance(s, str):
        return int(s, base)
    if s.origin is not None and ((s.origin[0] == "hex" and base == 16) or (s.origin[0] == "dec" and base == 10)):
        return s.origin[1]
    chars = s.chars
    neg = False
    if chars and isinstance(chars[0], int) and chars[0] == ord("-"):
        neg = True
        chars = chars[1:]
    if not chars:
        raise ValueError("invalid literal for int()")
    total = 0
    digs = []
    for c in chars:
        val, valid = digit_var(c, base)
        if not branch(valid):
            raise ValueError("invalid literal for int() with base %d" % base)
        total = total * base + val
        digs.append(_z(val))
    if isinstance(total, SymInt):
        total = mks(total.e)
        if not neg:
            register_decomp(total, base, digs[::-1])
    return -total if neg else total
