"""
Frame (modifies) monitor for C17: every heap write performed while the assembler runs must go to an object
created during that run.  Objects reachable from module globals, class attributes and default arguments at
import time are SHARED; the caller's list of source lines is INPUT.  A write to either is a frame violation.
"""
from .objs import Obj, Cls, Func, BoundMethod


def mark_shared(interp):
    """tag everything reachable from the loaded modules as SHARED; returns the set of ids of shared containers"""
    ids = set()
    seen = set()

    def walk(v):
        if isinstance(v, (int, str, bool, float, bytes)) or v is None:
            return
        k = id(v)
        if k in seen:
            return
        seen.add(k)
        if isinstance(v, Obj):
            v.tag = "SHARED"
            for x in v.fields.values():
                walk(x)
        elif isinstance(v, (list, tuple)):
            if isinstance(v, list):
                ids.add(k)
            for x in v:
                walk(x)
        elif isinstance(v, dict):
            ids.add(k)
            for x in v.values():
                walk(x)
        elif isinstance(v, (set, frozenset)):
            ids.add(k)
        elif isinstance(v, Cls):
            for x in v.attrs.values():
                walk(x)
            for x in v.members.values():
                walk(x)
            for x in v.defaults.values():
                walk(x)
        elif isinstance(v, Func):
            for x in v.defaults:
                walk(x)
    for m in list(interp.modules.values()):
        for name, v in m.globals.items():
            walk(v)
    interp.shared_ids = ids
    interp.shared_marked = len(interp.modules)
    return ids


class FrameMonitor:
    def __init__(self, interp, inputs=()):
        if getattr(interp, "shared_marked", None) != len(interp.modules):
            mark_shared(interp)
        self.interp = interp
        self.shared = interp.shared_ids
        self.inputs = {id(x) for x in inputs}
        self.violations = []
        self.writes = 0

    def hook(self, interp, target, key, kind):
        self.writes += 1
        bad = None
        if isinstance(target, Obj):
            if target.tag == "SHARED":
                bad = "shared %s object" % target.cls.name
        elif isinstance(target, Cls):
            bad = "class %s" % target.name
        elif isinstance(target, (list, dict, set)):
            k = id(target)
            if k in self.inputs:
                bad = "the caller's input list"
            elif k in self.shared:
                bad = "a module-level / default-argument container"
        if bad is not None:
            f = interp.stack[-1].key if interp.stack else "<module>"
            self.violations.append("%s writes .%s of %s" % (f, key if isinstance(key, str) else "[...]", bad))
