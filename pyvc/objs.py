"""Object model of the AST interpreter."""
import itertools

_oid = itertools.count(1)


class Cls:
    def __init__(self, name, bases=(), attrs=None, module=None, kind="plain"):
        self.name = name
        self.bases = list(bases)
        self.attrs = attrs if attrs is not None else {}
        self.module = module
        self.kind = kind            # plain | namedtuple | enum | exception | builtin-exc | marker
        self.fields = []            # namedtuple field order
        self.defaults = {}
        self.members = {}           # enum members
        self.tag = "SHARED"
        self._mro = None

    def mro(self):
        if self._mro is None:
            out = [self]
            for b in self.bases:
                for c in b.mro():
                    if c not in out:
                        out.append(c)
            self._mro = out
        return self._mro

    def lookup(self, name, after=None):
        m = self.mro()
        if after is not None:
            m = m[m.index(after) + 1:]
        for c in m:
            if name in c.attrs:
                return c.attrs[name], c
        return None, None

    def issub(self, other):
        return other in self.mro()

    def __repr__(self):
        return "<class %s>" % self.name


class Obj:
    __slots__ = ("cls", "fields", "oid", "tag")

    def __init__(self, cls, fields=None, tag="FRESH"):
        self.cls = cls
        self.fields = fields if fields is not None else {}
        self.oid = next(_oid)
        self.tag = tag

    def __repr__(self):
        return "<%s#%d>" % (self.cls.name, self.oid)


class Func:
    def __init__(self, node, module, qualname, defaults, kw_defaults=None, owner=None, kind="function"):
        self.node = node
        self.module = module
        self.qualname = qualname
        self.defaults = defaults        # list of values aligned to the last positional params
        self.owner = owner              # defining class
        self.kind = kind                # function | classmethod | staticmethod
        self.abstract = False

    @property
    def key(self):
        return "%s::%s" % (self.module.relpath, self.qualname)

    def __repr__(self):
        return "<func %s>" % self.key


class BoundMethod:
    __slots__ = ("func", "self")

    def __init__(self, func, self_):
        self.func = func
        self.self = self_


class Builtin:
    def __init__(self, name, fn=None):
        self.name = name
        self.fn = fn

    def __repr__(self):
        return "<builtin %s>" % self.name


class NativeMethod:
    """method of a native / symbolic value, resolved by name at call time"""
    __slots__ = ("recv", "name")

    def __init__(self, recv, name):
        self.recv = recv
        self.name = name


class SuperProxy:
    __slots__ = ("owner", "self")

    def __init__(self, owner, self_):
        self.owner = owner
        self.self = self_


class ModStub:
    def __init__(self, name, attrs):
        self.name = name
        self.attrs = attrs


class Module:
    def __init__(self, name, relpath, tree, source):
        self.name = name
        self.relpath = relpath
        self.tree = tree
        self.source = source
        self.globals = {}


class PyRaise(Exception):
    """An interpreted exception in flight."""

    def __init__(self, exc, site=None):
        Exception.__init__(self)
        self.exc = exc          # Obj whose cls is an exception class
        self.site = site        # (function key, source segment) of the innermost raise point

    def __str__(self):
        return "PyRaise(%s: %s @ %s)" % (self.exc.cls.name, self.exc.fields.get("args"), self.site)


class RegexObj:
    def __init__(self, pattern):
        import re
        self.pattern = pattern
        self.native = re.compile(pattern)


class MatchObj:
    def __init__(self, groups, names, whole):
        self.groups = groups    # index -> value (str|SStr|None)
        self.names = names      # name -> index
        self.whole = whole

    def group(self, key=0):
        if isinstance(key, str):
            key = self.names[key]
        if key == 0:
            return self.whole
        return self.groups.get(key)


class FileObj:
    def __init__(self, fs, path, mode):
        self.fs, self.path, self.mode = fs, path, mode
        self.pos = 0
        self.out = []
