"""
Function-level contracts for the AST interpreter: loop invariants (loop cutting with ghost
state) and opaque call contracts (the callee is replaced by requires-check + havoc + ensures).

A Verifier is installed on the Interp for the duration of one lemma path:

    v = Verifier(env)
    v.loop(func_key, ordinal, LoopSpec(...))
    v.contract(func_key, CallSpec(...))
    with v.installed():
        ... interp.call(...) ...

Loop cutting (Hoare rule for `for x in range(a, b)` / `for x in <SeqList>` / `while c`):
  * inv-init:  Inv holds on entry (index a, initial ghost)
  * the path forks into
      - step path: state havoc'd, assume a <= i < b and Inv(i), run the body ONCE, prove Inv(i+1)
        (obligation inv-step) and end the path;
      - exit path: state havoc'd, assume Inv(b), continue after the loop (inv-use by the caller).
Every obligation is recorded through env.ensure under the name
    <func key>::loop<ordinal>::inv-init|inv-step:<clause>
"""
import ast
import contextlib

import z3

from . import sym
from .sym import SymInt, SymBool, EngineError, branch, mk, mks, And, cur
from .core import StopPath
from .lists import SymRange, SeqList, ArrList, EnumView, AbsList


LOOP_INTERNAL = "loop-invariant obligation (the counter-model of an inductive step need not be a reachable state)"


def loop_ordinal(func, node):
    loops = [n for n in ast.walk(func.node) if isinstance(n, (ast.For, ast.While))]
    loops.sort(key=lambda n: (n.lineno, n.col_offset))
    return loops.index(node)


class Forall:
    """quantified invariant clause   forall q. lo <= q < hi  ->  body(q)   (q a SymInt).
    Never handed to the solver as a quantifier: as a HYPOTHESIS it is kept as a fact that is instantiated at the
    skolem index of the goal being proved (and at any index named by the lemma); as a GOAL it is skolemised."""

    def __init__(self, name, lo, hi, body):
        self.name, self.lo, self.hi, self.body = name, lo, hi, body

    def instance(self, q):
        if self.lo is None:
            return self.body(q)             # quantified over all integers
        return sym.Implies(And(self.lo <= q, q < self.hi), self.body(q))


def prove_forall(env, path, clause, goal, facts, props, extra_instances=(), hyps=None, internal=None):
    """skolemise `goal` with a fresh index q and prove
          (lo <= q < hi) and (instances of every fact at q and at extra_instances(q))  ==>  body(q)
    as ONE implication: nothing is added to the path condition (an empty range must not make the path vacuous)."""
    path.fresh += 1
    q = SymInt(z3.Int("q!%d" % path.fresh))
    hs = [goal.lo <= q, q < goal.hi] if goal.lo is not None else []
    for f in facts:
        hs.append(f.instance(q))
        for t in (extra_instances(q) if extra_instances else ()):
            hs.append(f.instance(t))
    if hyps is not None:
        hs.extend(hyps(q))
    return env.ensure(clause, sym.Implies(And(*hs), goal.body(q)), props, internal=internal)


from . import localnames


class LoopCtx:
    def __init__(self, v, interp, frame, node, it):
        self.v, self.interp, self.frame, self.node, self.it = v, interp, frame, node, it
        al = localnames.aliases(frame.func) if frame.func is not None else {}
        self.locals = localnames.AliasDict(frame.locals, al) if al else frame.locals
        self.saved = {}


class LoopSpec:
    """
    props      property ids the invariant obligations carry
    init(ctx) -> ghost                    ghost state on entry
    havoc(ctx) -> ghost                   replace everything the loop may modify by fresh symbols; fresh ghost
    inv(ctx, i, ghost) -> [(name, cond)]  the invariant at index i
    step(ctx, i, ghost) -> ghost          ghost update performed by one iteration (after the body ran)
    """

    def __init__(self, props, init, havoc, inv, step, name="loop", hyps=None, assume=None, index=None, variant=None, instances=None):
        self.props, self.init, self.havoc, self.inv, self.step, self.name = props, init, havoc, inv, step, name
        self.index, self.variant, self.instances = index, variant, instances
        self.hyps = hyps        # hyps(ctx, i, q) -> extra hypothesis instances (named instances of preconditions / lemmas) for index q
        self.assume = assume    # assume(ctx, i) -> precondition instances needed by the body at iteration i (assumed on the step path)


class CallSpec:
    """opaque contract: apply(v, interp, func, args) -> result   (checks requires via v.env.ensure, havocs, assumes ensures)"""

    def __init__(self, apply, nested_only=False):
        self.apply = apply
        self.nested_only = nested_only


class Verifier:
    def __init__(self, env, interp):
        self.env = env
        self.interp = interp
        self.loops = {}
        self.calls = {}
        self.active = {}
        self.facts = []           # quantified facts (Forall) established by cut loops / call contracts on this path

    def loop(self, key, ordinal, spec):
        self.loops[(key, ordinal)] = spec

    def contract(self, key, spec):
        self.calls[key] = spec

    @contextlib.contextmanager
    def installed(self):
        it = self.interp
        old = (it.loop_hook, it.call_hook)
        it.loop_hook, it.call_hook = self.on_loop, self.on_call
        try:
            yield self
        finally:
            it.loop_hook, it.call_hook = old

    # ------------------------------------------------------------------ calls
    def on_call(self, interp, func, bound):
        spec = self.calls.get(func.key)
        if spec is None:
            return False, None
        depth = self.active.get(func.key, 0)
        if spec.nested_only and depth == 0:
            # the function under verification itself: run the body, nested calls use the contract
            self.active[func.key] = depth + 1
            try:
                return True, interp.run_func(func, bound)
            finally:
                self.active[func.key] = depth
        al = localnames.aliases(func)
        return True, spec.apply(self, interp, func, localnames.AliasDict(bound, al) if al else bound)

    # ------------------------------------------------------------------ loops
    def on_loop(self, interp, frame, node, it):
        if frame.func is None:
            return None
        try:
            ordn = loop_ordinal(frame.func, node)
        except ValueError:
            return None
        spec = self.loops.get((frame.func.key, ordn))
        if spec is None:
            return None
        name = "%s::loop%d" % (frame.func.key, ordn)
        ctx = LoopCtx(self, interp, frame, node, it)
        env = self.env
        if isinstance(node, ast.For):
            ctx.ghost = None
            if isinstance(it, SymRange):
                if it.step != 1:
                    raise EngineError("loop cut on stepped range")
                a, b = it.start, it.stop
                elem = lambda i: i
            elif isinstance(it, range):
                if it.step != 1:
                    raise EngineError("loop cut on stepped range")
                a, b = it.start, it.stop
                elem = lambda i: i
            elif isinstance(it, (SeqList, ArrList, EnumView, AbsList)):
                a, b = 0, it.length()
                elem = lambda i: it.getitem(interp, i)
            else:
                raise EngineError("loop cut over %r" % type(it))
            if not branch(a < b):
                return (None,)
            g0 = spec.init(ctx)
            p = cur()
            for item in spec.inv(ctx, a, g0):
                if isinstance(item, Forall):
                    prove_forall(env, p, "%s::inv-init:%s" % (name, item.name), item, [], spec.props, internal=LOOP_INTERNAL,
                                 hyps=(lambda q: spec.hyps(ctx, a, q)) if spec.hyps else None)
                else:
                    env.ensure("%s::inv-init:%s" % (name, item[0]), item[1], spec.props, internal=LOOP_INTERNAL)
            p.fresh += 1
            choose = z3.Bool("cut!%d" % p.fresh)
            ghost = spec.havoc(ctx)
            if p.decide(choose):
                # ---- preservation
                i = SymInt(p.fresh_int("i"))
                p.assume(a <= i)
                p.assume(i < b)
                facts = []
                for item in spec.inv(ctx, i, ghost):
                    if isinstance(item, Forall):
                        facts.append(item)
                    else:
                        p.assume(item[1])
                if spec.assume:
                    for c in spec.assume(ctx, i):
                        p.assume(c)
                interp.assign(node.target, elem(i), frame)
                self.facts.extend(facts)          # the invariant's quantified facts are available to contracts called in the body
                r = interp.exec_block(node.body, frame)
                if r is not None:
                    if r[0] == "return":
                        # the body leaves the function at an arbitrary iteration i: the invariant at i (assumed above) and
                        # its quantified facts carry over to the caller's post-condition; nothing to re-establish
                        self.exit_index = i
                        return (r,)
                    if r[0] == "break":
                        # the loop is left from inside iteration i: the code after the loop runs on this state (the invariant at i
                        # was assumed, the body ran up to the break); nothing to re-establish
                        self.exit_index = i
                        return (None,)
                    raise EngineError("continue inside a cut loop")
                g2 = spec.step(ctx, i, ghost)
                for item in spec.inv(ctx, i + 1, g2):
                    if isinstance(item, Forall):
                        prove_forall(env, p, "%s::inv-step:%s" % (name, item.name), item, [f for f in facts if f.name == item.name],
                                     spec.props, internal=LOOP_INTERNAL, hyps=(lambda q: spec.hyps(ctx, i, q)) if spec.hyps else None)
                    else:
                        env.ensure("%s::inv-step:%s" % (name, item[0]), item[1], spec.props, internal=LOOP_INTERNAL)
                raise StopPath()
            # ---- exit
            for item in spec.inv(ctx, b, ghost):
                if isinstance(item, Forall):
                    self.facts.append(item)
                else:
                    p.assume(item[1])
            if not isinstance(it, (SeqList, ArrList, EnumView, AbsList)):
                interp.assign(node.target, elem(b - 1), frame)
            return (None,)
        # ---------------------------------------------------------------- while loops
        # spec.index(ctx) gives the ghost iteration measure the invariant talks about, spec.variant(ctx) a term that must
        # decrease and stay >= 0.  The loop test itself is evaluated by the interpreter on the havoc'd state.
        if spec.index is None:
            raise EngineError("while loop cut needs LoopSpec.index")
        p = cur()
        g0 = spec.init(ctx)
        for item in spec.inv(ctx, spec.index(ctx), g0):
            if isinstance(item, Forall):
                prove_forall(env, p, "%s::inv-init:%s" % (name, item.name), item, [], spec.props, internal=LOOP_INTERNAL,
                             hyps=(lambda q: spec.hyps(ctx, spec.index(ctx), q)) if spec.hyps else None)
            else:
                env.ensure("%s::inv-init:%s" % (name, item[0]), item[1], spec.props, internal=LOOP_INTERNAL)
        p.fresh += 1
        choose = z3.Bool("cut!%d" % p.fresh)
        ghost = spec.havoc(ctx)
        i = spec.index(ctx)
        facts = []
        for item in spec.inv(ctx, i, ghost):
            if isinstance(item, Forall):
                facts.append(item)
            else:
                p.assume(item[1])
        if p.decide(choose):
            if not interp.truth(interp.eval(node.test, frame)):
                raise sym.PathAbort()
            var0 = spec.variant(ctx) if spec.variant else None
            if spec.assume:
                for c in spec.assume(ctx, i):
                    p.assume(c)
            self.facts.extend(facts)
            r = interp.exec_block(node.body, frame)
            if r is not None:
                if r[0] == "return":
                    return (r,)
                if r[0] == "break":
                    self.exit_ghost = ghost
                    return (None,)
                raise EngineError("continue inside a cut while loop")
            g2 = spec.step(ctx, i, ghost)
            i2 = spec.index(ctx)
            for item in spec.inv(ctx, i2, g2):
                if isinstance(item, Forall):
                    prove_forall(env, p, "%s::inv-step:%s" % (name, item.name), item, list(facts),
                                 spec.props, internal=LOOP_INTERNAL, hyps=(lambda q: spec.hyps(ctx, i, q)) if spec.hyps else None,
                                 extra_instances=(lambda q: spec.instances(ctx, i, q)) if getattr(spec, "instances", None) else ())
                else:
                    env.ensure("%s::inv-step:%s" % (name, item[0]), item[1], spec.props, internal=LOOP_INTERNAL)
            if spec.variant:
                var1 = spec.variant(ctx)
                env.ensure("%s::variant" % name, And(var1 < var0, var1 >= 0), tuple(spec.props) + ("C13",), internal=LOOP_INTERNAL)
            raise StopPath()
        if interp.truth(interp.eval(node.test, frame)):
            raise sym.PathAbort()
        self.facts.extend(facts)
        self.exit_ghost = ghost
        return (None,)


def _zc(c):
    if isinstance(c, SymBool):
        return c.e
    if isinstance(c, bool):
        return z3.BoolVal(c)
    return c
