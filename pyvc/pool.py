"""
Process pool with a hard per-task wall-clock limit.  z3 does not always honour its own timeout
(sequence theory, heavy div/mod preprocessing), so a task that overruns is killed with its worker and
reported as `watchdog` (the caller turns that into an undecided cell, never a verdict).
"""
import multiprocessing as mp
import os
import queue
import time
import traceback


def _worker(init, fn, inq, outq):
    try:
        if init:
            init()
    except Exception as e:  # noqa
        outq.put(("init-error", None, "%s\n%s" % (e, traceback.format_exc()[-800:])))
        return
    while True:
        item = inq.get()
        if item is None:
            return
        idx, task = item
        outq.put(("start", idx, os.getpid()))
        try:
            r = fn(task)
            outq.put(("done", idx, r))
        except Exception as e:  # noqa
            outq.put(("error", idx, "%s\n%s" % (e, traceback.format_exc()[-800:])))


class _W:
    def __init__(self, ctx, init, fn, outq):
        self.inq = ctx.Queue()
        self.proc = ctx.Process(target=_worker, args=(init, fn, self.inq, outq), daemon=True)
        self.proc.start()
        self.task = None
        self.t0 = None


def run_tasks(fn, tasks, jobs, init=None, limit_s=300):
    """yields (task_index, status, result) with status in done|error|watchdog, in completion order"""
    ctx = mp.get_context("fork")
    outq = ctx.Queue()
    n = len(tasks)
    jobs = max(1, min(jobs, n))
    workers = [_W(ctx, init, fn, outq) for _ in range(jobs)]
    bypid = {w.proc.pid: w for w in workers}
    nxt = 0
    finished = 0

    def feed(w):
        nonlocal nxt
        if nxt < n:
            w.task = nxt
            w.t0 = time.time()
            w.inq.put((nxt, tasks[nxt]))
            nxt += 1
        else:
            w.task = None
            w.inq.put(None)

    for w in workers:
        feed(w)
    try:
        while finished < n:
            try:
                kind, idx, payload = outq.get(timeout=1.0)
            except queue.Empty:
                kind = None
            now = time.time()
            if kind == "start":
                w = bypid.get(payload)
                if w is not None:
                    w.t0 = now
            elif kind in ("done", "error"):
                w = next((x for x in workers if x.task == idx), None)
                finished += 1
                yield idx, kind, payload
                if w is not None:
                    feed(w)
            elif kind == "init-error":
                raise RuntimeError("worker init failed: %s" % payload)
            # watchdog
            for i, w in enumerate(workers):
                if w.task is not None and w.t0 is not None and now - w.t0 > limit_s:
                    idx = w.task
                    try:
                        w.proc.kill()
                        w.proc.join(2)
                    except Exception:  # noqa
                        pass
                    bypid.pop(w.proc.pid, None)
                    finished += 1
                    yield idx, "watchdog", "cell exceeded %ds wall-clock" % limit_s
                    nw = _W(ctx, init, fn, outq)
                    workers[i] = nw
                    bypid[nw.proc.pid] = nw
                    feed(nw)
                elif w.task is not None and not w.proc.is_alive():
                    idx = w.task
                    finished += 1
                    yield idx, "error", "worker died (exit code %s)" % w.proc.exitcode
                    nw = _W(ctx, init, fn, outq)
                    workers[i] = nw
                    bypid[nw.proc.pid] = nw
                    feed(nw)
    finally:
        for w in workers:
            try:
                if w.proc.is_alive():
                    w.proc.kill()
            except Exception:  # noqa
                pass
