"""setup_cmd: spec sanity checks + engine conformance (offline)."""
import os
import sys


def main():
    from specs import mc6809
    mc6809.selftest()
    print("spec selftests ok")
    for mod in ("specs.tape", "specs.diskbasic", "specs.exprsem"):
        try:
            m = __import__(mod, fromlist=["selftest"])
        except ModuleNotFoundError:
            continue
        m.selftest()
        print(mod, "selftest ok")
    from pyvc import conform
    rc = conform.main(["--n", os.environ.get("VERIF_CONFORM_N", "150")])
    if rc:
        print("CHECKER-ERROR: engine conformance mismatch")
        sys.exit(3)
    print("setup ok")


if __name__ == "__main__":
    sys.setrecursionlimit(300000)
    main()
    sys.stdout.flush()
    os._exit(0)
