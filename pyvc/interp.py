"""
AST interpreter for the Python subset used by craigthomas/CoCoAssembler (DESIGN App. E).

Runs the *real* source of $VERIF_REPO: every module is parsed with ast.parse on each run and
interpreted; concrete sub-computations are delegated to CPython itself, symbolic ones to the
models in sym.py / strmodel.py / rx.py.  A construct outside the subset raises EngineError
(exit 3), never a verdict.
"""
import ast
import copy as pycopy
import os
import sys

from . import sym
from .sym import (SymInt, SymBool, SStr, SymRatio, EngineError, branch, mk, mks, Not, And, Or, Ite,
                  parse_int, render_int)
from .objs import (Cls, Obj, Func, BoundMethod, Builtin, NativeMethod, SuperProxy, ModStub, Module,
                   PyRaise, RegexObj, MatchObj, FileObj)
from . import strmodel, rx
from .lists import SeqList, ArrList, SymRange, EnumView, AbsList, GhostKey, GhostDict

MAX_CALL_DEPTH = 960       # CPython's default recursion limit is 1000


class _Ret(Exception):
    pass


class Frame:
    __slots__ = ("locals", "module", "func", "self_obj", "node", "globals_declared", "closure")

    def __init__(self, module, func=None):
        self.locals = {}
        self.module = module
        self.func = func
        self.node = None
        self.globals_declared = None
        self.closure = None          # enclosing function's locals (nested functions / lambdas)


BUILTIN_EXC = {
    "BaseException": None, "Exception": "BaseException", "SystemExit": "BaseException",
    "ArithmeticError": "Exception", "ZeroDivisionError": "ArithmeticError",
    "LookupError": "Exception", "IndexError": "LookupError", "KeyError": "LookupError",
    "ValueError": "Exception", "UnicodeDecodeError": "ValueError", "UnicodeError": "ValueError",
    "TypeError": "Exception", "AttributeError": "Exception", "NameError": "Exception",
    "RuntimeError": "Exception", "RecursionError": "RuntimeError", "NotImplementedError": "RuntimeError",
    "OSError": "Exception", "FileExistsError": "OSError", "FileNotFoundError": "OSError",
    "IsADirectoryError": "OSError", "PermissionError": "OSError",
    "StopIteration": "Exception", "AssertionError": "Exception", "OverflowError": "ArithmeticError",
}

NATIVE_EXC = (IndexError, KeyError, ValueError, TypeError, AttributeError, ZeroDivisionError,
              UnicodeDecodeError, OverflowError)


class Interp:
    def __init__(self, repo_root):
        self.root = repo_root
        self.modules = {}
        self.depth = 0
        self.stack = []                # Func objects of active interpreted calls
        self.fs = {}                   # ghost filesystem: path -> list[int] (binary) | list[str] (text lines)
        self.cwd = ""                  # ghost working directory, relative to the root the fs keys are relative to ("" = the root)
        self.fs_writes = []            # (path, data) in order
        self.stdout = []
        self.call_hook = None          # fn(interp, func, args:dict) -> (handled, result)
        self.write_hook = None         # fn(interp, target, attr_or_index, kind)
        self.loop_hook = None          # fn(interp, frame, node, iterable) -> None | handled
        self.unroll_limit = 200000
        self.while_limit = None
        self.steps = 0
        self.step_limit = None
        self.exc = {}
        for name in BUILTIN_EXC:
            self.exc[name] = Cls(name, [], {}, None, "builtin-exc")
        for name, base in BUILTIN_EXC.items():
            if base:
                self.exc[name].bases = [self.exc[base]]
        self.markers = {n: Cls(n, [], {}, None, "marker") for n in
                        ("object", "ABC", "NamedTuple", "Enum", "IntEnum")}
        self.types = {n: Builtin(n) for n in ("int", "str", "list", "dict", "bool", "tuple", "bytes",
                                               "bytearray", "float", "NoneType", "range")}
        self.builtins = self._make_builtins()

    # ------------------------------------------------------------------ modules
    def load(self, name):
        if name in self.modules:
            return self.modules[name]
        rel = name.replace(".", "/")
        path = os.path.join(self.root, rel + ".py")
        if not os.path.exists(path):
            path = os.path.join(self.root, rel, "__init__.py")
            rel = rel + "/__init__"
        with open(path) as f:
            src = f.read()
        tree = ast.parse(src, filename=path)
        mod = Module(name, rel + ".py", tree, src)
        self.modules[name] = mod
        mod.globals["__name__"] = name
        fr = Frame(mod)
        fr.locals = mod.globals
        self.exec_block(tree.body, fr)
        return mod

    def get(self, modname, qual):
        """fetch module attribute / Class.attr by dotted path"""
        v = self.load(modname).globals[qual.split(".")[0]]
        for part in qual.split(".")[1:]:
            v = self.getattr_(v, part)
        return v

    def _import_stub(self, name):
        if name == "re":
            def _re_fn(nm):
                def f(pat, text, *a):
                    if nm in ("match", "search"):
                        return self.regex(RegexObj(pat), text, nm == "search")
                    if not isinstance(text, str) or any(not isinstance(x, (str, int)) for x in a):
                        raise EngineError("re.%s on symbolic text" % nm)
                    import re as _re
                    return self.native(getattr(_re, nm), pat, text, *a)
                return f

            def _re_sub(pat, repl, text, *a):
                if not isinstance(text, str) or not isinstance(repl, str):
                    raise EngineError("re.sub on symbolic text")
                import re as _re
                return self.native(_re.sub, pat, repl, text, *a)
            return ModStub("re", {"compile": Builtin("re.compile", lambda p, *a: RegexObj(p)), "match": Builtin("re.match", _re_fn("match")),
                                  "search": Builtin("re.search", _re_fn("search")), "split": Builtin("re.split", _re_fn("split")),
                                  "findall": Builtin("re.findall", _re_fn("findall")), "sub": Builtin("re.sub", _re_sub)})
        if name == "os":
            # ghost-filesystem contracts of the os.path predicates the repo (or a plausible change to it) uses
            return ModStub("os", {"path": ModStub("os.path", {
                "exists": Builtin("os.path.exists", self._exists), "isfile": Builtin("os.path.isfile", self._exists),
                "getsize": Builtin("os.path.getsize", self._getsize),
                "basename": Builtin("os.path.basename", lambda p_: self.native(os.path.basename, p_)),
                "dirname": Builtin("os.path.dirname", lambda p_: self.native(os.path.dirname, p_)),
                "splitext": Builtin("os.path.splitext", lambda p_: self.native(os.path.splitext, p_)),
                "join": Builtin("os.path.join", lambda *p_: self.native(os.path.join, *p_)),
                "abspath": Builtin("os.path.abspath", self._abspath),
                "isdir": Builtin("os.path.isdir", lambda p_: any(k.startswith(self._fskey(p_).rstrip("/") + "/") for k in self.fs) or self._fskey(p_) == "")}),
                "getcwd": Builtin("os.getcwd", lambda: self.GHOST_ROOT + ("/" + self.cwd if self.cwd else "")),
                "chdir": Builtin("os.chdir", self._chdir), "sep": "/"})
        if name == "sys":
            return ModStub("sys", {"exit": Builtin("sys.exit", self._sys_exit), "argv": []})
        if name == "copy":
            return ModStub("copy", {"copy": Builtin("copy", self._copy), "deepcopy": Builtin("deepcopy", self._deepcopy)})
        if name == "argparse":
            return ModStub("argparse", {})
        raise EngineError("import of unmodelled module %s" % name)

    GHOST_ROOT = "/ghost"

    def _fskey(self, p):
        """ghost-fs key of a path as the program names it: relative names are taken from the ghost working directory, absolute
        names must lie below the ghost root"""
        if not isinstance(p, str):
            return p
        if p.startswith(self.GHOST_ROOT):
            rel = p[len(self.GHOST_ROOT):].lstrip("/")
        elif p.startswith("/"):
            return p
        else:
            rel = os.path.join(self.cwd, p) if self.cwd else p
        rel = os.path.normpath(rel) if rel else ""
        return "" if rel == "." else rel

    def _abspath(self, p):
        k = self._fskey(p)
        return self.GHOST_ROOT + ("/" + k if k else "") if not (isinstance(k, str) and k.startswith("/")) else k

    def _chdir(self, p):
        k = self._fskey(p)
        if self.write_hook is not None:
            self.write_hook(self, "<process working directory>", "chdir", "process")
        self.cwd = k
        return None

    def _exists(self, p):
        return self._fskey(p) in self.fs

    def _getsize(self, p):
        p = self._fskey(p)
        if p not in self.fs:
            raise PyRaise(self.mk_exc("FileNotFoundError", p))
        return len(self.fs[p])

    def _sys_exit(self, code=0):
        raise PyRaise(self.mk_exc("SystemExit", code))

    def _copy(self, v):
        if isinstance(v, Obj):
            o = Obj(v.cls, dict(v.fields))
            return o
        if v is None or isinstance(v, (int, str, bool, SymInt, SStr)):
            return v
        if isinstance(v, list):
            return list(v)
        raise EngineError("copy of %r" % (v,))

    def _deepcopy(self, v):
        if isinstance(v, list):
            if all(isinstance(x, (int, SymInt)) for x in v):
                return list(v)
            return [self._deepcopy(x) for x in v]
        if isinstance(v, (SeqList, ArrList)):
            return v.clone()
        if v is None or isinstance(v, (int, str, bool, SymInt, SStr, bytes)):
            return v
        if isinstance(v, Obj):
            o = Obj(v.cls, {k: self._deepcopy(x) for k, x in v.fields.items()})
            return o
        raise EngineError("deepcopy of %r" % (v,))

    # ------------------------------------------------------------------ exceptions
    def mk_exc(self, name, *args):
        cls = self.exc[name] if isinstance(name, str) else name
        return Obj(cls, {"args": tuple(args)})

    def raise_(self, name, msg=""):
        raise PyRaise(self.mk_exc(name, msg), self.site())

    def site(self):
        f = self.stack[-1] if self.stack else None
        return (f.key if f else "<module>",)

    def native(self, fn, *args, **kw):
        """run a CPython operation on concrete values, translating its exceptions"""
        try:
            return fn(*args, **kw)
        except NATIVE_EXC as e:
            raise PyRaise(self.mk_exc(type(e).__name__, str(e)), self.site())

    # ------------------------------------------------------------------ statements
    def exec_block(self, stmts, fr):
        for s in stmts:
            r = self.exec_stmt(s, fr)
            if r is not None:
                return r
        return None

    def exec_stmt(self, s, fr):
        self.steps += 1
        if self.step_limit and self.steps > self.step_limit:
            raise EngineError("step limit exceeded")
        fr.node = s
        m = getattr(self, "st_" + type(s).__name__, None)
        if m is None:
            raise EngineError("unsupported statement %s" % type(s).__name__)
        return m(s, fr)

    def st_Expr(self, s, fr):
        self.eval(s.value, fr)

    def st_Pass(self, s, fr):
        return None

    def st_Assert(self, s, fr):
        if not self.truth(self.eval(s.test, fr)):
            msg = self.eval(s.msg, fr) if s.msg is not None else ""
            self.raise_("AssertionError", msg)
        return None

    def st_Global(self, s, fr):
        g = getattr(fr, "globals_declared", None)
        if g is None:
            g = fr.globals_declared = set()
        g.update(s.names)
        return None

    def st_Nonlocal(self, s, fr):
        return None

    def st_Delete(self, s, fr):
        """del name / del obj[index or slice] (in-place removal from python lists, SeqList and ArrList prefixes)"""
        for t in s.targets:
            if isinstance(t, ast.Name):
                fr.locals.pop(t.id, None)
                continue
            if not isinstance(t, ast.Subscript):
                raise EngineError("unsupported del target %s" % type(t).__name__)
            o = self.eval(t.value, fr)
            i = self.eval_index(t.slice, fr)
            if self.write_hook is not None:
                self.write_hook(self, o, i, "item")
            if isinstance(o, (list, dict)):
                if isinstance(i, slice):
                    i = slice(*[self._concretize(x, 0, len(o), "del slice") if isinstance(x, SymInt) else x for x in (i.start, i.stop, i.step)])
                elif isinstance(i, SymInt):
                    i = self._concretize(i, -len(o), len(o) - 1, "del index")
                self.native(o.__delitem__, i)
            elif isinstance(o, (SeqList, ArrList)) and isinstance(i, slice) and i.start in (None, 0) and i.step is None:
                # removal of a prefix: the object itself becomes its own suffix view
                rest = o.getitem(self, slice(i.stop, None, None))
                if isinstance(o, ArrList):
                    o.arr, o.len, o.off = rest.arr, rest.len, rest.off
                else:
                    o.seq = rest.seq
            else:
                raise EngineError("unsupported del on %r" % type(o))
        return None

    def st_Return(self, s, fr):
        return ("return", self.eval(s.value, fr) if s.value is not None else None)

    def st_Break(self, s, fr):
        return ("break",)

    def st_Continue(self, s, fr):
        return ("continue",)

    def st_Assign(self, s, fr):
        v = self.eval(s.value, fr)
        for t in s.targets:
            self.assign(t, v, fr)

    def st_AnnAssign(self, s, fr):
        fr.locals.setdefault("__annotations__", []).append(s.target.id)
        if s.value is not None:
            self.assign(s.target, self.eval(s.value, fr), fr)

    def _inplace(self, op, cur, val):
        """x op= y on a MUTABLE container updates the object in place (list += iterable is list.extend, visible through every
        alias of the list); returns (True, object) when handled that way"""
        if isinstance(cur, list) or isinstance(cur, (SeqList, ArrList, AbsList)):
            if isinstance(op, ast.Add):
                if isinstance(cur, ArrList) and not isinstance(val, (ArrList, SeqList, AbsList)):
                    for x in list(self.iterate(val)):
                        cur.method(self, "append", [x], {})
                else:
                    self.call_native_method(cur, "extend", [val], {})
                return True, cur
            if isinstance(op, ast.Mult) and isinstance(cur, list) and isinstance(val, int):
                if self.write_hook is not None:
                    self.write_hook(self, cur, "imul", "list")
                cur *= val
                return True, cur
            return False, None
        if isinstance(cur, set) and isinstance(op, (ast.BitOr, ast.BitAnd, ast.Sub, ast.BitXor)) and isinstance(val, (set, frozenset)):
            if self.write_hook is not None:
                self.write_hook(self, cur, "update", "set")
            if isinstance(op, ast.BitOr):
                cur |= val
            elif isinstance(op, ast.BitAnd):
                cur &= val
            elif isinstance(op, ast.Sub):
                cur -= val
            else:
                cur ^= val
            return True, cur
        if isinstance(cur, dict) and isinstance(op, ast.BitOr) and isinstance(val, dict):
            if self.write_hook is not None:
                self.write_hook(self, cur, "update", "dict")
            cur.update(val)
            return True, cur
        return False, None

    def st_AugAssign(self, s, fr):
        t = s.target
        if isinstance(t, ast.Name):
            cur = self.lookup(t.id, fr)
            val = self.eval(s.value, fr)
            done, obj = self._inplace(s.op, cur, val)
            self.assign(t, obj if done else self.binop(s.op, cur, val), fr)
        elif isinstance(t, ast.Attribute):
            o = self.eval(t.value, fr)
            cur = self.getattr_(o, t.attr)
            val = self.eval(s.value, fr)
            done, obj = self._inplace(s.op, cur, val)
            self.setattr_(o, t.attr, obj if done else self.binop(s.op, cur, val))
        elif isinstance(t, ast.Subscript):
            o = self.eval(t.value, fr)
            i = self.eval_index(t.slice, fr)
            cur = self.getitem(o, i)
            val = self.eval(s.value, fr)
            done, obj = self._inplace(s.op, cur, val)
            self.setitem(o, i, obj if done else self.binop(s.op, cur, val))
        else:
            raise EngineError("augassign target")

    def assign(self, t, v, fr):
        if isinstance(t, ast.Name):
            if fr.globals_declared and t.id in fr.globals_declared:
                fr.module.globals[t.id] = v
            else:
                fr.locals[t.id] = v
        elif isinstance(t, ast.Attribute):
            self.setattr_(self.eval(t.value, fr), t.attr, v)
        elif isinstance(t, ast.Subscript):
            self.setitem(self.eval(t.value, fr), self.eval_index(t.slice, fr), v)
        elif isinstance(t, (ast.Tuple, ast.List)):
            vals = list(self.iterate(v))
            stars = [k for k, tt in enumerate(t.elts) if isinstance(tt, ast.Starred)]
            if stars:
                k = stars[0]
                after = len(t.elts) - k - 1
                if len(vals) < len(t.elts) - 1:
                    self.raise_("ValueError", "not enough values to unpack")
                parts = vals[:k] + [vals[k:len(vals) - after]] + (vals[len(vals) - after:] if after else [])
                for tt, vv in zip(t.elts, parts):
                    self.assign(tt.value if isinstance(tt, ast.Starred) else tt, vv, fr)
                return
            if len(vals) != len(t.elts):
                self.raise_("ValueError", "unpack: expected %d values, got %d" % (len(t.elts), len(vals)))
            for tt, vv in zip(t.elts, vals):
                self.assign(tt, vv, fr)
        else:
            raise EngineError("assign target %s" % type(t).__name__)

    def st_If(self, s, fr):
        if self.truth(self.eval(s.test, fr)):
            return self.exec_block(s.body, fr)
        return self.exec_block(s.orelse, fr)

    def st_While(self, s, fr):
        if self.loop_hook is not None:
            r = self.loop_hook(self, fr, s, None)
            if r is not None:
                return r[0]
        n = 0
        while self.truth(self.eval(s.test, fr)):
            n += 1
            if n > (self.while_limit or self.unroll_limit):
                raise EngineError("while loop exceeded unroll limit in %s" % (fr.func.key if fr.func else "?"))
            r = self.exec_block(s.body, fr)
            if r is not None:
                if r[0] == "break":
                    return None
                if r[0] == "return":
                    return r
        return self.exec_block(s.orelse, fr)

    def st_For(self, s, fr):
        it = self.eval(s.iter, fr)
        if self.loop_hook is not None:
            r = self.loop_hook(self, fr, s, it)
            if r is not None:
                return r[0]
        n = 0
        for v in self.iterate(it):
            n += 1
            if n > self.unroll_limit:
                raise EngineError("for loop exceeded unroll limit")
            self.assign(s.target, v, fr)
            r = self.exec_block(s.body, fr)
            if r is not None:
                if r[0] == "break":
                    return None
                if r[0] == "return":
                    return r
        return self.exec_block(s.orelse, fr)

    def st_Try(self, s, fr):
        try:
            try:
                r = self.exec_block(s.body, fr)
            except PyRaise as pr:
                for h in s.handlers:
                    if h.type is None or self.exc_matches(pr.exc, self.eval(h.type, fr)):
                        if h.name:
                            fr.locals[h.name] = pr.exc
                        return self.exec_block(h.body, fr)
                raise
            if r is None and s.orelse:
                r = self.exec_block(s.orelse, fr)
            return r
        finally:
            if s.finalbody:
                self.exec_block(s.finalbody, fr)

    def exc_matches(self, exc, spec):
        if isinstance(spec, tuple):
            return any(self.exc_matches(exc, x) for x in spec)
        if not isinstance(spec, Cls):
            raise EngineError("except clause with non-class")
        return exc.cls.issub(spec)

    def st_Raise(self, s, fr):
        if s.exc is None:
            raise EngineError("bare raise")
        v = self.eval(s.exc, fr)
        if isinstance(v, Cls):
            v = self.call(v, [], {})
        if not isinstance(v, Obj):
            raise EngineError("raise of non-exception")
        raise PyRaise(v, (fr.func.key if fr.func else "<module>", ast.get_source_segment(fr.module.source, s) or ""))

    def st_With(self, s, fr):
        if len(s.items) != 1:
            raise EngineError("with: multiple items")
        item = s.items[0]
        v = self.eval(item.context_expr, fr)
        if not isinstance(v, FileObj):
            raise EngineError("with on non-file")
        if item.optional_vars is not None:
            self.assign(item.optional_vars, v, fr)
        try:
            return self.exec_block(s.body, fr)
        finally:
            self._close(v)

    def st_Import(self, s, fr):
        for a in s.names:
            fr.locals[a.asname or a.name.split(".")[0]] = self._import_stub(a.name)

    def st_ImportFrom(self, s, fr):
        modname = s.module
        if modname.split(".")[0] == "cocoasm":
            mod = self.load(modname)
            for a in s.names:
                if a.name not in mod.globals:
                    self.raise_("ImportError" if "ImportError" in self.exc else "NameError", a.name)
                fr.locals[a.asname or a.name] = mod.globals[a.name]
            return
        for a in s.names:
            n = a.name
            if modname in ("abc", "typing", "enum") and n in self.markers:
                fr.locals[a.asname or n] = self.markers[n]
            elif modname == "abc" and n == "abstractmethod":
                fr.locals[n] = Builtin("abstractmethod")
            elif modname == "copy" and n in ("copy", "deepcopy"):
                fr.locals[a.asname or n] = self._import_stub("copy").attrs[n]
            else:
                raise EngineError("from %s import %s" % (modname, n))

    def st_FunctionDef(self, s, fr):
        kind = "function"
        abstract = False
        for d in s.decorator_list:
            if isinstance(d, ast.Name) and d.id in ("classmethod", "staticmethod"):
                kind = d.id
            elif isinstance(d, ast.Name) and d.id == "abstractmethod":
                abstract = True
            elif isinstance(d, ast.Name) and d.id == "property":
                kind = "property"
            else:
                raise EngineError("decorator")
        a = s.args
        if a.posonlyargs:
            raise EngineError("function signature outside the subset: %s" % s.name)
        defaults = [self.eval(d, fr) for d in a.defaults]
        for d in defaults:
            self._tag_shared(d)
        qual = s.name if fr.func is None and fr.locals is fr.module.globals else None
        f = Func(s, fr.module, s.name, defaults, kind=kind)
        f.kw_defaults = {ka.arg: self.eval(kd, fr) for ka, kd in zip(a.kwonlyargs, a.kw_defaults) if kd is not None}
        f.abstract = abstract
        if fr.func is not None:
            f.closure = (fr.locals, fr.closure)       # nested function: sees the enclosing function's variables
        fr.locals[s.name] = f

    def _tag_shared(self, v):
        if isinstance(v, Obj):
            v.tag = "SHARED"
        elif isinstance(v, list):
            for x in v:
                self._tag_shared(x)

    def st_ClassDef(self, s, fr):
        bases = [self.eval(b, fr) for b in s.bases]
        for b in bases:
            if not isinstance(b, Cls):
                raise EngineError("class base %r" % (b,))
        cfr = Frame(fr.module)
        cfr.locals = {}
        self.exec_block(s.body, cfr)
        attrs = cfr.locals
        ann = attrs.pop("__annotations__", [])
        kind = "plain"
        mro_kinds = [c.kind for b in bases for c in b.mro()]
        names = [c.name for b in bases for c in b.mro()]
        if "NamedTuple" in names:
            kind = "namedtuple"
        elif "Enum" in names or "IntEnum" in names:
            kind = "enum"
        elif "builtin-exc" in mro_kinds or "exception" in mro_kinds:
            kind = "exception"
        cls = Cls(s.name, bases, attrs, fr.module, kind)
        for k, v in attrs.items():
            if isinstance(v, Func):
                v.owner = cls
                v.qualname = "%s.%s" % (s.name, v.node.name)
            self._tag_shared(v)
        if kind == "namedtuple":
            cls.fields = list(ann)
            cls.defaults = {k: attrs[k] for k in ann if k in attrs}
            for k in ann:
                attrs.pop(k, None)
        if kind == "enum":
            intenum = "IntEnum" in names
            for k, v in list(attrs.items()):
                if not k.startswith("_") and not isinstance(v, Func):
                    m = Obj(cls, {"name": k, "value": v, "_name_": k, "_value_": v}, tag="SHARED")
                    cls.members[k] = m
                    attrs[k] = m
            cls.intenum = intenum
        fr.locals[s.name] = cls

    # ------------------------------------------------------------------ expressions
    def eval(self, e, fr):
        m = getattr(self, "ex_" + type(e).__name__, None)
        if m is None:
            raise EngineError("unsupported expression %s" % type(e).__name__)
        return m(e, fr)

    def ex_Constant(self, e, fr):
        return e.value

    def lookup(self, name, fr):
        if name in fr.locals:
            return fr.locals[name]
        c = fr.closure
        while c is not None:
            if name in c[0]:
                return c[0][name]
            c = c[1]
        g = fr.module.globals
        if name in g:
            return g[name]
        if name in self.builtins:
            return self.builtins[name]
        self.raise_("NameError", "name '%s' is not defined" % name)

    def ex_Name(self, e, fr):
        return self.lookup(e.id, fr)

    def ex_Attribute(self, e, fr):
        return self.getattr_(self.eval(e.value, fr), e.attr)

    def ex_List(self, e, fr):
        return [self.eval(x, fr) for x in e.elts]

    def ex_Tuple(self, e, fr):
        return tuple(self.eval(x, fr) for x in e.elts)

    def ex_Dict(self, e, fr):
        return {self.eval(k, fr): self.eval(v, fr) for k, v in zip(e.keys, e.values)}

    def ex_JoinedStr(self, e, fr):
        """f-string: each {value[!conv][:spec]} is rendered through str.format's model"""
        parts = []
        for v in e.values:
            if isinstance(v, ast.Constant):
                parts.append(v.value)
                continue
            val = self.eval(v.value, fr)
            if v.conversion == ord("r"):
                val = self.py_repr(val)
            elif v.conversion == ord("s"):
                val = self.py_str(val)
            spec = self.eval(v.format_spec, fr) if v.format_spec is not None else ""
            if not isinstance(spec, str):
                raise EngineError("symbolic f-string format spec")
            parts.append(strmodel.s_format(self, "{:%s}" % spec if spec else "{}", [val], {}))
        if all(isinstance(p, str) for p in parts):
            return "".join(parts)
        out = SStr([])
        for p in parts:
            out = out + SStr.of(p)
        return out

    def ex_Lambda(self, e, fr):
        defaults = [self.eval(d, fr) for d in e.args.defaults]
        f = Func(e, fr.module, "<lambda>", defaults, kind="function")
        f.kw_defaults = {}
        f.closure = (fr.locals, fr.closure)
        return f

    def ex_Set(self, e, fr):
        return set(self.eval(x, fr) for x in e.elts)

    def ex_NamedExpr(self, e, fr):
        v = self.eval(e.value, fr)
        self.assign(e.target, v, fr)
        return v

    def ex_BoolOp(self, e, fr):
        if isinstance(e.op, ast.And):
            v = True
            for x in e.values:
                v = self.eval(x, fr)
                if not self.truth(v):
                    return v
            return v
        v = False
        for x in e.values:
            v = self.eval(x, fr)
            if self.truth(v):
                return v
        return v

    def ex_IfExp(self, e, fr):
        if self.truth(self.eval(e.test, fr)):
            return self.eval(e.body, fr)
        return self.eval(e.orelse, fr)

    def ex_UnaryOp(self, e, fr):
        v = self.eval(e.operand, fr)
        if isinstance(e.op, ast.Not):
            t = self.truth_sym(v)
            return Not(t)
        if isinstance(e.op, ast.USub):
            return self.native(lambda: -v)
        if isinstance(e.op, ast.UAdd):
            return v
        if isinstance(e.op, ast.Invert):
            return self.native(lambda: -v - 1)
        raise EngineError("unary op")

    def ex_BinOp(self, e, fr):
        return self.binop(e.op, self.eval(e.left, fr), self.eval(e.right, fr))

    def binop(self, op, a, b):
        t = type(op)
        if isinstance(a, SymBool):
            a = Ite(a, 1, 0)
        if isinstance(b, SymBool):
            b = Ite(b, 1, 0)
        try:
            if t is ast.Add:
                if isinstance(a, (SeqList, ArrList)) or isinstance(b, (SeqList, ArrList)):
                    return a.concat(b) if isinstance(a, (SeqList, ArrList)) else b.rconcat(a)
                if isinstance(a, Obj) or isinstance(b, Obj):
                    self.raise_("TypeError", "unsupported operand type(s) for +")
                return a + b
            if t is ast.Sub:
                return a - b
            if t is ast.Mult:
                return a * b
            if t is ast.Div:
                if isinstance(a, (SymInt,)) or isinstance(b, (SymInt,)):
                    return SymRatio(a, b)
                return a / b
            if t is ast.FloorDiv:
                return a // b
            if t is ast.Mod:
                if isinstance(a, (str, SStr)):
                    vals = b if isinstance(b, tuple) else (b,)
                    if isinstance(a, str) and all(isinstance(v, (int, str, float, bool)) or v is None for v in vals):
                        return self.native(lambda: a % b)
                    if isinstance(a, str) and all(isinstance(v, Obj) or isinstance(v, (int, str, float)) for v in vals) and "%s" in a:
                        return self.native(lambda: a % tuple(self.py_str(v) if isinstance(v, Obj) else v for v in vals))
                    raise EngineError("% formatting with symbolic operands")
                return a % b
            if t is ast.BitAnd:
                return a & b
            if t is ast.BitOr:
                return a | b
            if t is ast.LShift:
                return a << b
            if t is ast.RShift:
                return a >> b
            if t is ast.BitXor:
                if isinstance(a, int) and isinstance(b, int):
                    return a ^ b
                raise EngineError("xor on symbolic")
            if t is ast.Pow:
                if isinstance(a, int) and isinstance(b, int):
                    return a ** b
                raise EngineError("pow on symbolic")
        except NATIVE_EXC as ex:
            raise PyRaise(self.mk_exc(type(ex).__name__, str(ex)), self.site())
        raise EngineError("binop %s" % t.__name__)

    def ex_Compare(self, e, fr):
        left = self.eval(e.left, fr)
        res = True
        for op, rhs in zip(e.ops, e.comparators):
            right = self.eval(rhs, fr)
            r = self.compare(op, left, right)
            if len(e.ops) == 1:
                return r
            if not self.truth(r):
                return False
            left = right
        return res

    def eq(self, a, b):
        """python == -> bool | SymBool"""
        if isinstance(a, Obj) or isinstance(b, Obj):
            if isinstance(a, Obj):
                f, _ = a.cls.lookup("__eq__")
                if f is not None:
                    return self.call(BoundMethod(f, a), [b], {})
                if a.cls.kind == "enum" and getattr(a.cls, "intenum", False) and isinstance(b, (int, SymInt)):
                    return self.eq(a.fields["value"], b)
                if a.cls.kind == "namedtuple" and isinstance(b, Obj) and b.cls.kind == "namedtuple":
                    if a is b:
                        return True
                    return And(*[self.eq(a.fields[k], b.fields.get(k)) for k in a.cls.fields]) \
                        if a.cls.fields == b.cls.fields else False
            elif isinstance(b, Obj) and b.cls.kind == "enum" and getattr(b.cls, "intenum", False):
                return self.eq(b, a)
            return a is b
        if isinstance(a, SStr):
            return a.eq(b)
        if isinstance(b, SStr):
            return b.eq(a)
        if isinstance(a, (SeqList, ArrList)):
            return a.eq(b)
        if isinstance(b, (SeqList, ArrList)):
            return b.eq(a)
        if isinstance(a, (list, tuple)) and isinstance(b, (list, tuple)) and type(a) is type(b):
            if len(a) != len(b):
                return False
            for x, y in zip(a, b):
                if not self.truth(self.eq(x, y)):
                    return False
            return True
        if isinstance(a, (Cls, Func, Builtin, ModStub)) or isinstance(b, (Cls, Func, Builtin, ModStub)):
            return a is b
        r = (a == b)
        if r is NotImplemented:
            return False
        return r

    def compare(self, op, a, b):
        t = type(op)
        if t is ast.Eq:
            return self.eq(a, b)
        if t is ast.NotEq:
            return Not(self.eq(a, b))
        if t is ast.Is:
            return a is b
        if t is ast.IsNot:
            return a is not b
        if t is ast.In:
            return self.contains(b, a)
        if t is ast.NotIn:
            return Not(self.contains(b, a))
        if isinstance(a, Obj) or isinstance(b, Obj) or a is None or b is None:
            self.raise_("TypeError", "'<' not supported between instances")
        if isinstance(a, (str, SStr)) != isinstance(b, (str, SStr)):
            self.raise_("TypeError", "'<' not supported between str and int")
        if isinstance(a, SStr) or isinstance(b, SStr):
            raise EngineError("ordering of symbolic strings")
        if isinstance(a, SymBool):
            a = Ite(a, 1, 0)
        if isinstance(b, SymBool):
            b = Ite(b, 1, 0)
        if t is ast.Lt:
            return a < b
        if t is ast.LtE:
            return a <= b
        if t is ast.Gt:
            return a > b
        if t is ast.GtE:
            return a >= b
        raise EngineError("compare op")

    def contains(self, container, item):
        if isinstance(container, GhostDict):
            return container.contains(self, item)
        if isinstance(container, (str, SStr)):
            if not isinstance(item, (str, SStr)):
                self.raise_("TypeError", "'in <string>' requires string as left operand")
            if isinstance(container, str) and isinstance(item, str):
                return item in container
            return SStr.of(container).contains(item)
        if isinstance(container, dict):
            if isinstance(item, SStr):
                alts = [item.eq(k) for k in container if isinstance(k, (str, SStr))]
                return Or(*alts) if alts else False
            if isinstance(item, (SymInt,)):
                alts = [item == k for k in container if isinstance(k, int)]
                return Or(*alts) if alts else False
            return self.native(lambda: item in container)
        if isinstance(container, (list, tuple)):
            for x in container:
                if self.truth(self.eq(x, item)):
                    return True
            return False
        if isinstance(container, (set, frozenset)):
            if isinstance(item, (SStr, SymInt)):
                for x in container:
                    if self.truth(self.eq(x, item)):
                        return True
                return False
            return self.native(lambda: item in container)
        if isinstance(container, (SeqList, ArrList)):
            raise EngineError("membership in symbolic list")
        if isinstance(container, Obj):
            self.raise_("TypeError", "argument of type '%s' is not iterable" % container.cls.name)
        if container is None or isinstance(container, (int, SymInt)):
            self.raise_("TypeError", "argument is not iterable")
        raise EngineError("contains on %r" % (container,))

    def truth_sym(self, v):
        """truthiness without forking -> bool | SymBool"""
        if v is None or v is False:
            return False
        if v is True:
            return True
        if isinstance(v, SymBool):
            return v
        if isinstance(v, SymInt):
            return v != 0
        if isinstance(v, (int, float)):
            return v != 0
        if isinstance(v, GhostKey):
            return v.gid != 0
        if isinstance(v, (str, list, tuple, dict, bytes, bytearray, SStr, range, set, frozenset)):
            return len(v) > 0
        if isinstance(v, (SeqList, ArrList, AbsList)):
            return v.length() > 0
        if isinstance(v, Obj):
            if v.cls.kind == "namedtuple":
                return len(v.cls.fields) > 0
            if v.cls.kind == "enum" and getattr(v.cls, "intenum", False):
                return v.fields["value"] != 0
            f, _ = v.cls.lookup("__bool__")
            if f is not None:
                return self.truth_sym(self.call(BoundMethod(f, v), [], {}))
            f, _ = v.cls.lookup("__len__")
            if f is not None:
                return self.call(BoundMethod(f, v), [], {}) != 0
            return True
        if isinstance(v, (Cls, Func, Builtin, BoundMethod, ModStub, RegexObj, MatchObj, FileObj)):
            return True
        raise EngineError("truth of %r" % (v,))

    def truth(self, v):
        return branch(self.truth_sym(v))

    def ex_Subscript(self, e, fr):
        return self.getitem(self.eval(e.value, fr), self.eval_index(e.slice, fr))

    def eval_index(self, sl, fr):
        if isinstance(sl, ast.Slice):
            return slice(self.eval(sl.lower, fr) if sl.lower else None,
                         self.eval(sl.upper, fr) if sl.upper else None,
                         self.eval(sl.step, fr) if sl.step else None)
        return self.eval(sl, fr)

    def _concretize(self, idx, lo, hi, what):
        """fork a symbolic int over its feasible values (all within lo..hi inclusive)"""
        if not isinstance(idx, SymInt):
            return idx
        if hi - lo <= 64:
            for i in range(lo, hi + 1):
                if branch(idx == i):
                    return i
            raise sym.PathAbort()
        # large container: enumerate the feasible values with the solver (the path condition must bound them)
        import z3
        p = sym.cur()
        for _ in range(1024):
            r = p.check()
            if r != z3.sat:
                if r == z3.unsat:
                    raise sym.PathAbort()
                raise EngineError("concretize (%s): solver unknown" % what)
            v = p.solver.model().eval(idx.e, model_completion=True).as_long()
            if not lo <= v <= hi:
                if branch(And(idx >= lo, idx <= hi)):
                    continue
                raise sym.PathAbort()
            if branch(idx == v):
                return v
        raise EngineError("concretize over more than 1024 values (%s)" % what)

    def getitem(self, o, i):
        if isinstance(o, (SeqList, ArrList, AbsList)):
            return o.getitem(self, i)
        if isinstance(o, SStr):
            if isinstance(i, slice):
                i = slice(*[self._concretize(x, 0, len(o), "str slice") if x is not None else None
                            for x in (i.start, i.stop, i.step)])
                if (i.start in (None, 0)) and (i.stop is None or i.stop >= len(o)) and i.step is None:
                    return o
                return o[i]
            if isinstance(i, SymInt):
                i = self._concretize(i, -len(o), len(o), "str index")
            if not -len(o) <= i < len(o):
                self.raise_("IndexError", "string index out of range")
            return o[i]
        if isinstance(o, (list, tuple, str, bytes, bytearray, range)):
            if isinstance(i, slice):
                if any(isinstance(x, SymInt) for x in (i.start, i.stop, i.step)):
                    n = len(o)
                    i = slice(*[self._concretize(x, -n - 1, n + 1, "slice bound") if isinstance(x, SymInt)
                                else (x if x is None or abs(x) <= n + 1 else (n + 1 if x > 0 else -n - 1))
                                for x in (i.start, i.stop, i.step)])
                return self.native(lambda: o[i])
            if isinstance(i, SymInt):
                n = len(o)
                if branch(i < 0):
                    i = i + n
                    if not isinstance(i, SymInt):
                        return self.native(lambda: o[i])
                if not branch(And(i >= 0, i < n)):
                    self.raise_("IndexError", "list index out of range")
                if isinstance(o, (list, tuple)) and n <= 1024 and all(isinstance(x, (int, SymInt)) and not isinstance(x, bool) for x in o):
                    import z3
                    e = sym._z(o[n - 1])
                    for k in range(n - 2, -1, -1):
                        e = z3.If(i.e == k, sym._z(o[k]), e)
                    return mks(e)
                k = self._concretize(i, 0, n - 1, "list index")
                return o[k]
            if isinstance(i, (SymBool, SStr, Obj)) or i is None:
                self.raise_("TypeError", "indices must be integers")
            return self.native(lambda: o[i])
        if isinstance(o, dict):
            if isinstance(i, SStr):
                for k in o:
                    if isinstance(k, (str, SStr)) and branch(i.eq(k)):
                        return o[k]
                self.raise_("KeyError", "symbolic key")
            if isinstance(i, SymInt):
                for k in o:
                    if isinstance(k, int) and branch(i == k):
                        return o[k]
                self.raise_("KeyError", "symbolic key")
            return self.native(lambda: o[i])
        if isinstance(o, Obj):
            if o.cls.kind == "namedtuple" and isinstance(i, int):
                return self.native(lambda: o.fields[o.cls.fields[i]])
            self.raise_("TypeError", "'%s' object is not subscriptable" % o.cls.name)
        if o is None or isinstance(o, (int, SymInt, bool)):
            self.raise_("TypeError", "object is not subscriptable")
        raise EngineError("getitem on %r" % (o,))

    def setitem(self, o, i, v):
        if self.write_hook is not None:
            self.write_hook(self, o, i, "item")
        if isinstance(o, (SeqList, ArrList, GhostDict)):
            return o.setitem(self, i, v)
        if isinstance(o, list):
            if isinstance(i, SymInt):
                n = len(o)
                if not branch(And(i >= -n, i < n)):
                    self.raise_("IndexError", "list assignment index out of range")
                i = self._concretize(i, -n, n - 1, "list store index")
            if isinstance(i, slice):
                if any(isinstance(x, SymInt) for x in (i.start, i.stop, i.step)) or isinstance(v, (SeqList, ArrList)):
                    raise EngineError("symbolic slice assignment")
                self.native(o.__setitem__, i, list(self.iterate(v)))
                return
            self.native(o.__setitem__, i, v)
            return
        if isinstance(o, dict):
            if isinstance(i, SStr):
                for k in list(o):
                    if isinstance(k, (str, SStr)) and branch(i.eq(k)):
                        o[k] = v
                        return
                o[_SKey(i)] = v
                return
            o[i] = v
            return
        if isinstance(o, (str, SStr, tuple)) or o is None or isinstance(o, Obj):
            self.raise_("TypeError", "object does not support item assignment")
        raise EngineError("setitem on %r" % (o,))

    def ex_ListComp(self, e, fr):
        out = []
        self._comp(e.generators, 0, fr, lambda f: out.append(self.eval(e.elt, f)))
        return out

    def ex_DictComp(self, e, fr):
        out = {}

        def emit(f):
            out[self.eval(e.key, f)] = self.eval(e.value, f)
        self._comp(e.generators, 0, fr, emit)
        return out

    def ex_SetComp(self, e, fr):
        out = set()
        self._comp(e.generators, 0, fr, lambda f: out.add(self.eval(e.elt, f)))
        return out

    def ex_GeneratorExp(self, e, fr):
        # evaluated lazily (only used inside next(..., default))
        def gen():
            items = []
            done = []

            def lazy():
                sub = Frame(fr.module, fr.func)
                sub.locals = dict(fr.locals)
                yield from self._comp_gen(e.generators, 0, sub, e.elt)
            return lazy()
        return gen()

    def _comp_gen(self, gens, k, fr, elt):
        if k == len(gens):
            yield self.eval(elt, fr)
            return
        g = gens[k]
        for v in self.iterate(self.eval(g.iter, fr)):
            self.assign(g.target, v, fr)
            if all(self.truth(self.eval(c, fr)) for c in g.ifs):
                yield from self._comp_gen(gens, k + 1, fr, elt)

    def _comp(self, gens, k, fr, emit):
        sub = Frame(fr.module, fr.func)
        sub.locals = dict(fr.locals)
        for _ in self._comp_gen(gens, 0, sub, ast.Constant(value=None)):
            emit(sub)

    def iterate(self, it):
        if isinstance(it, (list, tuple, str, range, dict, bytes, bytearray, set, frozenset)):
            return iter(it)
        if isinstance(it, SStr):
            return iter(it)
        if isinstance(it, SymRange):
            return it.iterate(self)
        if isinstance(it, (SeqList, ArrList, EnumView, AbsList)):
            return it.iterate(self)
        if hasattr(it, "__next__"):
            return it
        if isinstance(it, (type({}.keys()), type({}.values()), type({}.items()))):
            return iter(list(it))
        if isinstance(it, Obj) and it.cls.kind == "namedtuple":
            return iter([it.fields[k] for k in it.cls.fields])
        if it is None or isinstance(it, (int, SymInt, Obj)):
            self.raise_("TypeError", "object is not iterable")
        raise EngineError("iterate over %r" % (it,))

    # ------------------------------------------------------------------ attributes
    def getattr_(self, o, name):
        if isinstance(o, Obj):
            if name in o.fields:
                return o.fields[name]
            if o.cls.kind == "namedtuple" and name in o.cls.fields:
                return o.fields[name]
            v, owner = o.cls.lookup(name)
            if owner is not None:
                return self._bind(v, o, o.cls)
            if o.cls.kind in ("exception", "builtin-exc") and name == "args":
                return o.fields.get("args", ())
            self.raise_("AttributeError", "'%s' object has no attribute '%s'" % (o.cls.name, name))
        if isinstance(o, Cls):
            v, owner = o.lookup(name)
            if owner is not None:
                if isinstance(v, Func) and v.kind == "classmethod":
                    return BoundMethod(v, o)
                return v
            if name == "__name__":
                return o.name
            self.raise_("AttributeError", "type object '%s' has no attribute '%s'" % (o.name, name))
        if isinstance(o, SuperProxy):
            selfo = o.self
            cls = selfo.cls if isinstance(selfo, Obj) else selfo
            v, owner = cls.lookup(name, after=o.owner)
            if owner is None:
                if name == "__init__":
                    return Builtin("object.__init__", lambda *a, **k: None)
                self.raise_("AttributeError", "super has no attribute %s" % name)
            if owner.kind == "builtin-exc":
                return v
            return self._bind(v, selfo, cls)
        if isinstance(o, ModStub):
            if name in o.attrs:
                return o.attrs[name]
            raise EngineError("unmodelled attribute %s.%s" % (o.name, name))
        if isinstance(o, MatchObj) and name == "group":
            return Builtin("match.group", o.group)
        if isinstance(o, RegexObj) and name in ("match", "search"):
            return Builtin("re." + name, lambda s, _n=name: self.regex(o, s, _n == "search"))
        if isinstance(o, FileObj):
            return Builtin("file." + name, lambda *a, _n=name: self._file_op(o, _n, *a))
        if isinstance(o, Builtin) and o.name == "int" and name == "from_bytes":
            return Builtin("int.from_bytes", self._from_bytes)
        if isinstance(o, (SeqList, ArrList, AbsList, GhostDict)):
            return NativeMethod(o, name)
        if o is None or isinstance(o, (str, list, dict, tuple, int, SStr, SymInt, bytes, bytearray, bool, float, _SymBytes, set, frozenset)):
            if isinstance(o, _SymBytes) or hasattr(self._proto(o), name):
                return NativeMethod(o, name)
            tn = "NoneType" if o is None else type(self._proto(o)).__name__
            self.raise_("AttributeError", "'%s' object has no attribute '%s'" % (tn, name))
        raise EngineError("getattr %s on %r" % (name, o))

    @staticmethod
    def _proto(o):
        if isinstance(o, SStr):
            return ""
        if isinstance(o, SymInt):
            return 0
        return o

    def _bind(self, v, o, cls):
        if isinstance(v, Func):
            if v.kind == "staticmethod":
                return v
            if v.kind == "classmethod":
                return BoundMethod(v, cls if isinstance(cls, Cls) else o.cls)
            if v.kind == "property" and isinstance(o, Obj):
                return self.call_func(v, [o], {})
            return BoundMethod(v, o)
        return v

    def setattr_(self, o, name, v):
        if self.write_hook is not None:
            self.write_hook(self, o, name, "attr")
        if isinstance(o, Obj):
            if o.cls.kind == "namedtuple":
                self.raise_("AttributeError", "can't set attribute")
            o.fields[name] = v
            return
        if isinstance(o, Cls):
            o.attrs[name] = v
            return
        if o is None or isinstance(o, (str, int, SStr, SymInt, list, dict, tuple)):
            self.raise_("AttributeError", "object has no attribute '%s'" % name)
        raise EngineError("setattr on %r" % (o,))

    # ------------------------------------------------------------------ calls
    def ex_Call(self, e, fr):
        # zero-argument super()
        if isinstance(e.func, ast.Name) and e.func.id == "super" and not e.args:
            owner = fr.func.owner
            first = fr.func.node.args.args[0].arg
            return SuperProxy(owner, fr.locals[first])
        fn = self.eval(e.func, fr)
        args = []
        for a in e.args:
            if isinstance(a, ast.Starred):
                args.extend(self.iterate(self.eval(a.value, fr)))
                continue
            args.append(self.eval(a, fr))
        kwargs = {}
        for k in e.keywords:
            if k.arg is None:
                d = self.eval(k.value, fr)
                if not isinstance(d, dict):
                    raise EngineError("**kwargs of a non-dict")
                kwargs.update(d)
                continue
            kwargs[k.arg] = self.eval(k.value, fr)
        return self.call(fn, args, kwargs)

    def call(self, fn, args, kwargs):
        if isinstance(fn, BoundMethod):
            return self.call_func(fn.func, [fn.self] + list(args), kwargs)
        if isinstance(fn, Func):
            return self.call_func(fn, list(args), kwargs)
        if isinstance(fn, Cls):
            return self.instantiate(fn, args, kwargs)
        if isinstance(fn, NativeMethod):
            return self.call_native_method(fn.recv, fn.name, args, kwargs)
        if isinstance(fn, Builtin):
            if fn.fn is None:
                raise EngineError("call of builtin marker %s" % fn.name)
            try:
                return fn.fn(*args, **kwargs)
            except NATIVE_EXC as ex:
                raise PyRaise(self.mk_exc(type(ex).__name__, str(ex)), self.site())
        if fn is None or isinstance(fn, (int, str, SStr, SymInt, Obj, list, dict)):
            self.raise_("TypeError", "object is not callable")
        raise EngineError("call of %r" % (fn,))

    def bind_args(self, f, args, kwargs):
        fa = f.node.args
        params = [a.arg for a in fa.args]
        fname = getattr(f.node, "name", "<lambda>")
        extra = []
        if len(args) > len(params):
            if fa.vararg is None:
                self.raise_("TypeError", "%s() takes %d positional arguments but %d were given" % (fname, len(params), len(args)))
            extra = list(args[len(params):])
            args = args[:len(params)]
        bound = dict(zip(params, args))
        kwonly = [a.arg for a in fa.kwonlyargs]
        rest = {}
        for k, v in list(kwargs.items()):
            if k in kwonly:
                bound[k] = v
                continue
            if k not in params and fa.kwarg is not None:
                rest[k] = v
                continue
            if k not in params:
                self.raise_("TypeError", "%s() got an unexpected keyword argument '%s'" % (fname, k))
            if k in bound:
                self.raise_("TypeError", "%s() got multiple values for argument '%s'" % (fname, k))
            bound[k] = v
        nd = len(f.defaults)
        for idx, p in enumerate(params):
            if p not in bound:
                di = idx - (len(params) - nd)
                if di < 0:
                    self.raise_("TypeError", "%s() missing required positional argument: '%s'" % (fname, p))
                bound[p] = f.defaults[di]
        for k in kwonly:
            if k not in bound:
                kd = getattr(f, "kw_defaults", {})
                if k not in kd:
                    self.raise_("TypeError", "%s() missing required keyword-only argument: '%s'" % (fname, k))
                bound[k] = kd[k]
        if fa.vararg is not None:
            bound[fa.vararg.arg] = tuple(extra)
        if fa.kwarg is not None:
            bound[fa.kwarg.arg] = rest
        return bound

    def call_func(self, f, args, kwargs):
        bound = self.bind_args(f, args, kwargs)
        if self.call_hook is not None:
            handled, res = self.call_hook(self, f, bound)
            if handled:
                return res
        return self.run_func(f, bound)

    def run_func(self, f, bound):
        if self.depth >= MAX_CALL_DEPTH:
            self.raise_("RecursionError", "maximum recursion depth exceeded")
        fr = Frame(f.module, f)
        fr.locals = bound
        fr.closure = getattr(f, "closure", None)
        self.depth += 1
        self.stack.append(f)
        try:
            if isinstance(f.node, ast.Lambda):
                return self.eval(f.node.body, fr)
            r = self.exec_block(f.node.body, fr)
        finally:
            self.depth -= 1
            self.stack.pop()
        if r is not None and r[0] == "return":
            return r[1]
        return None

    def instantiate(self, cls, args, kwargs):
        if cls.kind == "marker":
            raise EngineError("instantiating marker class %s" % cls.name)
        if cls.kind == "namedtuple":
            fields = {}
            if len(args) > len(cls.fields):
                self.raise_("TypeError", "too many positional arguments")
            for k, v in zip(cls.fields, args):
                fields[k] = v
            for k, v in kwargs.items():
                if k not in cls.fields:
                    self.raise_("TypeError", "unexpected keyword argument '%s'" % k)
                fields[k] = v
            for k in cls.fields:
                if k not in fields:
                    if k not in cls.defaults:
                        self.raise_("TypeError", "missing argument '%s'" % k)
                    fields[k] = cls.defaults[k]
            return Obj(cls, fields)
        if cls.kind == "enum":
            for m in cls.members.values():
                if self.truth(self.eq(m.fields["value"], args[0])):
                    return m
            self.raise_("ValueError", "not a valid %s" % cls.name)
        if cls.kind == "builtin-exc":
            return self.mk_exc(cls, *args)
        o = Obj(cls, {})
        if cls.kind == "exception":
            o.fields["args"] = tuple(args)
        init, owner = cls.lookup("__init__")
        if init is not None and isinstance(init, Func):
            if init.abstract:
                pass
            self.call_func(init, [o] + list(args), kwargs)
        elif args or kwargs:
            if cls.kind != "exception":
                self.raise_("TypeError", "%s() takes no arguments" % cls.name)
        # abstract instantiation check
        for c in cls.mro():
            for k, v in c.attrs.items():
                if isinstance(v, Func) and v.abstract:
                    impl, _ = cls.lookup(k)
                    if impl is v:
                        self.raise_("TypeError", "Can't instantiate abstract class %s" % cls.name)
        return o

    # ------------------------------------------------------------------ builtins
    def _make_builtins(self):
        b = {}
        b.update(self.types)
        for n, c in self.exc.items():
            b[n] = c
        b["object"] = self.markers["object"]

        def _len(x):
            if isinstance(x, (SeqList, ArrList, AbsList)):
                return x.length()
            if isinstance(x, (str, list, tuple, dict, bytes, bytearray, SStr, range, set, frozenset)):
                return len(x)
            if isinstance(x, Obj) and x.cls.kind == "namedtuple":
                return len(x.cls.fields)
            if isinstance(x, SymRange):
                return x.length()
            self.raise_("TypeError", "object of type '%s' has no len()" % type(x).__name__)

        def _range(*a):
            if any(isinstance(x, SymInt) for x in a):
                return SymRange(*a)
            return self.native(range, *a)

        def _int(x=0, base=None):
            if base is not None:
                if not isinstance(x, (str, SStr)):
                    self.raise_("TypeError", "int() can't convert non-string with explicit base")
                return parse_int(x, base)
            if isinstance(x, SymRatio):
                return x.trunc()
            if isinstance(x, SymInt):
                return x
            if isinstance(x, SymBool):
                return Ite(x, 1, 0)
            if isinstance(x, SStr):
                return parse_int(x, 10)
            if isinstance(x, Obj):
                if x.cls.kind == "enum" and getattr(x.cls, "intenum", False):
                    return x.fields["value"]
                self.raise_("TypeError", "int() argument must be a string or a number, not '%s'" % x.cls.name)
            if x is None or isinstance(x, (list, dict, tuple)):
                self.raise_("TypeError", "int() argument must be a string, a bytes-like object or a real number")
            return int(x)

        def _hex(x):
            if isinstance(x, SymInt):
                if branch(x < 0):
                    return "-0x" + render_int(-x, 16, upper=False)
                return "0x" + render_int(x, 16, upper=False)
            if not isinstance(x, int):
                self.raise_("TypeError", "object cannot be interpreted as an integer")
            return hex(x)

        def _ord(c):
            if isinstance(c, SStr):
                if len(c) != 1:
                    self.raise_("TypeError", "ord() expected a character")
                ch = c.chars[0]
                return ch if isinstance(ch, int) else mk(ch.code)
            if not isinstance(c, str):
                self.raise_("TypeError", "ord() expected string of length 1")
            return ord(c)

        def _type(x):
            if isinstance(x, Obj):
                return x.cls
            if isinstance(x, (bool, SymBool)):
                return self.types["bool"]
            if isinstance(x, (int, SymInt)):
                return self.types["int"]
            if isinstance(x, (str, SStr)):
                return self.types["str"]
            if isinstance(x, (list, SeqList, ArrList, AbsList)):
                return self.types["list"]
            if isinstance(x, dict):
                return self.types["dict"]
            if isinstance(x, tuple):
                return self.types["tuple"]
            if x is None:
                return self.types["NoneType"]
            if isinstance(x, float):
                return self.types["float"]
            if isinstance(x, (bytes,)):
                return self.types["bytes"]
            if isinstance(x, (bytearray, _SymBytes)):
                return self.types["bytearray"]
            raise EngineError("type(%r)" % (x,))

        def _enumerate(x, start=0):
            if isinstance(x, (SeqList, ArrList, AbsList)):
                return EnumView(x, start)
            return ((start + i, v) for i, v in enumerate(self.iterate(x)))

        def _next(it, *default):
            try:
                return next(it)
            except StopIteration:
                if default:
                    return default[0]
                self.raise_("StopIteration")

        def _bytearray(x=()):
            x = list(self.iterate(x)) if not isinstance(x, (bytes, bytearray)) else x
            if all(isinstance(v, int) for v in x):
                return bytearray(x)
            return _SymBytes(list(x))

        def _print(*a, **k):
            self.stdout.append(" ".join(self._print_str(x) for x in a))

        def _isinstance(o, c):
            t = _type(o)
            cs = c if isinstance(c, tuple) else (c,)
            for cc in cs:
                if isinstance(t, Cls) and isinstance(cc, Cls) and t.issub(cc):
                    return True
                if t is cc:
                    return True
                if cc is self.types["int"] and t is self.types["bool"]:
                    return True
            return False

        b.update({
            "len": Builtin("len", _len), "range": Builtin("range", _range), "int": self.types["int"],
            "hex": Builtin("hex", _hex), "ord": Builtin("ord", _ord), "type": Builtin("type", _type),
            "enumerate": Builtin("enumerate", _enumerate), "next": Builtin("next", _next),
            "bytearray": self.types["bytearray"], "print": Builtin("print", _print),
            "repr": Builtin("repr", self.py_repr), "str": self.types["str"], "dict": self.types["dict"],
            "list": self.types["list"], "open": Builtin("open", self._open),
            "copy": Builtin("copy", self._copy), "isinstance": Builtin("isinstance", _isinstance),
            "abs": Builtin("abs", lambda x: abs(x)), "min": Builtin("min", self._min), "max": Builtin("max", self._max),
            "chr": Builtin("chr", self._chr), "bool": self.types["bool"], "tuple": self.types["tuple"],
            "sum": Builtin("sum", lambda xs, s=0: self._sum(xs, s)),
            "set": Builtin("set", lambda xs=(): set(self.iterate(xs))), "frozenset": Builtin("frozenset", lambda xs=(): frozenset(self.iterate(xs))),
            "sorted": Builtin("sorted", lambda xs: sorted(self.iterate(xs))), "any": Builtin("any", lambda xs: any(self.truth(x) for x in self.iterate(xs))),
            "all": Builtin("all", lambda xs: all(self.truth(x) for x in self.iterate(xs))),
            "True": True, "False": False, "None": None,
        })

        def _round(x, nd=None):
            return self.native(lambda: round(x) if nd is None else round(x, nd))

        def _hasattr(o, name):
            try:
                self.getattr_(o, name)
                return True
            except PyRaise:
                return False

        def _getattr(o, name, *default):
            try:
                return self.getattr_(o, name)
            except PyRaise:
                if default:
                    return default[0]
                raise

        def _sorted(xs, key=None, reverse=False):
            items = list(self.iterate(xs))
            if key is not None:
                keyed = [(self.call(key, [x], {}), i, x) for i, x in enumerate(items)]
                keyed.sort(key=lambda t: (t[0], t[1]), reverse=reverse)
                return [t[2] for t in keyed]
            return sorted(items, reverse=reverse)

        def _keyed(pick):
            def f(*a, key=None, default=None):
                xs = list(self.iterate(a[0])) if len(a) == 1 else list(a)
                if not xs:
                    if default is not None:
                        return default
                    self.raise_("ValueError", "arg is an empty sequence")
                if key is None:
                    return (self._min if pick == "min" else self._max)(*xs) if len(xs) > 1 else xs[0]
                best, bk = xs[0], self.call(key, [xs[0]], {})
                for x in xs[1:]:
                    k = self.call(key, [x], {})
                    if self.truth(k < bk if pick == "min" else k > bk):
                        best, bk = x, k
                return best
            return f
        b.update({
            "round": Builtin("round", _round), "hasattr": Builtin("hasattr", _hasattr), "getattr": Builtin("getattr", _getattr),
            "zip": Builtin("zip", lambda *xs: list(zip(*[list(self.iterate(x)) for x in xs]))),
            "reversed": Builtin("reversed", lambda xs: list(reversed(list(self.iterate(xs))))),
            "sorted": Builtin("sorted", _sorted), "min": Builtin("min", _keyed("min")), "max": Builtin("max", _keyed("max")),
            "map": Builtin("map", lambda f, *xs: [self.call(f, list(t), {}) for t in zip(*[list(self.iterate(x)) for x in xs])]),
            "filter": Builtin("filter", lambda f, xs: [x for x in self.iterate(xs) if self.truth(x if f is None else self.call(f, [x], {}))]),
            "divmod": Builtin("divmod", lambda a, c: self.native(lambda: divmod(a, c))),
            "bin": Builtin("bin", lambda x: self.native(lambda: bin(x))), "pow": Builtin("pow", lambda *a: self.native(lambda: pow(*a))),
            "float": self.types["float"], "bytes": self.types["bytes"], "callable": Builtin("callable", lambda f: isinstance(f, (Func, Builtin, BoundMethod, Cls))),
            "id": Builtin("id", lambda o: id(o)),
        })
        self.types["int"].fn = _int
        self.types["str"].fn = lambda x="": self.py_str(x)
        self.types["dict"].fn = lambda *a, **k: dict(*a, **k)
        self.types["list"].fn = lambda x=(): x.clone() if isinstance(x, (SeqList, ArrList)) else list(self.iterate(x))
        self.types["tuple"].fn = lambda x=(): tuple(self.iterate(x))
        self.types["bytearray"].fn = _bytearray
        self.types["bool"].fn = lambda x=False: self.truth_sym(x)
        self.types["float"].fn = float
        self.types["bytes"].fn = lambda x=b"": bytes(x)
        return b

    def _sum(self, xs, s):
        for x in self.iterate(xs):
            s = s + x
        return s

    def _chr(self, c):
        if isinstance(c, SymInt):
            from .sym import SymChar
            return SStr([SymChar(c.e)])
        return chr(c)

    def _min(self, *a):
        if len(a) == 1:
            a = list(self.iterate(a[0]))
        m = a[0]
        for x in a[1:]:
            if self.truth(x < m):
                m = x
        return m

    def _max(self, *a):
        if len(a) == 1:
            a = list(self.iterate(a[0]))
        m = a[0]
        for x in a[1:]:
            if self.truth(x > m):
                m = x
        return m

    def _from_bytes(self, b, byteorder="big"):
        return int.from_bytes(b, byteorder)

    def _print_str(self, x):
        s = self.py_str(x)
        return s if isinstance(s, str) else repr(s)

    def py_str(self, x):
        if isinstance(x, (str, SStr)):
            return x
        if isinstance(x, SymInt):
            return render_int(x, 10)
        if isinstance(x, Obj):
            if x.cls.kind == "enum":
                return "%s.%s" % (x.cls.name, x.fields["name"])
            f, owner = x.cls.lookup("__str__")
            if f is not None and isinstance(f, Func):
                return self.call(BoundMethod(f, x), [], {})
            f, owner = x.cls.lookup("__repr__")
            if f is not None and isinstance(f, Func) and x.cls.kind not in ("exception", "builtin-exc", "enum"):
                return self.call(BoundMethod(f, x), [], {})
            if x.cls.kind in ("exception", "builtin-exc"):
                a = x.fields.get("args", ())
                if len(a) == 0:
                    return ""
                if len(a) == 1:
                    if x.cls.name == "KeyError":
                        return self.py_repr(a[0])
                    return self.py_str(a[0])
                return "(" + ", ".join(self._print_str(self.py_repr(v)) for v in a) + ")"
            return "<%s object>" % x.cls.name
        if isinstance(x, Cls):
            return "<class '%s'>" % x.name
        if isinstance(x, (list, tuple, dict)):
            return self.py_repr(x)
        return str(x)

    def py_repr(self, x):
        if isinstance(x, SStr):
            return "'" + x + "'"
        if isinstance(x, SymInt):
            return render_int(x, 10)
        if isinstance(x, Obj):
            f, owner = x.cls.lookup("__repr__")
            if f is not None and isinstance(f, Func):
                return self.call(BoundMethod(f, x), [], {})
            return "<%s object>" % x.cls.name
        if isinstance(x, list):
            parts = [self.py_repr(v) for v in x]
            if all(isinstance(p, str) for p in parts):
                return "[" + ", ".join(parts) + "]"
            return strmodel.s_join(", ", parts)
        return repr(x)

    # ------------------------------------------------------------------ native / symbolic methods
    def call_native_method(self, recv, name, args, kwargs):
        if isinstance(recv, (SeqList, ArrList, AbsList, GhostDict)):
            return recv.method(self, name, args, kwargs)
        if isinstance(recv, _SymBytes):
            if name == "decode":
                return recv.decode(self)
            raise EngineError("bytearray.%s on symbolic bytes" % name)
        if isinstance(recv, (str, SStr)):
            symbolic = isinstance(recv, SStr) or any(isinstance(a, (SStr, SymInt, Obj, SymBool)) for a in args) \
                or name in ("join",)
            if name == "format":
                return strmodel.s_format(self, recv, args, kwargs)
            if symbolic:
                return strmodel.call_str_method(self, recv, name, args, kwargs)
            return self.native(getattr(recv, name), *args, **kwargs)
        if isinstance(recv, list):
            if self.write_hook is not None and name in ("append", "extend", "pop", "insert", "remove", "clear", "sort", "reverse"):
                self.write_hook(self, recv, name, "list")
            if name == "extend":
                a = args[0]
                if isinstance(a, (SeqList, ArrList)):
                    raise EngineError("extend native list with symbolic list")
                recv.extend(self.iterate(a))
                return None
            if name in ("index", "count", "remove"):
                if name == "index":
                    for k, x in enumerate(recv):
                        if self.truth(self.eq(x, args[0])):
                            return k
                    self.raise_("ValueError", "x not in list")
                if name == "count":
                    n = 0
                    for x in recv:
                        if self.truth(self.eq(x, args[0])):
                            n += 1
                    return n
                for k, x in enumerate(recv):
                    if self.truth(self.eq(x, args[0])):
                        del recv[k]
                        return None
                self.raise_("ValueError", "list.remove(x): x not in list")
            if name == "pop" and args and isinstance(args[0], SymInt):
                raise EngineError("list.pop symbolic")
            return self.native(getattr(recv, name), *args, **kwargs)
        if isinstance(recv, set):
            if self.write_hook is not None and name in ("add", "discard", "remove", "clear", "update", "pop"):
                self.write_hook(self, recv, name, "set")
            if args and isinstance(args[0], (SStr, SymInt)):
                raise EngineError("set.%s with a symbolic element" % name)
            return self.native(getattr(recv, name), *args, **kwargs)
        if isinstance(recv, dict):
            if self.write_hook is not None and name in ("setdefault", "pop", "update", "clear", "popitem"):
                self.write_hook(self, recv, name, "dict")
            if name in ("items", "keys", "values", "get", "setdefault", "pop", "update", "copy"):
                if name == "items":
                    return [(_unskey(k), v) for k, v in recv.items()]
                if name == "keys":
                    return [_unskey(k) for k in recv.keys()]
                if name == "get" and isinstance(args[0], (SStr, SymInt)):
                    if self.truth(self.contains(recv, args[0])):
                        return self.getitem(recv, args[0])
                    return args[1] if len(args) > 1 else None
                return self.native(getattr(recv, name), *args, **kwargs)
        if isinstance(recv, (bytearray, bytes)):
            if name == "decode":
                try:
                    return recv.decode(*args)
                except UnicodeDecodeError as ex:
                    raise PyRaise(self.mk_exc("UnicodeDecodeError", str(ex)), self.site())
        if isinstance(recv, SymInt):
            if name == "bit_length" and not args:
                # number of bits of |x|: how many powers of two are <= |x| (exact for |x| < 2**48; larger values do not occur)
                a = sym.Ite(recv < 0, 0 - recv, recv)
                n = 0
                for k in range(48):
                    n = n + sym.Ite(a >= (1 << k), 1, 0)
                return n
            raise EngineError("int method %s on symbolic int" % name)
        return self.native(getattr(recv, name), *args, **kwargs)

    def regex(self, rxo, s, search):
        if isinstance(s, SStr):
            s2 = s.norm()
            if isinstance(s2, str):
                s = s2
        if isinstance(s, str):
            m = rxo.native.search(s) if search else rxo.native.match(s)
            if m is None:
                return None
            groups = {i: m.group(i) for i in range(1, (m.re.groups or 0) + 1)}
            return MatchObj(groups, dict(m.re.groupindex), m.group(0))
        if not isinstance(s, SStr):
            self.raise_("TypeError", "expected string or bytes-like object")
        r = rx.match(rxo.pattern, s, search)
        if r is None:
            return None
        g, names, (st, en) = r
        groups = {}
        for i, (a, b2) in g.items():
            groups[i] = self.getitem(s, slice(a, b2)) if not (a == 0 and b2 == len(s)) else s
        import re as _re
        ngroups = _re.compile(rxo.pattern).groups
        for i in range(1, ngroups + 1):
            groups.setdefault(i, None)
        return MatchObj(groups, names, self.getitem(s, slice(st, en)))

    # ------------------------------------------------------------------ ghost filesystem
    def _open(self, path, mode="r"):
        if not isinstance(path, str):
            if path is None:
                self.raise_("TypeError", "expected str, bytes or os.PathLike object, not NoneType")
            raise EngineError("open() with symbolic path")
        key = self._fskey(path)
        if "r" in mode:
            if key not in self.fs:
                raise PyRaise(self.mk_exc("FileNotFoundError", "[Errno 2] No such file or directory: '%s'" % path), self.site())
        return FileObj(self.fs, key, mode)

    def _file_op(self, f, name, *a):
        if name == "readlines":
            data = self.fs[f.path]
            if data and not isinstance(data[0], str):
                raise EngineError("readlines on binary ghost file")
            return list(data)
        if name == "read":
            data = self.fs[f.path]
            n = a[0] if a else None
            if n is None:
                r = data[f.pos:]
                f.pos = len(data)
            else:
                r = data[f.pos:f.pos + n]
                f.pos += len(r)
            if all(isinstance(x, int) for x in r):
                return bytes(r)
            raise EngineError("read of symbolic ghost bytes")
        if name == "write":
            d = a[0]
            f.out.extend(list(d.items) if isinstance(d, _SymBytes) else list(d))
            return len(d) if not isinstance(d, _SymBytes) else len(d.items)
        raise EngineError("file.%s" % name)

    def _close(self, f):
        if "w" in f.mode:
            self.fs[f.path] = list(f.out)
            self.fs_writes.append((f.path, list(f.out)))


class _SKey:
    """dict key wrapper for symbolic strings (kept distinct by identity)"""
    def __init__(self, s):
        self.s = s


def _unskey(k):
    return k.s if isinstance(k, _SKey) else k


class _SymBytes:
    def __init__(self, items):
        self.items = items

    def decode(self, interp):
        from .sym import SymChar
        chars = []
        for x in self.items:
            if isinstance(x, int):
                if x >= 128:
                    # approximation documented in DESIGN: a lone byte >= 0x80 is undecodable
                    raise PyRaise(interp.mk_exc("UnicodeDecodeError", "invalid start byte"), interp.site())
                chars.append(x)
            else:
                if not branch(x < 128):
                    raise PyRaise(interp.mk_exc("UnicodeDecodeError", "invalid start byte"), interp.site())
                chars.append(SymChar(x.e))
        return SStr(chars).norm()
