"""
Harness for the virtual-file side (cassette / disk / VirtualFile): builds the repo's objects and
calls its methods symbolically (AST interpreter) or natively (real modules), behind one API.
"""
import os
import sys

from .objs import Obj, PyRaise
from .sym import SStr, SymInt, EngineError
from .lists import SeqList, ArrList


class _Hang(BaseException):
    pass


class Raised(Exception):
    def __init__(self, cls, msg):
        Exception.__init__(self, "%s: %s" % (cls, msg))
        self.cls, self.msg = cls, msg


def _native():
    repo = os.environ.get("VERIF_REPO", "/repo")
    if repo not in sys.path:
        sys.path.insert(0, repo)
    import importlib
    return importlib


class Files:
    """mode-agnostic access to the repo's file classes"""

    def __init__(self, env):
        self.env = env
        self.sym = env.mode == "sym"
        self.it = env.interp if self.sym else None

    # ---- class / object access
    def cls(self, module, cname):
        if self.sym:
            return self.it.get(module, cname)
        return getattr(_native().import_module(module), cname)

    def new(self, module, cname, *args, **kw):
        c = self.cls(module, cname)
        return self.call(c, *args, **kw)

    def call(self, fn, *args, **kw):
        """a call that does not come back (loop bound / 10 s of CPU natively) is reported as Raised('Hang')"""
        if self.sym:
            old = self.it.while_limit
            self.it.while_limit = 3000
            try:
                return self.it.call(fn, list(args), kw)
            except PyRaise as pr:
                raise Raised(pr.exc.cls.name, self.it._print_str(pr.exc))
            except EngineError as e:
                if "while loop exceeded" in str(e):
                    raise Raised("Hang", str(e))
                raise
            finally:
                self.it.while_limit = old
        import signal

        def on_alarm(signum, frame):
            raise _Hang()
        nested = getattr(Files, "_in_call", False)
        if not nested:
            Files._in_call = True
            oldh = signal.signal(signal.SIGALRM, on_alarm)
            signal.setitimer(signal.ITIMER_REAL, 10.0)
        try:
            return fn(*args, **kw)
        except _Hang:
            raise Raised("Hang", "no result after 10 s on the real code")
        except Raised:
            raise
        except Exception as e:  # noqa
            raise Raised(type(e).__name__, str(e))
        finally:
            if not nested:
                signal.setitimer(signal.ITIMER_REAL, 0)
                signal.signal(signal.SIGALRM, oldh)
                Files._in_call = False

    def method(self, obj, name, *args, **kw):
        if self.sym:
            return self.call(self.it.getattr_(obj, name), *args, **kw)
        return self.call(getattr(obj, name), *args, **kw)

    def get(self, obj, name):
        if self.sym:
            return self.it.getattr_(obj, name)
        return getattr(obj, name)

    def set(self, obj, name, v):
        if self.sym:
            self.it.setattr_(obj, name, v)
        else:
            setattr(obj, name, v)

    # ---- values
    def numeric(self, v):
        return self.new("cocoasm.values", "NumericValue", v)

    def none_value(self):
        return self.new("cocoasm.values", "NoneValue")

    def coco_file(self, name, ftype, dtype, load, exe, data, extension="", addr_kind="numeric"):
        mk = self.numeric if addr_kind == "numeric" else (lambda v: self.none_value())
        return self.new("cocoasm.virtualfiles.coco_file", "CoCoFile", name=name, extension=extension, type=self.numeric(ftype),
                        data_type=self.numeric(dtype), load_addr=mk(load), exec_addr=mk(exe), data=data)

    def intval(self, v):
        """the .int of a Value object"""
        return self.get(v, "int")

    def is_none_value(self, v):
        if self.sym:
            return v.cls.name == "NoneValue"
        return type(v).__name__ == "NoneValue"
