"""
Obligation machinery: environments (symbolic / native replay), path exploration, proving,
aggregation of outcomes per (lemma, cell, clause).

A *lemma* is a Python object with
    .name                      stable identifier used in obligation names
    .props                     property ids its clauses may carry
    .cells(tier) -> [cell]     finite partition of its precondition (JSON-able dicts with "id")
    .run(env, cell)            mode-agnostic body: builds inputs through env.hole_*(), runs the REAL
                               code through env.harness, states clauses through env.ensure(...)

In symbolic mode the body runs once per path; `ensure` sends  pc => clause  to z3.  A refuted
clause yields a model of the holes; the same body is then re-run natively (NativeEnv: real CPython on
the real modules of $VERIF_REPO) with the holes bound to the model.  Only a natively confirmed
failure is a violation candidate; a refuted clause that does not fail natively is reported as
`spurious` (engine/contract imprecision -> exit 3 for fully inlined lemmas).
"""
import os
import sys
import time
import json
import traceback
import signal

import z3

from . import sym
from .sym import SymInt, SymBool, SStr, SymChar, Path, PathAbort, EngineError, set_path, mk
from .objs import PyRaise

REPO = os.environ.get("VERIF_REPO", "/repo")


class Outcome:
    __slots__ = ("clause", "props", "status", "holes", "ms", "detail", "path", "internal")

    def __init__(self, clause, props, status, holes=None, ms=0.0, detail=None, path=None, internal=None):
        self.clause, self.props, self.status = clause, props, status
        self.holes, self.ms, self.detail, self.path = holes, ms, detail, path
        self.internal = internal      # text: this clause has no native counterpart (frame / ghost obligations)


class StopPath(Exception):
    """lemma body asks to end this path (after recording outcomes)"""


class Env:
    mode = None

    def __init__(self):
        self.outcomes = []
        self.holes = {}
        self.info = {}

    # ---- clause interface
    def ensure(self, clause, cond, props=(), detail=None):
        raise NotImplementedError

    def fail(self, clause, props=(), detail=None, internal=None, split=None):
        return self.ensure(clause, False, props, detail, internal=internal, split=split)

    def stop(self):
        raise StopPath()


class SymEnv(Env):
    mode = "sym"

    def __init__(self, path, interp, timeout_ms):
        super().__init__()
        self.path = path
        self.interp = interp
        self.timeout_ms = timeout_ms
        self.hole_terms = {}

    # ---- holes
    def hole_char(self, name, ranges):
        c = sym.sym_char("h_" + name, ranges)
        self.hole_terms[name] = c.code
        return c

    def hole_int(self, name, lo=None, hi=None):
        v = sym.sym_int("h_" + name, lo, hi)
        self.hole_terms[name] = v.e
        return v

    def hole_bytes(self, name, n):
        """n symbolic bytes (python list of SymInt, each 0..255)"""
        out = [SymInt(z3.Int("h_%s_%d" % (name, k))) for k in range(n)]
        if out:
            self.path.assume(z3.And(*[z3.And(v.e >= 0, v.e <= 255) for v in out]), seqfree=True)
        self.hole_terms[name] = ("bytes", [v.e for v in out])
        return out

    def hole_seq(self, name, maxlen=None):
        """a byte sequence of symbolic length (z3 Seq); elements constrained to 0..255 by quantifier-free
        facts added where elements are read (see SeqList.byte_facts)"""
        from .lists import SeqList
        s = SeqList.fresh("h_" + name)
        self.hole_terms[name] = s.seq
        if maxlen is not None:
            self.path.assume(z3.Length(s.seq) <= maxlen)
        s.bytes_only = True
        return s

    def hole_choice(self, name, options):
        """a hole that is enumerated by forking (small finite domains)"""
        idx = self.hole_int(name, 0, len(options) - 1)
        for k in range(len(options)):
            if sym.branch(idx == k):
                return options[k]
        raise PathAbort()

    def assume(self, cond):
        self.path.assume(cond if not isinstance(cond, (SymBool,)) else cond.e)

    def text(self, *parts):
        """build a source string from str / SymChar / SStr parts"""
        chars = []
        for p in parts:
            if isinstance(p, str):
                chars.extend(ord(c) for c in p)
            elif isinstance(p, SymChar):
                chars.append(p)
            elif isinstance(p, SStr):
                chars.extend(p.chars)
            elif isinstance(p, (list, tuple)):
                chars.extend(SStr.of(self.text(*p)).chars)
            else:
                raise EngineError("text part %r" % (p,))
        return SStr(chars).norm()

    def _model_holes(self, model):
        out = {}
        for k, t in self.hole_terms.items():
            if isinstance(t, tuple) and t[0] == "bytes":
                out[k] = [model.eval(x, model_completion=True).as_long() for x in t[1]]
                continue
            if isinstance(t, tuple) and t[0] == "arr":
                n = model.eval(t[2], model_completion=True).as_long()
                out[k] = [model.eval(z3.Select(t[1], i), model_completion=True).as_long() for i in range(min(n, 70000))]
                continue
            if z3.is_seq(t):
                n = model.eval(z3.Length(t), model_completion=True).as_long()
                out[k] = [model.eval(t[i], model_completion=True).as_long() for i in range(min(n, 100000))]
                continue
            v = model.eval(t, model_completion=True)
            out[k] = v.as_long()
        return out

    def ensure(self, clause, cond, props=(), detail=None, internal=None, split=None):
        """split: [(label, condition)] input classes; a refuted obligation is then reported once per class in which it can
        fail (one counter-model each), so that failure signatures do not depend on which model the solver happens to pick"""
        t0 = time.time()
        self._internal = internal
        if isinstance(cond, SymBool):
            cond = cond.e
        if cond is not True and cond is not False:
            sc = z3.simplify(cond)
            if z3.is_true(sc):
                cond = True
        if cond is True:
            self.outcomes.append(Outcome(clause, props, "discharged", ms=0.0))
            return True
        s = self.path.solver
        if self.path.light is not None:
            # sequence theory present: z3's in-process timeout is not reliable there; run the query in a separate
            # process with a hard limit.  unsat -> discharged; anything else -> undecided (a witness is then looked
            # for by the lemma's bounded probes, natively)
            r, why = external_unsat(s, cond, self.timeout_ms)
            self.path.nqueries += 1
            self.path.solver_s += time.time() - t0
            if r == "unsat":
                self.outcomes.append(Outcome(clause, props, "discharged", ms=(time.time() - t0) * 1000))
                return True
            if r == "sat":
                # refuted (the solver found a model but it is not extracted from the external process): a failed obligation
                # without its own witness; the lemma's native body / probes look for a replayable input
                self.outcomes.append(Outcome(clause, props, "failed", holes=None, ms=(time.time() - t0) * 1000,
                                             internal=self._internal or "refuted by %s, no model extracted" % why))
                return False
            self.outcomes.append(Outcome(clause, props, "undecided", ms=(time.time() - t0) * 1000, detail="external:%s" % why))
            return False
        s.push()
        try:
            if cond is not False:
                s.add(z3.Not(cond))
            r = self.path.check()
            if r == z3.unsat:
                self.outcomes.append(Outcome(clause, props, "discharged", ms=(time.time() - t0) * 1000))
                return True
            if r == z3.sat:
                models = [self._model_holes(s.model())]
                if split:
                    per = []
                    for _lab, c in split:
                        c = c.e if isinstance(c, SymBool) else c
                        if c is False:
                            continue
                        s.push()
                        try:
                            if c is not True:
                                s.add(c)
                            if self.path.check() == z3.sat:
                                per.append(self._model_holes(s.model()))
                        finally:
                            s.pop()
                    models = per or models
                for holes in models:
                    self.outcomes.append(Outcome(clause, props, "failed", holes=holes, ms=(time.time() - t0) * 1000,
                                                 internal=self._internal))
                return False
            self.outcomes.append(Outcome(clause, props, "undecided", ms=(time.time() - t0) * 1000,
                                         detail=s.reason_unknown()))
            return False
        finally:
            s.pop()


def external_unsat(solver, cond, timeout_ms):
    """check  assertions(solver) AND NOT cond  with the z3 CLI (then cvc5) under a hard wall-clock limit"""
    import subprocess
    import tempfile
    work = os.path.join(os.path.dirname(os.path.dirname(os.path.abspath(__file__))), ".work", "smt")
    os.makedirs(work, exist_ok=True)
    s2 = z3.Solver()
    s2.add(solver.assertions())
    if cond is not False:
        s2.add(z3.Not(cond))
    text = s2.to_smt2()
    fd, path = tempfile.mkstemp(suffix=".smt2", dir=work)
    with os.fdopen(fd, "w") as f:
        f.write(text)
    secs = max(2, int(timeout_ms / 1000))
    why = "?"
    try:
        for cmd in (["z3-new", "-T:%d" % secs, path], ["/usr/bin/z3", "-T:%d" % secs, path]):
            try:
                out = subprocess.run(cmd, capture_output=True, text=True, timeout=secs + 3).stdout.strip().split("\n")[0]
            except (subprocess.TimeoutExpired, OSError):
                out = "timeout"
            if out == "unsat":
                return "unsat", cmd[0]
            why = out
            if out == "sat":
                return "sat", cmd[0]
        return "unknown", why
    finally:
        try:
            os.unlink(path)
        except OSError:
            pass


class NativeEnv(Env):
    mode = "native"

    def __init__(self, holes):
        super().__init__()
        self.holes = dict(holes)

    # a counter-model need not mention every hole (model completion / refutations without an extracted model): missing holes
    # take the least value of their range
    def hole_char(self, name, ranges):
        return chr(self.holes.get(name, ranges[0][0]))

    def hole_int(self, name, lo=None, hi=None):
        return self.holes.get(name, lo if lo is not None else 0)

    def hole_choice(self, name, options):
        return options[self.holes.get(name, 0)]

    def hole_seq(self, name, maxlen=None):
        return list(self.holes.get(name, []))

    def hole_bytes(self, name, n):
        v = list(self.holes.get(name, []))
        return (v + [0] * n)[:n]

    def assume(self, cond):
        if not cond:
            raise PathAbort()

    def text(self, *parts):
        out = []
        for p in parts:
            if isinstance(p, (list, tuple)):
                out.append(self.text(*p))
            else:
                out.append(p)
        return "".join(out)

    def ensure(self, clause, cond, props=(), detail=None, internal=None, split=None):
        ok = bool(cond)
        d = None
        if not ok and detail is not None:
            try:
                d = detail() if callable(detail) else detail
            except Exception as e:  # noqa
                d = "detail-error:%s" % e
        self.outcomes.append(Outcome(clause, props, "discharged" if ok else "failed", holes=self.holes, detail=d))
        return ok


# --------------------------------------------------------------------------- exploration


class CellResult:
    def __init__(self, lemma, cell):
        self.lemma = lemma
        self.cell = cell
        self.paths = 0
        self.aborted = 0
        self.queries = 0
        self.solver_s = 0.0
        self.wall_s = 0.0
        self.clauses = {}       # clause -> dict(status, props, n, ms)
        self.failures = []      # dicts: clause, props, holes, native (confirmed|spurious|...), signature, lines
        self.undecided = []
        self.errors = []        # engine errors (strings)
        self.notes = []
        self.pathsigs = set()


def _agg(res, o):
    c = res.clauses.setdefault(o.clause, {"status": "discharged", "props": sorted(o.props), "n": 0, "ms": 0.0})
    c["n"] += 1
    c["ms"] += o.ms
    order = {"discharged": 0, "undecided": 1, "failed": 2}
    if order[o.status] > order[c["status"]]:
        c["status"] = o.status


def explore_cell(lemma, cell, interp, timeout_ms=10000, max_paths=4000, replay=True):
    res = CellResult(lemma.name, cell)
    t0 = time.time()
    if cell.get("native_only"):
        # a check that only exists on the real interpreter (process-level behaviour): run natively once; always `bounded`
        env = NativeEnv({})
        try:
            lemma.run(env, cell)
        except (PathAbort, StopPath):
            pass
        except Exception as e:  # noqa
            res.errors.append("native-only cell crashed: %s\n%s" % (e, traceback.format_exc()[-800:]))
        res.paths = 1
        for o in env.outcomes:
            _agg(res, o)
            if o.status == "failed":
                res.failures.append({"clause": o.clause, "props": sorted(o.props), "holes": {}, "native": "confirmed",
                                     "signature": o.detail, "info": env.info})
        res.wall_s = time.time() - t0
        return res
    work = [[]]
    seen_fail = set()
    while work:
        prefix = work.pop()
        if res.paths >= max_paths:
            # too many paths: the cell is undecided (never a verdict); the bounded probes below look for a witness
            res.undecided.append({"clause": "path-limit", "reason": "more than %d paths" % max_paths})
            res.clauses["path-limit"] = {"status": "undecided", "props": sorted(lemma.props), "n": 1, "ms": 0.0}
            break
        p = Path(prefix, timeout_ms)
        set_path(p)
        env = SymEnv(p, interp, timeout_ms)
        interp.depth = 0
        interp.stack = []
        interp.steps = 0
        interp.stdout = []
        interp.fs_writes = []
        interp.cwd = ""
        try:
            lemma.run(env, cell)
        except (PathAbort, StopPath):
            if not env.outcomes:
                res.aborted += 1
        except PyRaise as pr:
            res.errors.append("uncaught interpreted exception in lemma body: %s" % pr)
        except sym.Undecided as e:
            # the code no longer has the shape the contract was written for (a loop under contract is gone, an accumulator has
            # another type ...): the obligation is undecided -- never a verdict; the probes below look for a witness
            res.undecided.append({"clause": "proof-shape", "reason": str(e)})
            res.clauses["proof-shape"] = {"status": "undecided", "props": sorted(lemma.props), "n": 1, "ms": 0.0}
        except EngineError as e:
            res.errors.append("engine: %s" % e)
        except RecursionError:
            res.errors.append("engine: python recursion limit")
        except Exception as e:  # noqa
            res.errors.append("checker crash: %s\n%s" % (e, traceback.format_exc()[-1500:]))
        finally:
            set_path(None)
        # vacuity guard: a path whose condition is unsatisfiable proves nothing
        if env.outcomes:
            try:
                if (p.check() if p.light is None else p.light.check()) == z3.unsat:
                    res.errors.append("vacuous path: the path condition is unsatisfiable (contradictory assumption in a lemma or contract)"
                                      + (" outcomes=%s prefix=%s" % ([o.clause.split("::", 1)[-1] for o in env.outcomes][:8], prefix)
                                         if os.environ.get("VERIF_DEBUG") else ""))
            except Exception:  # noqa
                pass
        res.paths += 1
        res.queries += p.nqueries
        res.solver_s += p.solver_s
        if p.notes:
            res.notes.extend(p.notes)
        work.extend(p.pending)
        res.pathsigs.add(hash(tuple(str(c) for c in p.pc[-6:])))
        for o in env.outcomes:
            _agg(res, o)
            if o.status == "undecided":
                res.undecided.append({"clause": o.clause, "reason": o.detail})
            if o.status == "failed":
                key = (o.clause,)
                f = {"clause": o.clause, "props": sorted(o.props), "holes": o.holes or {}}
                if replay and o.holes is None and o.internal:
                    # refuted without an extracted model (external solver): nothing to replay; the probes look for a witness
                    f.update({"native": "no-native-counterpart", "signature": o.internal})
                elif replay:
                    f.update(native_replay(lemma, cell, o.holes or {}, o.clause, props=o.props))
                    if f["native"] in ("spurious", "precondition-not-met") and o.internal:
                        f["native"] = "no-native-counterpart"
                        f["signature"] = o.internal
                res.failures.append(f)
    # bounded probes: when an obligation of this cell is undecided (or refuted without a native witness) look for a
    # concrete failing input natively among the lemma's probe inputs; a hit is a replayed violation
    # (the probes run for every cell that has them, not only when something is undecided: they are the bounded companion of the
    # contract -- a change OUTSIDE the function under contract, e.g. in the order its caller applies it, shows only there)
    if replay and hasattr(lemma, "probes"):
        seen_sigs = set()
        for holes in lemma.probes(cell):
            r = native_replay(lemma, cell, holes, None)
            if r["native"] != "confirmed" or r["signature"] in seen_sigs:
                continue
            seen_sigs.add(r["signature"])
            # a probe witness stands in for the witness-less refutations of the SAME clause only (its signature starts with
            # the tail of the clause that failed natively); refutations of other clauses stay reported on their own
            def same_clause(f):
                ct = f["clause"].split("::")[-1]
                return str(r["signature"]).startswith(ct + ":") or str(r["signature"]) == ct
            # a probe witness stands in for the witness-less refutations of the SAME clause; it is reported under the clause that
            # failed natively, with the native signature (as if the cell had been refuted on this input)
            explains = [f for f in res.failures if f.get("native") in ("spurious", "no-native-counterpart") and same_clause(f)]
            res.failures = [f for f in res.failures if f not in explains]
            for (cl, props_, detail) in r.get("failed", [])[:1]:
                if any(f["clause"] == cl and f.get("signature") == detail for f in res.failures):
                    continue
                res.failures.append({"clause": cl, "props": props_, "holes": holes, "native": "confirmed", "signature": detail,
                                     "info": r["info"], "probe": True})
                c = res.clauses.setdefault(cl, {"status": "failed", "props": props_, "n": 0, "ms": 0.0})
                c["status"] = "failed"
            if len(seen_sigs) >= 12:
                break
    res.wall_s = time.time() - t0
    return res


class _Alarm(Exception):
    pass


def _on_alarm(signum, frame):
    raise _Alarm()


def probe_cell(lemma, cell):
    """bounded probes only (used for cells whose symbolic exploration was killed by the watchdog)"""
    res = CellResult(lemma.name, cell)
    if hasattr(lemma, "probes"):
        for holes in lemma.probes(cell):
            r = native_replay(lemma, cell, holes, None)
            if r["native"] == "confirmed":
                res.failures.append({"clause": "cell-watchdog", "props": sorted(lemma.props), "holes": holes, "native": "confirmed",
                                     "signature": "probe:%s" % r["signature"], "info": r["info"]})
                break
    return res


_NATIVE_RUNS = {}


def _native_run(lemma, cell, holes):
    """one native execution of the cell body per (cell, holes): a concrete cell that checks many inputs is replayed once, not once
    per failing clause (the run is deterministic: same tree, same holes)"""
    try:
        key = (lemma.name, cell["id"], json.dumps(holes, sort_keys=True, default=str))
    except Exception:  # noqa
        key = None
    if key is not None and key in _NATIVE_RUNS:
        return _NATIVE_RUNS[key]
    env = NativeEnv(holes)
    res = ("ok", env, None)
    try:
        lemma.run(env, cell)
    except (PathAbort,):
        res = ("precondition-not-met", env, None)
    except StopPath:
        pass
    except Exception as e:  # noqa
        res = ("replay-error", env, {"error": "%s: %s" % (type(e).__name__, e), "tb": traceback.format_exc()[-800:]})
    if key is not None:
        if len(_NATIVE_RUNS) > 64:
            _NATIVE_RUNS.clear()
        _NATIVE_RUNS[key] = res
    return res


def native_replay(lemma, cell, holes, clause, timeout_s=5.0, props=None):
    """re-run the lemma body natively on the real modules with the holes bound to `holes`"""
    out = {"native": "not-run", "signature": None, "info": {}}
    status, env, err = _native_run(lemma, cell, holes)
    if status == "precondition-not-met":
        out["native"] = "precondition-not-met"
        return out
    if status == "replay-error":
        out["native"] = "replay-error"
        out["info"] = err
        return out
    out["info"] = env.info
    fails = [o for o in env.outcomes if o.status == "failed"]
    if props is not None:
        fails = [o for o in fails if o.clause == clause or set(o.props) & set(props)]
    same = [o for o in fails if o.clause == clause]
    if same:
        out["native"] = "confirmed"
        out["signature"] = same[0].detail
        out["failed"] = [(o.clause, sorted(o.props), o.detail) for o in same]
    elif fails:
        # internal proof obligations (invariants, pre@call, decreases) have no native counterpart of their own:
        # the native run evaluates the property-level clauses of the cell, any of which failing confirms
        out["native"] = "confirmed"
        out["signature"] = "%s:%s" % (fails[0].clause.split("::")[-1], fails[0].detail)
        out["failed"] = [(o.clause, sorted(o.props), o.detail) for o in fails]
    else:
        out["native"] = "spurious"
    return out
