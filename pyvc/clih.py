"""
CLI harness: run assembler.main(args) / file_util.main(args) on a ghost filesystem
(symbolically: AST interpreter with Interp.fs;  natively: the real modules in a scratch directory).
"""
import contextlib
import io
import os
import shutil
import sys
import tempfile

from .objs import Obj, Cls, PyRaise
from .sym import EngineError

ASM_DEFAULTS = dict(filename=None, symbols=False, print=False, to_bin=None, to_cas=None, to_dsk=None, name=None, append=False,
                    width=100)
FU_DEFAULTS = dict(host_filename=None, append=False, list=False, to_bin=None, to_cas=None, to_dsk=None, files=None)


class CliResult:
    def __init__(self):
        self.exit = None          # None: returned normally; int: sys.exit code
        self.escape = None        # exception class name that left main()
        self.stdout = []
        self.fs = {}              # path -> list of ints after the run
        self.writes = []

    def __repr__(self):
        return "Cli(exit=%s escape=%s files=%s out=%s)" % (self.exit, self.escape, {k: len(v) for k, v in self.fs.items()},
                                                            self.stdout[:3])


_NS = Cls("Namespace", [], {}, None, "plain")

READ_KEY = "cocoasm/virtualfiles/source_file.py::SourceFile.read_binary_contents"
WRITE_KEY = "cocoasm/virtualfiles/source_file.py::SourceFile.write_binary_contents"


def run_cli(env, tool, args, fs):
    """tool: 'assembler' | 'file_util'; args: dict of option values; fs: path -> list[int] (binary) | list[str] (text)"""
    full = dict(ASM_DEFAULTS if tool == "assembler" else FU_DEFAULTS)
    full.update(args)
    if env.mode == "sym":
        return _run_sym(env, tool, full, fs)
    return _run_native(env, tool, full, fs)


def _run_sym(env, tool, args, fs):
    it = env.interp
    r = CliResult()
    it.fs = {k: list(v) for k, v in fs.items()}
    it.stdout = []
    it.fs_writes = []
    old_hook = it.call_hook

    def hook(interp, func, bound):
        # assumed contracts of the two external I/O functions (DESIGN A3): whole-file read / write on the ghost filesystem
        if func.key == READ_KEY:
            p = interp._fskey(bound["filename"])
            if p not in interp.fs:
                raise PyRaise(interp.mk_exc("FileNotFoundError", "[Errno 2] No such file or directory: '%s'" % p))
            return True, list(interp.fs[p])
        if func.key == WRITE_KEY:
            data = list(interp.iterate(bound["buffer"]))
            interp.fs[interp._fskey(bound["filename"])] = data
            interp.fs_writes.append((interp._fskey(bound["filename"]), data))
            return True, None
        if old_hook is not None:
            return old_hook(interp, func, bound)
        return False, None
    it.call_hook = hook
    it.step_limit = 30000000
    it.steps = 0
    old_while = it.while_limit
    it.while_limit = None          # (a limit left behind by an assembler run must not cut a long tape short)
    try:
        main = it.get(tool, "main")
        ns = Obj(_NS, dict(args))
        try:
            it.call(main, [ns], {})
        except PyRaise as pr:
            if pr.exc.cls.name == "SystemExit":
                a = pr.exc.fields.get("args", ())
                r.exit = a[0] if a else 0
            else:
                r.escape = pr.exc.cls.name
    finally:
        it.call_hook = old_hook
        it.step_limit = None
        it.while_limit = old_while
    r.stdout = list(it.stdout)
    r.fs = {k: list(v) for k, v in it.fs.items()}
    r.writes = list(it.fs_writes)
    return r


def _run_native(env, tool, args, fs):
    import argparse
    import importlib
    repo = os.environ.get("VERIF_REPO", "/repo")
    if repo not in sys.path:
        sys.path.insert(0, repo)
    mod = importlib.import_module(tool)
    r = CliResult()
    work = os.path.join(os.path.dirname(os.path.dirname(os.path.abspath(__file__))), ".work")
    os.makedirs(work, exist_ok=True)
    tmpd = tempfile.mkdtemp(dir=work)
    cwd = os.getcwd()
    try:
        for k, v in fs.items():
            with open(os.path.join(tmpd, k), "wb") as f:
                if v and isinstance(v[0], str):
                    f.write("".join(v).encode())
                else:
                    f.write(bytes(v))
        os.chdir(tmpd)
        out = io.StringIO()
        try:
            with contextlib.redirect_stdout(out):
                mod.main(argparse.Namespace(**args))
        except SystemExit as e:
            r.exit = e.code if e.code is not None else 0
        except RecursionError:
            r.escape = "RecursionError"
        except Exception as e:  # noqa
            r.escape = type(e).__name__
        r.stdout = out.getvalue().split("\n")
        for k in os.listdir(tmpd):
            with open(os.path.join(tmpd, k), "rb") as f:
                r.fs[k] = list(f.read())
        for k, v in fs.items():
            if v and isinstance(v[0], str):
                r.fs[k] = list("".join(v).encode())
    finally:
        os.chdir(cwd)
        shutil.rmtree(tmpd, ignore_errors=True)
    return r
