"""Models of str methods / str.format on char-vector strings (SStr) and symbolic ints."""
import string

from .sym import (SStr, SymInt, SymBool, SymChar, EngineError, branch, render_int, char_in_ranges,
                  Ite, mk, mks, Not, And, Or)
import z3


def is_strlike(x):
    return isinstance(x, (str, SStr))


def to_sstr(x):
    return SStr.of(x)


def _upper_char(c):
    if isinstance(c, int):
        return ord(chr(c).upper()) if len(chr(c).upper()) == 1 else c
    code = c.code
    return SymChar(z3.simplify(z3.If(z3.And(code >= 97, code <= 122), code - 32, code)),
                   hexval=c.hexval)


def _lower_char(c):
    if isinstance(c, int):
        return ord(chr(c).lower())
    code = c.code
    return SymChar(z3.simplify(z3.If(z3.And(code >= 65, code <= 90), code + 32, code)), hexval=c.hexval)


WS = [(9, 13), (32, 32), (28, 31)]


def _is_ws(c):
    return char_in_ranges(c, WS)


def s_upper(s):
    return SStr([_upper_char(c) for c in s.chars]).norm()


def s_lower(s):
    return SStr([_lower_char(c) for c in s.chars]).norm()


def s_strip(s, chars=None):
    if chars is not None:
        raise EngineError("strip(chars) on symbolic string")
    cs = list(s.chars)
    while cs and branch(_is_ws(cs[0])):
        cs.pop(0)
    while cs and branch(_is_ws(cs[-1])):
        cs.pop()
    return SStr(cs).norm()


def s_startswith(s, prefix):
    p = to_sstr(prefix)
    if len(p) > len(s):
        return False
    return SStr(s.chars[:len(p)]).eq(p)


def s_endswith(s, suffix):
    p = to_sstr(suffix)
    if len(p) > len(s):
        return False
    if len(p) == 0:
        return True
    return SStr(s.chars[-len(p):]).eq(p)


def s_find(s, sub, start=0):
    sub = to_sstr(sub)
    n, m = len(s), len(sub)
    if isinstance(start, SymInt):
        raise EngineError("symbolic start in find")
    for i in range(start, n - m + 1):
        if branch(SStr(s.chars[i:i + m]).eq(sub)):
            return i
    return -1


def s_rfind(s, sub, start=0):
    """str.rfind: the LAST occurrence at or after start, -1 if none (forks on the symbolic characters)"""
    sub = to_sstr(sub)
    n, m = len(s), len(sub)
    if isinstance(start, SymInt):
        raise EngineError("symbolic start in rfind")
    for i in range(n - m, start - 1, -1):
        if branch(SStr(s.chars[i:i + m]).eq(sub)):
            return i
    return -1


def s_index(s, sub, start=0, interp=None):
    r = s_find(s, sub, start)
    if r == -1:
        raise ValueError("substring not found")
    return r


def s_split(s, sep=None, maxsplit=-1):
    if sep is None:
        raise EngineError("split() without separator on symbolic string")
    sep = to_sstr(sep)
    m = len(sep)
    if m == 0:
        raise ValueError("empty separator")
    out = []
    curc = []
    i = 0
    n = len(s)
    while i < n:
        if i + m <= n and branch(SStr(s.chars[i:i + m]).eq(sep)):
            out.append(SStr(curc).norm())
            curc = []
            i += m
        else:
            curc.append(s.chars[i])
            i += 1
    out.append(SStr(curc).norm())
    return out


def s_replace(s, old, new):
    old, new = to_sstr(old), to_sstr(new)
    m = len(old)
    if m == 0:
        raise EngineError("replace with empty pattern")
    out = []
    i = 0
    n = len(s)
    while i < n:
        if i + m <= n and branch(SStr(s.chars[i:i + m]).eq(old)):
            out.extend(new.chars)
            i += m
        else:
            out.append(s.chars[i])
            i += 1
    return SStr(out).norm()


def s_ljust(s, width, fill=" "):
    if len(s) >= width:
        return s.norm()
    return SStr(s.chars + [ord(fill)] * (width - len(s))).norm()


def s_rjust(s, width, fill=" "):
    if len(s) >= width:
        return s.norm()
    return SStr([ord(fill)] * (width - len(s)) + s.chars).norm()


def s_join(sep, items):
    sep = to_sstr(sep)
    out = []
    first = True
    for it in items:
        if not is_strlike(it):
            raise TypeError("sequence item: expected str instance")
        if not first:
            out.extend(sep.chars)
        first = False
        out.extend(to_sstr(it).chars)
    return SStr(out).norm()


def call_str_method(interp, recv, name, args, kwargs):
    """recv: str | SStr with at least one symbolic participant."""
    s = to_sstr(recv)
    if name == "upper":
        return s_upper(s)
    if name == "lower":
        return s_lower(s)
    if name == "strip":
        return s_strip(s, *args)
    if name == "startswith":
        return s_startswith(s, *args)
    if name == "endswith":
        return s_endswith(s, *args)
    if name == "find":
        return s_find(s, *args)
    if name == "rfind":
        return s_rfind(s, *args)
    if name == "split":
        return s_split(s, *args)
    if name == "replace":
        return s_replace(s, *args)
    if name == "ljust":
        return s_ljust(s, *args)
    if name == "rjust":
        return s_rjust(s, *args)
    if name == "join":
        return s_join(s, list(interp.iterate(args[0])))
    if name == "format":
        return s_format(interp, recv, args, kwargs)
    raise EngineError("str method %s on symbolic string" % name)


_fmt = string.Formatter()


def format_value(interp, v, spec, conv=None):
    """format(v, spec) -> str | SStr"""
    if conv == "r":
        v = interp.py_repr(v)
    elif conv == "s":
        v = interp.py_str(v)
    if isinstance(v, (SymInt, SymBool)):
        if isinstance(v, SymBool):
            v = Ite(v, 1, 0)
        fill, align, width, typ = " ", None, 0, "d"
        sp = spec
        if sp and sp[-1] in "dXxs":
            typ = sp[-1]
            sp = sp[:-1]
        if len(sp) >= 2 and sp[1] in "<>^=":
            fill, align = sp[0], sp[1]
            sp = sp[2:]
        elif len(sp) >= 1 and sp[0] in "<>^=":
            align = sp[0]
            sp = sp[1:]
        if sp.startswith("0") and align is None:
            fill, align = "0", ">"
            sp = sp[1:]
        if sp:
            if not sp.isdigit():
                raise EngineError("format spec %r for symbolic int" % spec)
            width = int(sp)
        if typ == "X":
            body = render_int(v, 16, True)
        elif typ == "x":
            body = render_int(v, 16, False)
        else:
            body = render_int(v, 10)
        body = SStr.of(body)
        if width > len(body):
            pad = [ord(fill)] * (width - len(body))
            if align in (None, ">", "="):
                chars = pad + body.chars
            elif align == "<":
                chars = body.chars + pad
            else:
                raise EngineError("center align")
            return SStr(chars, origin=body.origin)
        return body
    if isinstance(v, SStr):
        if spec == "":
            return v
        # precision / width for strings: [[fill]align][width][.precision]
        sp = spec
        fill, align, width, prec = " ", "<", 0, None
        if len(sp) >= 2 and sp[1] in "<>^":
            fill, align = sp[0], sp[1]
            sp = sp[2:]
        elif len(sp) >= 1 and sp[0] in "<>^":
            align = sp[0]
            sp = sp[1:]
        if "." in sp:
            w, p = sp.split(".")
            prec = int(p.rstrip("s"))
            sp = w
        sp = sp.rstrip("s")
        if sp:
            width = int(sp)
        chars = v.chars if prec is None else v.chars[:prec]
        if width > len(chars):
            pad = [ord(fill)] * (width - len(chars))
            chars = chars + pad if align == "<" else pad + chars
        return SStr(chars).norm()
    # concrete python value or interpreter object
    if isinstance(v, (int, str, float, bool)) or v is None:
        return format(v, spec)
    s = interp.py_str(v)
    if isinstance(s, SStr):
        return format_value(interp, s, spec)
    return format(s, spec)


def s_format(interp, fmt, args, kwargs):
    if not isinstance(fmt, str):
        fmt = SStr.of(fmt).norm()
        if not isinstance(fmt, str):
            raise EngineError("symbolic format string")
    out = []
    auto = 0
    for lit, field, spec, conv in _fmt.parse(fmt):
        if lit:
            out.append(lit)
        if field is None:
            continue
        if field == "":
            v = args[auto]
            auto += 1
        elif field.isdigit():
            v = args[int(field)]
        else:
            v = kwargs[field]
        if spec and "{" in spec:
            # nested replacement field in the spec
            sub = []
            for l2, f2, s2, c2 in _fmt.parse(spec):
                if l2:
                    sub.append(l2)
                if f2 is not None:
                    if f2 == "":
                        sv = args[auto]
                        auto += 1
                    else:
                        sv = args[int(f2)]
                    sub.append(format(sv, s2 or ""))
            spec = "".join(sub)
        out.append(format_value(interp, v, spec or "", conv))
    if all(isinstance(x, str) for x in out):
        return "".join(out)
    chars = []
    origin = None
    for x in out:
        sx = SStr.of(x)
        chars.extend(sx.chars)
        if len(out) == 1:
            origin = sx.origin
    return SStr(chars, origin=origin).norm() if origin is None else SStr(chars, origin=origin)
