"""
Check driver:   python -m pyvc.runner <PROP> --quick|--thorough      (see /verif/check)

exit 0  property held on everything explored (KNOWN-FINDING lines allowed)
exit 1  VIOLATION property=<id> replay=<path>   (natively replayed, or `no-failing-input-found`)
exit 2  undecided obligations (solver unknown / timeout), no violation
exit 3  checker error (engine limit, unsupported construct, spurious counterexample of an inlined lemma)
"""
import argparse
import hashlib
import importlib
import json
import multiprocessing as mp
import os
import re
import sys
import time
import traceback

ROOT = os.path.dirname(os.path.dirname(os.path.abspath(__file__)))
REPO = os.environ.get("VERIF_REPO", "/repo")

LEMMA_MODULES = ["lemmas.asm_forms", "lemmas.asm_special", "lemmas.asm_data", "lemmas.asm_expr", "lemmas.asm_layout", "lemmas.asm_passes", "lemmas.asm_symbols", "lemmas.asm_addr", "lemmas.asm_text",
                 "lemmas.tape", "lemmas.tape_reader", "lemmas.tape_bridge", "lemmas.disk", "lemmas.disk_wtg", "lemmas.disk_addfile", "lemmas.disk_reader", "lemmas.disk_bridge", "lemmas.vfile", "lemmas.cli", "lemmas.frames", "lemmas.meta", "lemmas.include"]


def all_lemmas():
    out = []
    for mn in LEMMA_MODULES:
        try:
            mod = importlib.import_module(mn)
        except ModuleNotFoundError as e:
            if e.name == mn:
                continue
            raise
        out.extend(mod.LEMMAS)
    return out


_W = {}


def _winit():
    sys.setrecursionlimit(300000)
    import z3  # noqa
    _W["lemmas"] = {l.name: l for l in all_lemmas()}
    _W["interp"] = None


def _interp():
    from .interp import Interp
    if _W.get("interp") is None:
        _W["interp"] = Interp(REPO)
    return _W["interp"]


def _wrun(task):
    lname, cell, timeout_ms = task
    from .core import explore_cell
    lemma = _W["lemmas"][lname]
    t0 = time.time()
    try:
        fresh = getattr(lemma, "fresh_interp", False)
        if fresh:
            _W["interp"] = None
        r = explore_cell(lemma, cell, _interp(), timeout_ms=timeout_ms,
                         max_paths=getattr(lemma, "max_paths", 4000))
        d = {"lemma": lname, "cell": cell["id"], "paths": r.paths, "aborted": r.aborted, "queries": r.queries,
             "solver_s": r.solver_s, "wall_s": r.wall_s, "clauses": r.clauses, "failures": r.failures,
             "undecided": r.undecided, "errors": r.errors, "notes": sorted(set(r.notes)),
             "pathsig": sorted(r.pathsigs)[:3], "bounded": cell.get("bounded")}
    except Exception as e:  # noqa
        d = {"lemma": lname, "cell": cell["id"], "paths": 0, "aborted": 0, "queries": 0, "solver_s": 0, "wall_s": time.time() - t0,
             "clauses": {}, "failures": [], "undecided": [], "errors": ["worker crash: %s\n%s" % (e, traceback.format_exc()[-1200:])],
             "notes": [], "pathsig": [], "bounded": cell.get("bounded")}
    return d


def source_hashes():
    out = {}
    for dp, dn, fn in os.walk(REPO):
        if ".git" in dp or "/test" in dp:
            continue
        for f in fn:
            if f.endswith(".py"):
                p = os.path.join(dp, f)
                rel = os.path.relpath(p, REPO)
                if rel.startswith("test"):
                    continue
                with open(p, "rb") as fh:
                    out[rel] = hashlib.sha256(fh.read()).hexdigest()[:16]
    return out


def load_known():
    p = os.path.join(ROOT, "known_findings.json")
    if not os.path.exists(p):
        return {"known": [], "fixed": []}
    with open(p) as f:
        return json.load(f)


PROOF_STEP = re.compile(r"::loop\d+::(inv-init|inv-step|variant|decreases)\b")


def fail_key(lemma, cell, f):
    return "%s|%s|%s|%s" % (lemma, cell, f["clause"], f.get("signature"))


def _tree_hash(root, subdirs, skip_tests=False):
    h = hashlib.sha256()
    for sd in subdirs:
        base = os.path.join(root, sd)
        if os.path.isfile(base):
            files = [base]
        else:
            files = []
            for dp, dn, fn in os.walk(base):
                dn[:] = sorted(d for d in dn if d not in (".git", "__pycache__", "test", ".work", ".venv", "replays", "evidence"))
                for f in sorted(fn):
                    if f.endswith(".py"):
                        files.append(os.path.join(dp, f))
        for p in sorted(files):
            h.update(os.path.relpath(p, root).encode())
            with open(p, "rb") as fh:
                h.update(fh.read())
    return h.hexdigest()[:20]


def cache_dir():
    """results are a deterministic function of (repo sources, verifier sources, cell, timeout): memoised on disk so that
    the checks of several properties that share a lemma do not recompute its cells.  VERIF_NOCACHE=1 disables."""
    if os.environ.get("VERIF_NOCACHE"):
        return None
    key = _tree_hash(REPO, ["."]) + "-" + _tree_hash(ROOT, ["pyvc", "lemmas", "specs", "contracts"])
    base = os.path.join(ROOT, ".work", "cache")
    d = os.path.join(base, key)
    os.makedirs(d, exist_ok=True)
    try:
        olds = sorted((os.path.getmtime(os.path.join(base, x)), x) for x in os.listdir(base) if x != key)
        import shutil
        for _, x in olds[:-3]:
            shutil.rmtree(os.path.join(base, x), ignore_errors=True)
    except OSError:
        pass
    return d


def _cache_path(cdir, task):
    lname, cell, timeout_ms = task
    k = hashlib.sha1(("%s|%s|%d|%s" % (lname, cell["id"], timeout_ms, json.dumps(cell, sort_keys=True, default=str))).encode()).hexdigest()
    return os.path.join(cdir, "%s-%s.json" % (lname, k))


def run_property(prop, tier, seed, jobs=None, only=None, timeout_ms=None):
    t0 = time.time()
    lemmas = [l for l in all_lemmas() if prop in l.props]
    timeout_ms = timeout_ms or (10000 if tier == "quick" else 60000)
    tasks = []
    for l in lemmas:
        if hasattr(l, "seed"):
            l.seed = seed
        for c in l.cells(tier):
            if only and not re.search(only, c["id"]):
                continue
            cp = c.get("props")
            if cp is not None and prop not in cp:
                continue
            tasks.append((l.name, c, timeout_ms))
    jobs = jobs or min(16, os.cpu_count() or 4)
    results = []
    cdir = cache_dir()
    todo = []
    cache_hits = 0
    for t in tasks:
        if cdir:
            cp = _cache_path(cdir, t)
            if os.path.exists(cp):
                try:
                    with open(cp) as fh:
                        results.append(json.load(fh))
                    cache_hits += 1
                    continue
                except Exception:  # noqa
                    pass
        todo.append(t)
    all_tasks = tasks
    tasks = todo
    fresh = []
    if tasks:
        if os.environ.get("VERIF_INPROC"):
            _winit()
            fresh = [_wrun(t) for t in tasks]
        else:
            from .pool import run_tasks
            limit = int(os.environ.get("VERIF_CELL_LIMIT", "150" if tier == "quick" else "900"))
            for idx, status, payload in run_tasks(_wrun, tasks, jobs, init=_winit, limit_s=limit):
                if status == "done":
                    fresh.append(payload)
                else:
                    t = tasks[idx]
                    d = {"lemma": t[0], "cell": t[1]["id"], "paths": 0, "aborted": 0, "queries": 0, "solver_s": 0, "wall_s": 0,
                         "clauses": {}, "failures": [], "undecided": [], "errors": [], "notes": [], "pathsig": [],
                         "bounded": t[1].get("bounded")}
                    if status == "watchdog":
                        d["clauses"] = {"cell-watchdog": {"status": "undecided", "props": sorted(set(
                            p for l in all_lemmas() if l.name == t[0] for p in l.props)), "n": 1, "ms": limit * 1000.0}}
                        d["undecided"] = [{"clause": "cell-watchdog", "reason": payload}]
                        # the symbolic exploration did not finish: look for a concrete witness with the lemma's probes
                        try:
                            from .core import probe_cell
                            lem = [l for l in all_lemmas() if l.name == t[0]][0]
                            pr = probe_cell(lem, t[1])
                            d["failures"] = pr.failures
                        except Exception as e:  # noqa
                            d["errors"] = ["probe after watchdog failed: %s" % e]
                    else:
                        d["errors"] = ["worker %s: %s" % (status, payload)]
                    fresh.append(d)
        results.extend(fresh)
    if cdir:
        byid = {(t[0], t[1]["id"]): t for t in tasks}
        for r in fresh:
            t = byid.get((r["lemma"], r["cell"]))
            if t is None or r["errors"] or "cell-watchdog" in r["clauses"]:
                continue
            try:
                with open(_cache_path(cdir, t), "w") as fh:
                    json.dump(r, fh, default=str)
            except Exception:  # noqa
                pass
    s = summarize(prop, tier, seed, lemmas, all_tasks, results, time.time() - t0)
    s["cache_hits"] = cache_hits
    return s


def summarize(prop, tier, seed, lemmas, tasks, results, wall):
    known = load_known()
    kn = [k for k in known.get("known", []) if prop in ([k["property"]] + k.get("also", []))]
    for k in kn:
        k["_rx"] = re.compile(k["pattern"])
        k["_hits"] = 0
    n_obl = n_dis = n_failed_known = n_und = 0
    bounded_obl = bounded_dis = 0
    violations, spurious, errors, undecided = [], [], [], []
    samples = []
    solver_s = 0.0
    queries = 0
    paths = 0
    by_clause = {}
    pathsigs = set()
    allkeys = []
    for r in results:
        solver_s += r["solver_s"]
        queries += r["queries"]
        paths += r["paths"]
        pathsigs.update((r["lemma"], x) for x in r["pathsig"])
        for e in r["errors"]:
            errors.append("%s/%s: %s" % (r["lemma"], r["cell"], e))
        relevant = {c: v for c, v in r["clauses"].items() if prop in v["props"]}
        for c, v in relevant.items():
            name = "%s/%s::%s" % (r["lemma"], r["cell"], c)
            bc = by_clause.setdefault(c, {"obligations": 0, "discharged": 0})
            if r.get("bounded"):
                bounded_obl += 1
                if v["status"] == "discharged":
                    bounded_dis += 1
            else:
                n_obl += 1
                bc["obligations"] += 1
                if v["status"] == "discharged":
                    n_dis += 1
                    bc["discharged"] += 1
            if v["status"] == "undecided":
                n_und += 1
                undecided.append(name)
            if len(samples) < 6 and v["status"] == "discharged" and (len(samples) < 3 or v["ms"] > 1):
                samples.append({"obligation": name, "status": "unsat (discharged)", "paths": v["n"], "ms": round(v["ms"], 2)})
        for f in r["failures"]:
            if prop not in f["props"]:
                continue
            key = fail_key(r["lemma"], r["cell"], f)
            f["_key"] = key
            f["_cell"] = r["cell"]
            f["_lemma"] = r["lemma"]
            allkeys.append(f)
            if f["native"] in ("confirmed",):
                hit = None
                for k in kn:
                    if k["_rx"].search(key):
                        hit = k
                        break
                if hit is not None:
                    hit["_hits"] += 1
                    n_failed_known += 1
                else:
                    violations.append(f)
            elif f["native"] == "no-native-counterpart":
                # a failed obligation without a replayable input (frame / ghost obligations): still a violation
                hit = None
                for k in kn:
                    if k["_rx"].search(key):
                        hit = k
                        break
                if hit is not None:
                    hit["_hits"] += 1
                    n_failed_known += 1
                elif PROOF_STEP.search(f["clause"]):
                    # a loop invariant / variant of MY proof is not re-established and no input fails natively (the probes ran):
                    # the proof does not go through for this code -- undecided, never a violation (the counter-model of an
                    # inductive step need not be a reachable state; a restructured loop fails here although nothing is wrong)
                    n_und += 1
                    undecided.append("%s/%s::%s" % (r["lemma"], r["cell"], f["clause"]))
                else:
                    f["_nofail"] = True
                    violations.append(f)
            elif f["native"] == "spurious" or f["native"] == "confirmed-other-clause":
                spurious.append(f)
            else:
                errors.append("%s: replay %s %s" % (key, f["native"], f.get("info")))
    out = {"prop": prop, "tier": tier, "seed": seed, "wall": wall, "n_obl": n_obl, "n_dis": n_dis, "n_known": n_failed_known,
           "n_und": n_und, "violations": violations, "spurious": spurious, "errors": errors, "undecided": undecided,
           "samples": samples, "solver_s": solver_s, "queries": queries, "paths": paths, "cells": len(results),
           "by_clause": by_clause, "known": kn, "lemmas": [l.name for l in lemmas], "bounded_obl": bounded_obl,
           "bounded_dis": bounded_dis, "distinct_paths": len(pathsigs), "tasks": len(tasks), "allfail": allkeys}
    return out


def write_replay(prop, n, f):
    d = os.path.join(ROOT, "replays", prop)
    os.makedirs(d, exist_ok=True)
    p = os.path.join(d, "%03d.json" % n)
    body = {"property": prop, "obligation": "%s/%s::%s" % (f["_lemma"], f["_cell"], f["clause"]), "lemma": f["_lemma"],
            "cell": f["_cell"], "clause": f["clause"], "holes": f["holes"], "native": f["native"],
            "signature": f.get("signature"), "input": f.get("info"), "replayed": f["native"] == "confirmed",
            "sources": source_hashes()}
    with open(p, "w") as fh:
        json.dump(body, fh, indent=1, default=str)
    return os.path.relpath(p, ROOT)


def report(s, manifest_level):
    """print lines, write evidence, return exit code"""
    prop = s["prop"]
    code = 0
    nrep = 0
    for k in s["known"]:
        if k["_hits"] > 0:
            print("KNOWN-FINDING: property=%s %s" % (prop, k["what"]))
    vio_keys = set()
    for f in s["violations"]:
        k2 = (f["_lemma"], f["clause"], f.get("signature"))
        if k2 in vio_keys:
            continue
        vio_keys.add(k2)
        nrep += 1
        path = write_replay(prop, nrep, f)
        print("VIOLATION property=%s replay=%s%s" % (prop, path, " no-failing-input-found" if f.get("_nofail") else ""))
        print("  obligation %s/%s::%s  %s" % (f["_lemma"], f["_cell"], f["clause"], f.get("signature")))
        code = 1
        if nrep >= 40:
            break
    if s["spurious"] and code == 0:
        for f in s["spurious"][:5]:
            print("CHECKER-ERROR: refuted obligation does not fail natively: %s holes=%s" % (f["_key"], f["holes"]))
        code = 3
    if s["errors"] and code == 0:
        for e in s["errors"][:8]:
            print("CHECKER-ERROR: %s" % e)
        code = 3
    if s["n_und"]:
        for u in s["undecided"][:8]:
            print("UNDECIDED: %s" % u)
        if code == 0:
            code = 2
    if s["n_obl"] + s["bounded_obl"] == 0 and code == 0:
        print("CHECKER-ERROR: zero obligations generated for %s" % prop)
        code = 3
    write_evidence(s, manifest_level, code)
    print("%s %s: %d obligations, %d discharged, %d refuted+known, %d undecided, %d violations, %d spurious, %d errors; bounded %d/%d; "
          "%d cells, %d paths, %d queries, solver %.1fs, wall %.1fs -> exit %d" %
          (prop, s["tier"], s["n_obl"], s["n_dis"], s["n_known"], s["n_und"], len(s["violations"]), len(s["spurious"]), len(s["errors"]),
           s["bounded_dis"], s["bounded_obl"], s["cells"], s["paths"], s["queries"], s["solver_s"], s["wall"], code))
    if os.environ.get("VERIF_DEBUG"):
        for e in s["errors"][:20]:
            print("  ERR", e)
        for f in s["spurious"][:20]:
            print("  SPURIOUS", f["_key"], f["holes"], f.get("info"))
    return code


ASSUMPTIONS = [
    "A1 z3 is sound; the VC generator (pyvc AST interpreter + symbolic models) implements Python's semantics for the repo's subset "
    "(cross-checked: concrete-mode conformance suite, native replay of every counterexample)",
    "A2 source text is ASCII; \\w \\d \\s are their ASCII classes; regex engine semantics as modelled in pyvc/rx.py",
    "A3 external functions (open, os.path.exists, sys.exit, print, argparse) follow their assumed ghost-filesystem contracts",
    "A4 the spec library (specs/*.py) is the intended reading of the MC6809 data sheet / CoCo tape format / Disk BASIC layout",
    "A5 Python ints are mathematical integers (exact, no machine arithmetic)",
]


def write_evidence(s, level, code):
    prop = s["prop"]
    os.makedirs(os.path.join(ROOT, "evidence"), exist_ok=True)
    p = os.path.join(ROOT, "evidence", "%s.json" % prop)
    all_ok = s["n_obl"] > 0 and s["n_dis"] == s["n_obl"]
    cov = {
        "obligations": s["n_obl"], "discharged": s["n_dis"],
        "refuted_known_findings": s["n_known"], "undecided": s["n_und"], "refuted_new": len(s["violations"]),
        "checker_cmd": "./check %s --%s" % (prop, s["tier"]),
        "trusted_base": ["z3 5.1.0 (in-process, per-query timeout)", "pyvc AST->VC generator (this repository)", "specs/*.py oracles",
                         "CPython 3.12.1 for concrete sub-computations and native replay"],
        "backends": {"z3-5.1.0": s["n_dis"]},
        "solver_seconds": round(s["solver_s"], 2), "solver_queries": s["queries"],
        "cells": s["cells"], "paths": s["paths"], "lemmas": s["lemmas"],
        "by_clause": s["by_clause"],
        "bounded_obligations": s["bounded_obl"], "bounded_discharged": s["bounded_dis"],
        "evaluations": s["paths"], "distinct_nontrivial": s["distinct_paths"],
        "rule": "one evaluation = one symbolic path of one cell through the real code; distinct = distinct (lemma, hash of the last "
                "path-condition conjuncts) pairs, at most 3 recorded per cell (conservative)",
        "samples": s["samples"] or [{"note": "no discharged obligation this run"}],
        "known_findings_matched": [k["what"] for k in s["known"] if k["_hits"]],
        "explanation": "%d unbounded obligations generated from the current /repo sources, %d discharged by z3, %d refuted with a natively "
                       "replayed counterexample and matched to known_findings.json, %d undecided, %d new refutations; bounded stand-in "
                       "obligations (never counted as proved): %d of %d hold" %
                       (s["n_obl"], s["n_dis"], s["n_known"], s["n_und"], len(s["violations"]), s["bounded_dis"], s["bounded_obl"]),
        "sources": source_hashes(),
        "cells_reused_from_cache": s.get("cache_hits", 0),
    }
    # functions under contract: every function of /repo for which a pre / post / invariant / frame clause was generated this run;
    # assumed contracts: callees replaced by their contract at a call site (each is proved by its own cell, listed in the same way)
    fns, assumed = set(), set()
    for k in s["by_clause"]:
        parts = k.split("::")
        if len(parts) >= 3 and parts[0].endswith(".py"):
            fns.add(parts[0] + "::" + parts[1])
            if parts[2].startswith("pre@call"):
                assumed.add(parts[0] + "::" + parts[1])
    cov["functions_under_contract"] = sorted(fns)
    cov["callee_contracts_used_at_call_sites"] = sorted(assumed)
    lvl = level
    if level == "proof" and not all_ok:
        lvl = "other"
    ev = {"property_id": prop, "tier": s["tier"], "seed": s["seed"], "level": lvl, "coverage": cov,
          "assumptions": ASSUMPTIONS, "wall_s": round(s["wall"], 2), "violations": len(s["violations"]), "exit_code": code}
    with open(p, "w") as f:
        json.dump(ev, f, indent=1, default=str)


def manifest_level(prop):
    try:
        with open(os.path.join(ROOT, "MANIFEST.json")) as f:
            m = json.load(f)
        for c in m["checks"]:
            if c["property_id"] == prop:
                return c["level_claimed"]["category"]
    except Exception:  # noqa
        pass
    return "other"


def main(argv=None):
    ap = argparse.ArgumentParser()
    ap.add_argument("prop")
    ap.add_argument("--quick", action="store_true")
    ap.add_argument("--thorough", action="store_true")
    ap.add_argument("--jobs", type=int, default=None)
    ap.add_argument("--only", default=None, help="regex on cell ids (development)")
    ap.add_argument("--dump", default=None, help="write raw failure keys to this file (development)")
    a = ap.parse_args(argv)
    tier = "thorough" if a.thorough else "quick"
    if os.environ.get("VERIF_TIER") in ("quick", "thorough") and not (a.quick or a.thorough):
        tier = os.environ["VERIF_TIER"]
    seed = int(os.environ.get("VERIF_SEED", "1"))
    sys.setrecursionlimit(300000)
    s = run_property(a.prop, tier, seed, jobs=a.jobs, only=a.only)
    if a.dump:
        with open(a.dump, "w") as f:
            for v in s["allfail"]:
                f.write(json.dumps({"key": v["_key"], "lines": (v.get("info") or {}).get("lines"), "native": v.get("native")}) + "\n")
    code = report(s, manifest_level(a.prop))
    sys.stdout.flush()
    os._exit(code)


if __name__ == "__main__":
    main()
