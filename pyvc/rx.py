"""
Backtracking regex matcher over char-vector strings (SStr) with symbolic characters.
The pattern AST comes from CPython's own parser (re._parser), so the patterns of the repo
are never re-typed.  Character-class tests on symbolic chars go through sym.branch(), i.e.
they fork the path when the path condition does not decide them.  Greedy/leftmost semantics
follow the backtracking order of CPython's engine.  Concrete strings never come here: they are
matched by `re` itself.  (DESIGN 2.5 item 3: \\w, \\d, \\s are the ASCII classes.)
"""
import re._parser as sre_parse
import re._constants as C

from .sym import SStr, SymChar, branch, char_in_ranges, mks, Not, EngineError
import z3

WORD = [(48, 57), (65, 90), (97, 122), (95, 95)]
DIGIT = [(48, 57)]
SPACE = [(9, 13), (32, 32), (28, 31)]

_cache = {}


def parsed(pattern):
    if pattern not in _cache:
        p = sre_parse.parse(pattern)
        _cache[pattern] = (list(p), dict(p.state.groupdict))
    return _cache[pattern]


def _in_test(c, items):
    """char c (int|SymChar) against an IN item list -> bool|SymBool"""
    negate = False
    ranges = []
    for op, arg in items:
        if op is C.NEGATE:
            negate = True
        elif op is C.LITERAL:
            ranges.append((arg, arg))
        elif op is C.RANGE:
            ranges.append((arg[0], arg[1]))
        elif op is C.CATEGORY:
            if arg is C.CATEGORY_WORD:
                ranges += WORD
            elif arg is C.CATEGORY_DIGIT:
                ranges += DIGIT
            elif arg is C.CATEGORY_SPACE:
                ranges += SPACE
            else:
                raise EngineError("regex category %s" % arg)
        else:
            raise EngineError("regex IN item %s" % op)
    if isinstance(c, int) and c >= 128:
        import re
        ok = False
        ch = chr(c)
        for op, arg in items:
            if op is C.CATEGORY:
                pat = {C.CATEGORY_WORD: r"\w", C.CATEGORY_DIGIT: r"\d", C.CATEGORY_SPACE: r"\s"}[arg]
                ok = ok or bool(re.match(pat, ch))
        r = ok or any(lo <= c <= hi for lo, hi in ranges)
    else:
        r = char_in_ranges(c, ranges)
    return Not(r) if negate else r


def _char_test(c, op, arg):
    if op is C.LITERAL:
        return char_in_ranges(c, [(arg, arg)])
    if op is C.NOT_LITERAL:
        return Not(char_in_ranges(c, [(arg, arg)]))
    if op is C.ANY:
        return Not(char_in_ranges(c, [(10, 10)]))
    if op is C.IN:
        return _in_test(c, arg)
    return None


class _Matcher:
    def __init__(self, chars):
        self.s = chars
        self.n = len(chars)

    def seq(self, items, i, pos, groups, k):
        """match items[i:] at pos, then continuation k(pos, groups) -> result or None"""
        if i == len(items):
            return k(pos, groups)
        op, arg = items[i]
        if op is C.AT:
            if arg is C.AT_BEGINNING:
                ok = pos == 0
            elif arg is C.AT_END:
                if pos == self.n:
                    ok = True
                elif pos == self.n - 1:
                    ok = branch(char_in_ranges(self.s[pos], [(10, 10)]))
                else:
                    ok = False
            elif arg is C.AT_BEGINNING_STRING:
                ok = pos == 0
            elif arg is C.AT_END_STRING:
                ok = pos == self.n
            else:
                raise EngineError("regex AT %s" % arg)
            return self.seq(items, i + 1, pos, groups, k) if ok else None
        if op in (C.LITERAL, C.NOT_LITERAL, C.ANY, C.IN):
            if pos >= self.n:
                return None
            if branch(_char_test(self.s[pos], op, arg)):
                return self.seq(items, i + 1, pos + 1, groups, k)
            return None
        if op is C.SUBPATTERN:
            gid, _a, _d, sub = arg
            sub = list(sub)
            start = pos

            def after(p, g):
                g2 = dict(g)
                if gid is not None:
                    g2[gid] = (start, p)
                return self.seq(items, i + 1, p, g2, k)
            return self.seq(sub, 0, pos, groups, after)
        if op is C.BRANCH:
            for alt in arg[1]:
                r = self.seq(list(alt), 0, pos, groups, lambda p, g: self.seq(items, i + 1, p, g, k))
                if r is not None:
                    return r
            return None
        if op in (C.MAX_REPEAT, C.MIN_REPEAT):
            lo, hi, sub = arg
            sub = list(sub)
            greedy = op is C.MAX_REPEAT
            single = len(sub) == 1 and sub[0][0] in (C.LITERAL, C.NOT_LITERAL, C.ANY, C.IN)
            if single and greedy:
                # greedy run of single chars: extend as far as possible, then back off
                sop, sarg = sub[0]
                p = pos
                cnt = 0
                while p < self.n and (hi is C.MAXREPEAT or cnt < hi):
                    if not branch(_char_test(self.s[p], sop, sarg)):
                        break
                    p += 1
                    cnt += 1
                while cnt >= lo:
                    r = self.seq(items, i + 1, pos + cnt, groups, k)
                    if r is not None:
                        return r
                    cnt -= 1
                return None

            def rep(count, p, g):
                def more():
                    if hi is not C.MAXREPEAT and count >= hi:
                        return None

                    def cont(p2, g2):
                        if p2 == p:      # empty iteration: stop
                            return None
                        return rep(count + 1, p2, g2)
                    return self.seq(sub, 0, p, g, cont)

                def done():
                    if count < lo:
                        return None
                    return self.seq(items, i + 1, p, g, k)
                if greedy:
                    r = more()
                    return r if r is not None else done()
                r = done()
                return r if r is not None else more()
            return rep(0, pos, groups)
        raise EngineError("regex op %s" % op)


def match(pattern, s, search=False):
    """s: SStr.  Returns (groups: {idx:(start,end)}, names, (start,end)) or None."""
    items, names = parsed(pattern)
    m = _Matcher(s.chars)
    starts = range(0, len(s.chars) + 1) if search else [0]
    for st in starts:
        r = m.seq(items, 0, st, {}, lambda p, g: (g, p))
        if r is not None:
            g, end = r
            return g, names, (st, end)
    return None
