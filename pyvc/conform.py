"""
Conformance of the AST interpreter (concrete mode) against CPython running the real modules.
A disagreement is a checker error (exit 3), never a verdict.   DESIGN 2.5.

  python -m pyvc.conform [--seed N] [--n N]
"""
import os
import random
import re
import sys
import signal

from .interp import Interp
from .objs import PyRaise, Obj
from . import sym

REPO = os.environ.get("VERIF_REPO", "/repo")

MNEMS = ["LDA", "LDB", "LDX", "LDD", "LDY", "LDS", "LDU", "STA", "STX", "STY", "CMPX", "CMPD", "CMPS", "ADDD", "JMP",
         "JSR", "LEAX", "LEAY", "LEAS", "NEG", "CLR", "TST", "ASL", "ANDCC", "CWAI", "SUBA", "EORB", "NOP", "SWI",
         "SWI2", "SYNC", "RTS", "BRA", "BEQ", "LBRA", "LBNE", "BSR", "LBSR", "PSHS", "PULU", "PSHU", "TFR", "EXG",
         "FCB", "FDB", "FCC", "RMB", "EQU", "ORG", "END", "SETDP", "NAM", "SET", "ABX", "MUL", "INCA", "STD", "STS"]
REGS = ["X", "Y", "U", "S", "PC", "PCR", "A", "B", "D", "CC", "DP", "Z"]


def rnd_num(r):
    k = r.randrange(9)
    v = r.choice([0, 1, 15, 16, 17, 127, 128, 129, 255, 256, 257, 32767, 32768, 65535, 65536, r.randrange(70000)])
    if k == 0:
        return "$%X" % v
    if k == 1:
        return "$%04x" % (v & 0xFFFF)
    if k == 2:
        return "%" + format(v & 0xFF, "08b")
    if k == 3:
        return "%" + format(v & 0xFFFF, "016b")
    if k == 4:
        return "-%d" % v
    if k == 5:
        return "'" + r.choice("AZaz09!#;,")
    if k == 6:
        return "$%02X" % (v & 0xFF)
    return "%d" % v


def rnd_operand(r, labels):
    def val():
        k = r.randrange(6)
        if k == 0 and labels:
            return r.choice(labels)
        if k == 1 and labels:
            return r.choice(labels) + r.choice("+-*/") + rnd_num(r)
        if k == 2:
            return rnd_num(r) + r.choice("+-*/") + rnd_num(r)
        if k == 3 and labels:
            return rnd_num(r) + r.choice("+-*/") + r.choice(labels)
        return rnd_num(r)
    k = r.randrange(16)
    if k == 0:
        return ""
    if k == 1:
        return "#" + val()
    if k == 2:
        return r.choice(["<", ">", ""]) + val()
    if k == 3:
        return "[" + val() + "]"
    if k == 4:
        return r.choice(["", val(), "A", "B", "D"]) + "," + r.choice(REGS)
    if k == 5:
        return "," + r.choice(["X+", "X++", "-X", "--X", "Y+", "--S", "U++", "-Y"])
    if k == 6:
        return "[" + r.choice(["", val(), "A", "B", "D"]) + "," + r.choice(REGS + ["X+", "X++", "-X", "--X"]) + "]"
    if k == 7:
        return ",".join(r.choice(REGS) for _ in range(r.randrange(1, 5)))
    if k == 8:
        return ",".join(val() for _ in range(r.randrange(1, 5)))
    if k == 9:
        d = r.choice("\"/'|")
        return d + "".join(r.choice("AB c;,1") for _ in range(r.randrange(0, 6))) + r.choice([d, d, d, ""])
    if k == 10:
        return val() + ",PCR"
    if k == 11:
        return "".join(r.choice("[],#<>$%'+-*/AXY1F@") for _ in range(r.randrange(1, 5)))
    if k == 12 and labels:
        return r.choice(labels)
    return val()


def rnd_program(r):
    n = r.randrange(1, 7)
    labels = ["L%d" % i for i in range(r.randrange(0, 4))]
    unused = list(labels)
    lines = []
    for i in range(n):
        lab = ""
        if unused and r.random() < 0.6:
            lab = unused.pop(0)
        m = r.choice(MNEMS)
        if r.random() < 0.05:
            m = m.lower()
        op = rnd_operand(r, labels + (["UNDEF"] if r.random() < 0.05 else []))
        com = r.choice(["", "", " ; a comment", " comment without semi", " ;x;y"])
        sep = r.choice([" ", "  ", "\t"])
        lines.append("%s%s%s%s%s%s\n" % (lab, sep, m, sep, op, com))
    if r.random() < 0.1:
        lines.insert(r.randrange(len(lines) + 1), r.choice(["\n", "; only comment\n", "   \n", "garbage\n"]))
    return lines


class _Timeout(Exception):
    pass


def _alarm(signum, frame):
    raise _Timeout()


def native_asm(lines):
    from cocoasm.program import Program
    signal.signal(signal.SIGALRM, _alarm)
    signal.setitimer(signal.ITIMER_REAL, 0.5)
    try:
        p = Program()
        p.process(list(lines))
        out = ("ok", p.get_binary_array(), p.get_statements(), p.get_symbol_table(),
               p.origin.hex() if p.origin is not None else None, p.name)
    except _Timeout:
        out = ("timeout",)
    except Exception as e:       # noqa
        out = ("exc", type(e).__name__, str(e))
    finally:
        signal.setitimer(signal.ITIMER_REAL, 0)
    return out


def interp_asm(it, lines):
    sym.set_path(sym.Path())
    it.steps = 0
    it.step_limit = 300000
    it.unroll_limit = 3000
    Program = it.get("cocoasm.program", "Program")
    try:
        p = it.call(Program, [], {})
        it.call(it.getattr_(p, "process"), [list(lines)], {})
        b = it.call(it.getattr_(p, "get_binary_array"), [], {})
        st = it.call(it.getattr_(p, "get_statements"), [], {})
        sy = it.call(it.getattr_(p, "get_symbol_table"), [], {})
        org = it.getattr_(p, "origin")
        orgh = it.call(it.getattr_(org, "hex"), [], {})
        return ("ok", b, st, sy, orgh, it.getattr_(p, "name"))
    except PyRaise as pr:
        return ("exc", pr.exc.cls.name, it._print_str(pr.exc))
    except sym.EngineError as e:
        if "limit" in str(e):
            return ("timeout",)
        raise
    finally:
        it.step_limit = None


def native_files(kind, files):
    from cocoasm.virtualfiles.cassette import CassetteFile
    from cocoasm.virtualfiles.disk import DiskFile
    from cocoasm.virtualfiles.coco_file import CoCoFile
    from cocoasm.values import NumericValue
    try:
        c = CassetteFile() if kind == "cas" else DiskFile()
        fl = [CoCoFile(name=n, extension=e, type=NumericValue(t), data_type=NumericValue(dt),
                       load_addr=NumericValue(la), exec_addr=NumericValue(ea), data=list(d)) for (n, e, t, dt, la, ea, d) in files]
        c.add_files(fl)
        buf = list(c.get_buffer())
        c2 = CassetteFile(buffer=list(buf)) if kind == "cas" else DiskFile(buffer=list(buf))
        got = [(f.name, f.extension, f.type.int, f.data_type.int, f.load_addr.int, f.exec_addr.int, list(f.data))
               for f in c2.list_files()]
        return ("ok", buf, got)
    except Exception as e:   # noqa
        return ("exc", type(e).__name__, str(e))


def interp_files(it, kind, files):
    sym.set_path(sym.Path())
    it.unroll_limit = 400000
    it.step_limit = None
    mod = "cocoasm.virtualfiles.cassette" if kind == "cas" else "cocoasm.virtualfiles.disk"
    C = it.get(mod, "CassetteFile" if kind == "cas" else "DiskFile")
    CoCoFile = it.get("cocoasm.virtualfiles.coco_file", "CoCoFile")
    NV = it.get("cocoasm.values", "NumericValue")
    try:
        c = it.call(C, [], {})
        fl = [it.call(CoCoFile, [], dict(name=n, extension=e, type=it.call(NV, [t], {}), data_type=it.call(NV, [dt], {}),
                                         load_addr=it.call(NV, [la], {}), exec_addr=it.call(NV, [ea], {}), data=list(d)))
              for (n, e, t, dt, la, ea, d) in files]
        it.call(it.getattr_(c, "add_files"), [fl], {})
        buf = list(it.call(it.getattr_(c, "get_buffer"), [], {}))
        c2 = it.call(C, [], {"buffer": list(buf)})
        got = []
        for f in it.call(it.getattr_(c2, "list_files"), [], {}):
            g = lambda k: it.getattr_(f, k)
            got.append((g("name"), g("extension"), g("type").fields["int"], g("data_type").fields["int"],
                        g("load_addr").fields["int"], g("exec_addr").fields["int"], list(g("data"))))
        return ("ok", buf, got)
    except PyRaise as pr:
        return ("exc", pr.exc.cls.name, it._print_str(pr.exc))


def rnd_files(r, kind):
    out = []
    for _ in range(r.randrange(0, 4)):
        ln = r.choice([0, 1, 2, 254, 255, 256, 509, 510, 511, 2293, 2294, 2299, 2304, 4603, 5000, r.randrange(3000)])
        if kind == "cas":
            ln = min(ln, 600)
        t = r.choice([0, 1, 2, 2, 2, 3])
        dt = r.choice([0, 0xFF])
        name = "".join(r.choice("ABCxyz019") for _ in range(r.randrange(0, 11)))
        ext = "".join(r.choice("ABCbin") for _ in range(r.randrange(0, 4)))
        data = [r.choice([0x55, 0x3C, 0, 1, 0xFF, r.randrange(256)]) for _ in range(ln)]
        out.append((name, ext, t, dt, r.randrange(65536), r.randrange(65536), data))
    return out


def regex_conformance(r, n):
    """own matcher vs re on random concrete strings wrapped so that the matcher is really used"""
    from . import rx
    from .sym import SStr
    import importlib
    sys.path.insert(0, REPO)
    pats = []
    for modname in ("cocoasm.values", "cocoasm.statement", "cocoasm.operands"):
        m = importlib.import_module(modname)
        for k, v in vars(m).items():
            if isinstance(v, re.Pattern):
                pats.append((k, v))
    alpha = "AaZz09_@ \t\n;,$%'#<>[]+-*/.\"Xf1"
    bad = 0
    for _ in range(n):
        s = "".join(r.choice(alpha) for _ in range(r.randrange(0, 9)))
        for name, p in pats:
            for search in (False, True):
                want = p.search(s) if search else p.match(s)
                got = rx.match(p.pattern, SStr([ord(c) for c in s]), search)
                if (want is None) != (got is None):
                    print("REGEX MISMATCH", name, repr(s), search)
                    bad += 1
                    continue
                if want is not None:
                    g, names, span = got
                    for i in range(1, p.groups + 1):
                        ws = want.span(i)
                        gs = g.get(i, (-1, -1))
                        if ws != gs:
                            print("REGEX GROUP MISMATCH", name, repr(s), i, ws, gs)
                            bad += 1
    return bad, len(pats)


def main(argv=None):
    import argparse
    ap = argparse.ArgumentParser()
    ap.add_argument("--seed", type=int, default=int(os.environ.get("VERIF_SEED", "1")))
    ap.add_argument("--n", type=int, default=400)
    a = ap.parse_args(argv)
    sys.setrecursionlimit(200000)
    sys.path.insert(0, REPO)
    r = random.Random(a.seed)
    it = Interp(REPO)
    bad = 0
    stats = {"ok": 0, "exc": 0, "timeout": 0}
    for i in range(a.n):
        lines = rnd_program(r)
        want = native_asm(lines)
        got = interp_asm(it, lines)
        stats[want[0]] += 1
        if want[0] == "timeout" or got[0] == "timeout":
            if want[0] != got[0]:
                print("TIMEOUT MISMATCH", lines, want[0], got[0])
                bad += 1
            continue
        if want != got:
            bad += 1
            print("ASM MISMATCH", lines)
            print("  native:", want[:3] if want[0] == "exc" else want)
            print("  interp:", got[:3] if got[0] == "exc" else got)
    nf = 0
    for i in range(max(6, a.n // 20)):
        for kind in ("cas", "dsk"):
            files = rnd_files(r, kind)
            want = native_files(kind, files)
            got = interp_files(it, kind, files)
            nf += 1
            if want != got:
                bad += 1
                print("FILES MISMATCH", kind, [(f[0], f[2], f[3], len(f[6])) for f in files])
                print("  native:", want[0], want[1] if want[0] == "exc" else len(want[1]))
                print("  interp:", got[0], got[1] if got[0] == "exc" else len(got[1]))
    rb, npat = regex_conformance(r, a.n)
    bad += rb
    print("conformance: %d programs %s, %d file sets, %d regex patterns x %d strings, mismatches=%d" % (a.n, stats, nf, npat, a.n, bad))
    return 3 if bad else 0


if __name__ == "__main__":
    sys.exit(main())
