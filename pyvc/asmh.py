"""
Assembler harness: run the REAL assembler pipeline (Program.process / get_binary_array /
listing data) on a list of source lines, symbolically (AST interpreter) or natively (CPython on
the real modules), and return a uniform view for the lemma bodies.
"""
import os
import signal
import sys

from . import sym
from .sym import EngineError, SStr
from .objs import PyRaise, Obj

DIAG = ("ParseError", "TranslationError")


class StmtView:
    __slots__ = ("address", "size", "bytes", "label", "mnemonic", "is_org", "operand_cls")

    def __repr__(self):
        return "Stmt(%s@%s size=%s bytes=%s)" % (self.mnemonic, self.address, self.size, self.bytes)


class AsmRun:
    def __init__(self):
        self.status = None        # ok | diag | escape | hang
        self.exc_class = None
        self.exc_msg = None
        self.exc_site = None
        self.exc_phase = None
        self.stmts = []
        self.image = None
        self.symbols = {}
        self.origin = None
        self.name = None
        self.listing = None
        self.prog = None
        self.shared_writes = []
        self.heap_writes = 0

    def __repr__(self):
        if self.status == "ok":
            return "AsmRun(ok image=%s)" % (self.image,)
        return "AsmRun(%s %s: %s)" % (self.status, self.exc_class, self.exc_msg)


STEP_LIMIT = 6000000


def assemble(env, lines, want_listing=False, fs=None, bytes_of=None, session=None):
    """bytes_of: indices of the statements whose emitted bytes are wanted (default: all).
    session: a dict shared by several calls that are to run like successive assemblies of ONE process in ONE working directory
    (natively: the directory is created, populated and entered by the first call and left / removed by end_session)"""
    if env.mode == "sym":
        return _assemble_sym(env, lines, want_listing, fs, bytes_of)
    return _assemble_native(env, lines, want_listing, fs, bytes_of, session)


def end_session(session):
    if session and session.get("dir"):
        os.chdir(session["home"])
        import shutil
        shutil.rmtree(session["dir"], ignore_errors=True)
        session.clear()


def _assemble_sym(env, lines, want_listing, fs, bytes_of=None):
    it = env.interp
    r = AsmRun()
    Program = it.get("cocoasm.program", "Program")
    it.fs = dict(fs or {})
    from .frames import FrameMonitor
    lines = list(lines)
    it.get("cocoasm.program", "Program")
    mon = FrameMonitor(it, inputs=[lines])
    old_wh = it.write_hook
    it.write_hook = mon.hook
    lines_before = list(lines)
    cwd_before = it.cwd
    it.steps = 0
    it.step_limit = STEP_LIMIT
    old_unroll = it.unroll_limit
    it.unroll_limit = 70000
    it.while_limit = 300
    try:
        prog = it.call(Program, [], {})
        try:
            it.call(it.getattr_(prog, "process"), [lines], {})
            r.status = "ok"
        except PyRaise as pr:
            r.exc_class = pr.exc.cls.name
            r.exc_msg = it._print_str(pr.exc) if pr.exc.cls.name != "SystemExit" else "exit"
            r.exc_site = pr.site
            r.status = "diag" if r.exc_class in DIAG else "escape"
            return r
        except EngineError as e:
            if "limit" in str(e):
                r.status = "hang"
                r.exc_msg = str(e)
                return r
            raise
        r.prog = prog
        stmts = it.getattr_(prog, "statements")
        for si, s in enumerate(stmts):
            v = StmtView()
            pkg = it.getattr_(s, "code_pkg")
            addr = it.getattr_(pkg, "address")
            v.address = addr.fields["int"] if addr.cls.name != "NoneValue" else None
            v.size = it.getattr_(pkg, "size")
            v.label = it.getattr_(s, "label")
            v.mnemonic = it.getattr_(s, "mnemonic")
            ins = it.getattr_(s, "instruction")
            v.is_org = ins.fields["is_origin"]
            v.operand_cls = it.getattr_(s, "operand").cls.name
            if bytes_of is not None and si not in bytes_of:
                v.bytes = None
                r.stmts.append(v)
                continue
            sub = it.call(Program, [], {})
            it.setattr_(sub, "statements", [s])
            try:
                v.bytes = list(it.call(it.getattr_(sub, "get_binary_array"), [], {}))
            except PyRaise as pr:
                r.status = "escape"
                r.exc_class = pr.exc.cls.name
                r.exc_msg = "get_binary_array: " + it._print_str(pr.exc)
                r.exc_site = pr.site
                return r
            r.stmts.append(v)
        r.image = [b for v in r.stmts for b in v.bytes] if bytes_of is None else None
        for k, val in it.getattr_(prog, "symbol_table").items():
            r.symbols[k] = val.fields["int"] if isinstance(val, Obj) and "int" in val.fields else None
        org = it.getattr_(prog, "origin")
        r.origin = org.fields["int"] if org.cls.name != "NoneValue" else None
        r.name = it.getattr_(prog, "name")
        if want_listing:
            try:
                r.listing = it.call(it.getattr_(prog, "get_statements"), [], {})
            except PyRaise as pr:
                r.status = "escape"
                r.exc_class = pr.exc.cls.name
                r.exc_msg = "get_statements: " + it._print_str(pr.exc)
        return r
    finally:
        it.step_limit = None
        it.unroll_limit = old_unroll
        it.write_hook = old_wh
        if it.cwd != cwd_before:
            mon.violations.append("the run leaves the process working directory changed (%r -> %r)" % (cwd_before, it.cwd))
        r.shared_writes = sorted(set(mon.violations))
        r.heap_writes = mon.writes
        same = len(lines) == len(lines_before) and all(a is b for a, b in zip(lines, lines_before))
        # C17 frame obligations of this run (no native counterpart: CPython cannot observe write targets)
        env.ensure("C17:frame:no-write-to-shared-or-input-objects", not r.shared_writes, ("C17",),
                   internal="frame:" + "; ".join(r.shared_writes)[:300])
        env.ensure("C17:input-lines-unmodified", same, ("C17",), internal="frame:input list modified")


class _Alarm(BaseException):     # not an Exception: the code under test has broad `except Exception` handlers
    pass


def _on_alarm(signum, frame):
    raise _Alarm()


def _native_modules():
    repo = os.environ.get("VERIF_REPO", "/repo")
    if repo not in sys.path:
        sys.path.insert(0, repo)
    import cocoasm.program as P
    return P


def _assemble_native(env, lines, want_listing, fs, bytes_of=None, session=None):
    P = _native_modules()
    r = AsmRun()
    cwd = os.getcwd()
    tmpd = None
    if session is not None and session.get("dir"):
        fs = None                      # the session's directory is already populated and entered; stay wherever the code left us
    if fs:
        import tempfile
        work = os.path.join(os.path.dirname(os.path.dirname(os.path.abspath(__file__))), ".work")
        os.makedirs(work, exist_ok=True)
        tmpd = tempfile.mkdtemp(dir=work)
        for k, v in fs.items():
            if os.path.dirname(k):
                os.makedirs(os.path.join(tmpd, os.path.dirname(k)), exist_ok=True)
            with open(os.path.join(tmpd, k), "w") as f:
                f.write("".join(v))
        os.chdir(tmpd)
        if session is not None:
            session["dir"], session["home"] = tmpd, cwd
            tmpd = None                # kept until end_session
    old = signal.signal(signal.SIGALRM, _on_alarm)
    signal.setitimer(signal.ITIMER_REAL, 3.0)
    lines = list(lines)
    lines_before = list(lines)
    try:
        prog = P.Program()
        try:
            prog.process(lines)
            r.status = "ok"
        except _Alarm:
            r.status = "hang"
            r.exc_msg = "no result after 3 s of CPU on the real code"
            return r
        except Exception as e:  # noqa
            r.exc_class = type(e).__name__
            r.exc_msg = str(e)
            r.status = "diag" if r.exc_class in DIAG else "escape"
            try:
                fr = []
                t = e.__traceback__
                while t is not None:
                    co = t.tb_frame.f_code
                    if "cocoasm" in co.co_filename or co.co_filename.endswith("assembler.py"):
                        fr.append("%s:%s" % (os.path.basename(co.co_filename), getattr(co, "co_qualname", co.co_name)))
                    t = t.tb_next
                r.exc_site = "<".join(reversed(fr[-2:]))
                # the PHASE in which it happened: the outermost public method below Program.process (stable under extraction of
                # helpers and renaming of private functions)
                names = [x.split(":", 1)[1] for x in fr]
                below = names[names.index("Program.process") + 1:] if "Program.process" in names else names
                pub = [n for n in below if "<" not in n and not n.split(".")[-1].startswith("_")]
                r.exc_phase = pub[0] if pub else (below[0] if below else None)
            except Exception:  # noqa
                r.exc_site = None
            return r
        except RecursionError as e:
            r.exc_class = "RecursionError"
            r.status = "escape"
            return r
        r.prog = prog
        for si, s in enumerate(prog.statements):
            v = StmtView()
            v.address = s.code_pkg.address.int if not s.code_pkg.address.is_none() else None
            v.size = s.code_pkg.size
            v.label = s.label
            v.mnemonic = s.mnemonic
            v.is_org = s.instruction.is_origin
            v.operand_cls = type(s.operand).__name__
            if bytes_of is not None and si not in bytes_of:
                v.bytes = None
                r.stmts.append(v)
                continue
            sub = P.Program()
            sub.statements = [s]
            try:
                v.bytes = list(sub.get_binary_array())
            except Exception as e:  # noqa
                r.status = "escape"
                r.exc_class = type(e).__name__
                r.exc_msg = "get_binary_array: %s" % e
                return r
            r.stmts.append(v)
        r.image = [b for v in r.stmts for b in v.bytes] if bytes_of is None else None
        for k, val in prog.symbol_table.items():
            r.symbols[k] = getattr(val, "int", None)
        r.origin = prog.origin.int if not prog.origin.is_none() else None
        r.name = prog.name
        if want_listing:
            try:
                r.listing = prog.get_statements()
            except Exception as e:  # noqa
                r.status = "escape"
                r.exc_class = type(e).__name__
                r.exc_msg = "get_statements: %s" % e
        return r
    except _Alarm:
        r.status = "hang"
        r.exc_msg = "no result after 3 s of CPU on the real code"
        return r
    finally:
        signal.setitimer(signal.ITIMER_REAL, 0)
        signal.signal(signal.SIGALRM, old)
        env.ensure("C17:frame:no-write-to-shared-or-input-objects", True, ("C17",))
        env.ensure("C17:input-lines-unmodified", lines == lines_before, ("C17",), lambda: "input lines modified")
        if tmpd:
            os.chdir(cwd)
            import shutil
            shutil.rmtree(tmpd, ignore_errors=True)
