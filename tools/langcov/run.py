import sys, importlib, traceback
sys.path.insert(0, "/verif"); sys.path.insert(0, "/verif/tools/langcov")
import snips
from pyvc.interp import Interp
from pyvc.objs import PyRaise
from pyvc.sym import EngineError, Path, set_path
it = Interp("/verif/tools/langcov")
set_path(Path())
names = [n for n in dir(snips) if n.startswith("t_")]
bad = 0
def norm(v):
    if isinstance(v, (list, tuple)): return [norm(x) for x in v]
    if isinstance(v, dict): return {k: norm(x) for k, x in v.items()}
    if isinstance(v, (set, frozenset)): return sorted(norm(x) for x in v)
    if isinstance(v, bytearray): return list(v)
    return v
for n in names:
    want = norm(getattr(snips, n)())
    try:
        got = norm(it.call(it.get("snips", n), [], {}))
        if got != want:
            bad += 1; print("DIFF", n, "\n   got ", got, "\n   want", want)
    except EngineError as e:
        bad += 1; print("ENGINE", n, str(e)[:150])
    except PyRaise as e:
        bad += 1; print("RAISE", n, str(e)[:150])
    except Exception as e:
        bad += 1; print("CRASH", n, type(e).__name__, str(e)[:150])
print("%d of %d snippets differ" % (bad, len(names)))
