import os
import re


def t_rfind(): return "a/b/c".rfind("/"), "abc".rfind("z"), "a/b/c".rindex("/")
def t_index(): return "hello".index("l"), [1, 2, 3].index(2)
def t_count(): return "banana".count("an"), [1, 1, 2].count(1)
def t_isx(): return "12".isdigit(), "ab".isalpha(), "a1".isalnum(), " ".isspace(), "AB".isupper(), "ab".islower()
def t_pad(): return "7".zfill(3), "ab".rjust(4, "."), "ab".center(6, "*"), "ab".ljust(4)
def t_case(): return "hello world".title(), "hello".capitalize(), "Ab".swapcase(), "AbC".lower(), "abc".upper()
def t_part(): return "a=b=c".partition("="), "a=b=c".rpartition("="), "a\nb".splitlines()
def t_strip(): return " a ".lstrip(), " a ".rstrip(), "xxaxx".strip("x"), "a,b".split(","), "a b  c".split(), "a,b,c".rsplit(",", 1)
def t_startswith(): return "abc".startswith(("x", "a")), "abc".endswith("bc"), "abc".startswith("b", 1)
def t_join(): return ",".join(["a", "b"]), "".join(reversed("abc")), "-".join(str(i) for i in range(3))
def t_fmt(): return "{:04X}".format(255), "%04x" % 255, f"{255:02X}", "{0}-{1}".format("a", 1), "%s=%d" % ("a", 1), f"{'x':>3}|", "{:>5}".format("ab"), "{:,d}".format(161280)
def t_list():
    a = [3, 1, 2]
    a.sort(); b = a.copy(); b.insert(0, 9); b.remove(1); c = b.pop(); b.reverse(); a.extend([7, 8]); a += [5]
    return a, b, c, sorted([3, 1], reverse=True), a[::2], a[::-1], a[-2:], list(reversed(a))
def t_dict():
    d = {"a": 1}
    d.setdefault("b", 2); d.update({"c": 3}); x = d.pop("a"); g = d.get("zz", 5)
    return sorted(d.items()), list(d.keys()), list(d.values()), x, g, "b" in d, len(d), {k: v * 2 for k, v in d.items()}
def t_builtins(): return min(3, 1), max([1, 5]), sum([1, 2]), abs(-3), round(2.5), round(7 / 2), divmod(7, 2), int("ff", 16), int("101", 2), hex(255), bin(5), chr(65), ord("A"), bool([]), tuple([1, 2]), len("abc"), str(12), repr("a"), 7 // 2, -7 // 2, 7 % 3, -7 % 3, 2 ** 10, int(7 / 2), int(-7 / 2)
def t_iter(): return list(zip([1, 2], "ab")), list(enumerate("ab", 1)), any([0, 1]), all([1, 0]), list(map(str, [1, 2])), list(filter(None, [0, 1, 2])), [x for x in range(5) if x % 2], {x for x in (1, 1, 2)}, list(range(5, 0, -2))
def t_isinstance(): return isinstance(1, int), isinstance("a", (int, str)), hasattr("a", "upper"), getattr("a", "zzz", None), type(1) == int, type("a") is str
def t_ternary(): return (1 if [] else 2), (lambda x, y=2: x + y)(1), [i for i in range(3)][-1]
def t_unpack():
    a, *b = [1, 2, 3]
    (c, d), e = (1, 2), 3
    return a, b, c, d, e
def t_chain(): return 1 < 2 < 3, 1 < 3 < 2, 1 == 1 != 2, not (1 and 0), 5 if 0 or None else 6
def t_bits(): return 0xF0 & 0x3C, 0xF0 | 0x0F, 0xFF ^ 0x0F, ~5, 1 << 4, 256 >> 2, (0x1234 >> 8) & 0xFF, 0x1234 & 0xFF
def t_while_else():
    n = 0
    while n < 3:
        n += 1
    else:
        n += 10
    for i in range(3):
        if i == 5:
            break
    else:
        n += 100
    return n
def t_try():
    out = []
    try:
        int("x")
    except ValueError as e:
        out.append("ve")
    else:
        out.append("else")
    finally:
        out.append("fin")
    try:
        [][1]
    except (IndexError, KeyError):
        out.append("ie")
    return out
def t_assert():
    assert 1 == 1, "ok"
    try:
        assert 1 == 2, "bad"
    except AssertionError as e:
        return str(e)
def t_closure():
    def mk(n):
        def inc(x):
            return x + n
        return inc
    return mk(3)(4)
def t_global():
    global _G
    _G = 5
    return _G
def t_nested_comp(): return [[i * j for j in range(2)] for i in range(3)], [(i, j) for i in range(2) for j in range(2) if i != j]
def t_bytes(): return list(bytearray([65, 66])), bytearray([65, 66]).decode("utf-8"), bytes([1, 2])[1], list("ab".encode("utf-8")), len(bytearray(3))
def t_ospath(): return os.path.basename("/a/b.c"), os.path.splitext("x.asm"), os.path.join("a", "b"), os.path.dirname("/a/b")
def t_re():
    m = re.match(r"^(?P<a>\w+)\s+(?P<b>\d+)$", "abc 12")
    return m.group("a"), m.group("b"), bool(re.search(r"\d", "a1")), re.sub(r"\d", "#", "a1b2"), re.split(r",\s*", "a, b,c"), re.findall(r"\d+", "a1b22")
def t_slice_assign():
    a = [1, 2, 3, 4]
    a[1:3] = [9]
    del a[0]
    return a
def t_aug():
    a = [1, 2]; d = {"k": 1}
    a[0] += 5; d["k"] *= 3
    class O: pass
    o = O(); o.x = 1; o.x += 2
    return a, d, o.x
def t_classes():
    class A:
        k = 1
        def __init__(self, v): self.v = v
        @property
        def dbl(self): return self.v * 2
        @staticmethod
        def s(x): return x + 1
        @classmethod
        def c(cls): return cls.k
        def __eq__(self, o): return self.v == o.v
        def __repr__(self): return "A(%d)" % self.v
    class B(A):
        def __init__(self, v): super().__init__(v + 1)
    return A(2).dbl, A.s(1), B.c(), B(1).v, A(1) == A(1), repr(A(3)), str(A(3)), isinstance(B(1), A)
def t_str_mul(): return "ab" * 2, [0] * 3, "a" + "b", "abc"[1], "abc"[-1], "abcdef"[1:4], "abc" < "abd", "b" in "abc", "abc".replace("b", "x"), "a b".split(" ")
def t_walrus():
    if (n := len("abc")) > 2:
        return n
def t_star_call():
    def f(a, b, *c, d=4, **e): return a, b, c, d, sorted(e.items())
    return f(1, *[2, 3], **{"d": 5, "z": 6})
def t_minmax_key(): return max(["a", "bbb"], key=len), sorted(["b", "A"], key=str.lower), min([3, 1], default=0)
def t_int_str(): return int(" 12 "), int("-5"), str(-5), "%d" % -5, float("1.5"), int(1.9), "{:.1f}".format(1.25)
def t_none(): return None is None, None == 0, [None] * 2, (None or 3)
def t_set(): 
    s = set([1, 2]); s.add(3); s.discard(1)
    return sorted(s), 2 in s, sorted(s | {9}), sorted(s & {2}), len(s)
def t_alias_iadd():
    a = [1, 2]; b = a
    b += [3]                      # list += extends IN PLACE: visible through a
    t = (1,); u = t
    u += (2,)                     # tuple += rebinds
    s = "x"; r = s
    r += "y"
    class H:
        def __init__(self): self.items = []
    h = H(); keep = h.items
    h.items += [7, 8]
    d = {"k": [0]}; same = d["k"]
    d["k"] += [1]
    def grow(lst):
        lst += [9]
        return lst
    g = [5]; g2 = grow(g)
    m = [1]; n = m
    n *= 2
    return a, b, a is b, t, u, s, r, keep, h.items is keep, same, d["k"] is same, g, g2 is g, m, n is m
def t_alias_plus():
    a = [1, 2]; b = a
    b = b + [3]                   # + builds a new list
    def f(x=[]):
        x.append(1)
        return x
    c = f(); e = f()
    p = q = []
    p.append(1)
    z = a[:]; z.append(9)
    return a, b, c, e, c is e, q, a, z
def t_alias_setdict():
    s = {1}; t = s
    t |= {2}
    d = {"a": 1}; e = d
    e |= {"b": 2}
    return sorted(s), s is t, sorted(d.items()), d is e
def t_bit_length(): return (0).bit_length(), (1).bit_length(), (255).bit_length(), (256).bit_length(), (-5).bit_length(), ((0).bit_length() + 3) // 4, ((4096).bit_length() + 3) // 4
