#!/usr/bin/env python3
"""
Writes /verif/known_findings.json from the reviewed table below.  (Development-time tool: the checks never
write that file.)  Every `known` entry is a genuine defect of craigthomas/CoCoAssembler that was confirmed by
replaying a witness on the real code; `pattern` is a regular expression over the failure key
    <lemma>|<cell id>|<clause>|<native failure signature>
so an entry covers exactly one root cause in one family of cells; anything else that fails is a VIOLATION.
"""
import json
import os

ROOT = os.path.dirname(os.path.dirname(os.path.abspath(__file__)))

K = []


def known(prop, pattern, what, witness, also=()):
    K.append({"property": prop, "also": list(also), "pattern": pattern, "what": what, "witness": witness})


# ------------------------------------------------------------------------------------------------ assembler: operand forms
known("C01", r"^asm_forms\|idx0bare/[^|]*\|C01:accepted\|idx0bare:\w+:rejected:TranslationError",
      "zero-offset indexed operand written as a bare register (README: `LDB X`) is rejected as an undefined symbol",
      {"asm": [" LDB X"]})
known("C01", r"^asm_forms\|[^|]*/neg\d/\w+/equ\|(C01:decodes|C02:size|C12:rejected)\|[^|]*:(meaning:[^:]*|undecodable:truncated operand|size=\d,len=\d|accepted-invalid):val=-\d+\.\.-\d+:inv=",
      "an EQU symbol defined with a negative literal keeps only the magnitude (V EQU -1 ... #V encodes +1)",
      {"asm": ["V EQU -1", " LDA #V"]}, also=("C02", "C04", "C12"))
known("C01", r"^asm_forms\|\[?pcr\]?/-/[^|]*\|(C01:decodes|C02:size|C12:\w+)\|\[?pcr\]?:\w+:",
      "numeric n,PCR / [n,PCR] operands: 0 is encoded as ,X; 128..255 and negative values use an 8-bit field that cannot hold "
      "them; 4-digit hex offsets emit one byte; negative values reserve too few bytes",
      {"asm": [" LDA 200,PCR"]}, also=("C02", "C03", "C12"))
known("C01", r"^asm_forms\|imm/-/neg\d/\w+\|C01:decodes\|imm:\w+:meaning:imm16:val=-",
      "a negative literal as 16-bit immediate is encoded as its 8-bit two's complement, zero extended (LDX #-1 -> 8E 00 FF)",
      {"asm": [" LDX #-1"]})
known("C01", r"^asm_forms\|imm/-/[^|]*/equ\|(C01:decodes|C02:size|C12:\w+)\|imm:\w+:(undecodable:truncated operand|size=\d,len=\d|malformed)",
      "16-bit immediate whose operand is an EQU symbol below $100 emits one operand byte (LDX #V, V EQU 5 -> 8E 05)",
      {"asm": ["V EQU 5", " LDX #V"]}, also=("C02", "C04", "C12"))
known("C01", r"^asm_forms\|mem>/[^|]*\|C01:decodes\|mem>:\w+:meaning:dir",
      "the > prefix (force extended) is ignored when the value is spelled with 8 bits or comes from a small EQU (LDA >$10 -> 96 10)",
      {"asm": [" LDA >$10"]})
known("C12", r"^asm_forms\|imm/-/[^|]*\|C12:(rejected|wellformed)\|imm:\w+:(accepted-invalid|malformed):val=[^:]*:inv=(hi8|lo8):",
      "an immediate value that does not fit an 8-bit register is accepted (LDA #256 -> 86 01 00; LDA #-129 -> 86 FF 7F)",
      {"asm": [" LDA #256"]}, also=("C01",))
known("C12", r"^asm_forms\|mem</[^|]*\|C12:(rejected|wellformed)\|mem<:\w+:(accepted-invalid|malformed):val=[^:]*:inv=(hi8|negaddr):",
      "<n with n above $FF (or negative) is accepted and emits a 16-bit address behind a direct-mode opcode (LDA <$1234 -> 96 12 34)",
      {"asm": [" LDA <$1234"]})
known("C12", r"^asm_forms\|(mem|mem>|ind\[\])/[^|]*/neg\d/[^|]*\|C12:(rejected|wellformed)\|[^|]*:(accepted-invalid|malformed):val=-[^:]*:inv=negaddr:",
      "negative literals as addresses (LDA -1, LDA >-1, LDA [-1]) are accepted", {"asm": [" LDA -1"]})
known("C12", r"^asm_forms\|[^|]*/(B[A-Z]{2}|LB[A-Z]{2,3})(/equ)?\|C12:(rejected|wellformed)\|[^|]*:(B[A-Z]{2}|LB[A-Z]{2,3}):(accepted-invalid|malformed):val=[^:]*:inv=(nomode|form):",
      "a branch instruction accepts any operand text (numbers, indexed forms, brackets): it is encoded as a branch to statement 0",
      {"asm": [" BRA 5", " NOP"]}, also=("C03",))
known("C12", r"^asm_forms\|bad/[^|]*\|C12:(rejected|wellformed)\|bad/[^:]+:\w+:(accepted-invalid|malformed):val=[^:]*:inv=form:",
      "an unknown, missing or malformed index register (5,Z  ,W  ,X+++  A,  5,PC) is not rejected: the operand is encoded as if it "
      "named X / had no offset", {"asm": [" LDA 5,Z"]})
# ------------------------------------------------------------------------------------------------ labels below $100 / layout
known("C02", r"^asm_layout\|abs/[^|]*\|(C02:size|C02:chain|C01:label-operand|C02:symbol-value)\|abs/[^:]+:\w+:\w+:.*:T=<256$",
      "a label or address operand below $100 is emitted in one byte although two (or three) bytes are reserved: sizes, later "
      "addresses and symbol values disagree with the image (JMP L with L < $100)",
      {"asm": ["L NOP", " JMP L"]}, also=("C01", "C04", "C12", "C18"))
known("C02", r"^asm_layout\|placement/(code-before-org|second-org)\|C02:rejected-or-contiguous\|",
      "code before ORG, or a second ORG, is accepted although the image is not contiguous from the reported origin",
      {"asm": [" NOP", " ORG $1000", "T NOP", " JMP T"]})
known("C02", r"^asm_layout\|placement/org-low\|C02:rejected-or-contiguous\|",
      "origin below $100: label operands are emitted in one byte, so the image no longer matches the listing addresses",
      {"asm": [" ORG 0", "T NOP", " LDX #T", " JMP T"]})
known("C02", r"^asm_layout\|symbols/undef/(fcb|fdb|rmb|org)(/other-symbols)?\|C02:rejected\|symbols/undef/(fcb|fdb|rmb|org):accepted$",
      "the operands of FCB / FDB / RMB / ORG are never resolved against the symbol table: a name that is never defined is "
      "silently assembled as 0 instead of being rejected", {"asm": [" ORG $3000", " FDB UNDEF", " RTS"]}, also=("C05",))
known("C02", r"^asm_layout\|symbols/undef/equ(/other-symbols)?\|C02:rejected\|symbols/undef/equ:accepted$",
      "V EQU UNDEF with an undefined name is accepted as long as V itself is not used",
      {"asm": [" ORG $3000", "V EQU UNDEF", " RTS"]})
known("C02", r"^asm_data\|RMB/size/dec5\|(C05:rmb-reserves-n|C02:next-address)\|RMB:(size|next)=",
      "RMB with a count above 65535 is accepted and reserves nothing",
      {"asm": [" RMB 70009", " NOP"]}, also=("C05",))

# ------------------------------------------------------------------------------------------------ branches / PCR
known("C03", r"^asm_layout\|rel8/\w+/(fwd|bwd)/\w+\|C03:short-range-rejected\|rel:\w+:\w+:out-of-range-accepted",
      "a short branch whose target is outside -128..+127 is accepted and the displacement wraps",
      {"asm": [" BRA T", " RMB 200", "T NOP"]}, also=("C12",))
known("C03", r"^asm_layout\|\[?pcr\]?/\w+/bwd/[^|]*\|C03:target\|[^:]+:bwd:wrong-target:pcr8:n=(120\.\.124|125\.\.127)$",
      "backward label,PCR at distance -129..-131: the size estimate forgets the statement's own bytes, the 8-bit form is chosen and "
      "cannot hold the displacement",
      {"asm": ["T NOP", " RMB 125", " LDA T,PCR"]}, also=("C01", "C04"))
known("C03", r"^asm_passes\|fn/determine_pcr_relative_sizes/bwd\|[^|]*::post:fits8-backward\|probe:\w+:bwd:\w+:n=\d+:at=126:pcr8$",
      "the same backward boundary defect at its call site (contract clause post:fits8-backward of determine_pcr_relative_sizes): "
      "min_size counts the bytes between target and statement + 2, the displacement is counted from the end of the 3-byte statement, "
      "so 126 bytes between give -129 in the 8-bit form", {"asm": ["T NOP", " RMB 125", " LDA T,PCR"]}, also=("C13", "C02", "C01"))
known("C03", r"^asm_passes\|fn/fix_addresses/pcr/\w+/hint\d\|[^|]*probe:pcr-target\|probe:\w+:fwd:org-after:n=\d+:at=-\d+:(pcr8|pcr16|undecodable)$",
      "a label,PCR reference whose span contains an ORG: the 8/16-bit form is chosen from the statement sizes in between (the address "
      "gap is ignored) while the displacement is computed from the addresses, so it lands in a field too narrow for it (LDA T,PCR / "
      "ORG $1400 / T NOP emits A6 8C 3FD); branches across an ORG sum the sizes only and miss the label's listing address",
      {"asm": [" ORG $1000", " LDA T,PCR", " ORG $1400", "T NOP"]}, also=("C01", "C02"))
known("C03", r"^asm_layout\|pcr[+-]c/\w+/(fwd|bwd)/[^|]*\|C03:target\|(pcr\+c/\w+:fwd:wrong-target:pcr8:n=(101\.\.119|120\.\.124)|pcr\+c/\w+:bwd:wrong-target:pcr16:n=(125\.\.127|128\.\.130|131\.\.255)|pcr-c/\w+:bwd:wrong-target:pcr(16:n=(125\.\.127|128\.\.130|131\.\.255|256\.\.32000|32001\.\.33000|33001\.\.1000000000)|8:n=(0\.\.100|101\.\.119|120\.\.124|125\.\.127))|pcr-c/\w+:fwd:wrong-target:pcr8:n=0\.\.100)$",
      "label+-constant,PCR: the constant is applied to the wrong quantity / the operand is mis-sized",
      {"asm": [" LDA T+7,PCR", " RMB 121", "T NOP"]}, also=("C01", "C04", "C02", "C13"))
known("C03", r"^asm_layout\|pcr-multi/\w+\|(C03:target|C02:\w+)\|pcr-multi/\w+:(wrong-target|size!=len|listing-address)",
      "several PCR statements: backward boundary case chooses the 8-bit form for a displacement below -128",
      {"asm": ["T NOP", "U NOP", " RMB 124", "A LDA [T,PCR]", " RMB 0", "B LDY U,PCR"]}, also=("C02",))

# ------------------------------------------------------------------------------------------------ expressions / symbols (C04)
known("C04", r"^asm_expr\|(imm8|imm16|mem|mem16|jmp|extind|idx|idx16)/(equ-(before|after)|label-(before|after)|num:\w+|equ-small)[-+*/](equ-(before|after)|label-(before|after)|num:\w+|equ-small)\|(C02:size|C04:value)\|[^|]*:(size=\d,len=\d|undecodable:[^|]*)",
      "operand width of a two-term EXPRESSION operand follows the magnitude or spelling of the value instead of the instruction "
      "(LDA #V+1 -> 3 bytes): size and bytes disagree",
      {"asm": ["V EQU $0199", " LDA #V+1"]}, also=("C02", "C12", "C01"))
known("C04", r"^asm_expr\|imm8/(equ-(before|after)|label-(before|after)|num:\w+|equ-small)\|(C02:size|C04:value)\|[^|]*:(size=\d,len=\d|undecodable:[^|]*):val=(256\.\.32767|32768\.\.65535|65536\.\.1000000000)$",
      "an 8-bit immediate whose operand is a symbol with a value above 255 is emitted with two operand bytes (LDA #V, V EQU $0199)",
      {"asm": ["V EQU $0199", " LDA #V"]}, also=("C02", "C12", "C01"))
known("C04", r"^asm_expr\|(imm16|mem|mem16|jmp|extind|idx|idx16)/(equ-(before|after)|label-(before|after)|num:\w+|equ-small)\|(C02:size|C04:value)\|[^|]*:(size=\d,len=\d|undecodable:[^|]*):val=(0\.\.0|1\.\.15|16\.\.127|128\.\.255)$",
      "a 16-bit operand position whose operand is a symbol with a value below $100 is emitted with one byte (LDX #V, JMP L below $100)",
      {"asm": ["V EQU 5", " LDX #V"]}, also=("C02", "C12", "C01"))
known("C04", r"^asm_expr\|(imm16|mem|mem16|jmp|extind)/[^|]*-[^|]*\|C04:value\|[^|]*:value-mismatch[^|]*:val=-",
      "a subtraction with a negative result is rendered as an 8-bit two's complement (or wraps wrongly) instead of the 16-bit value "
      "modulo 65536 or a rejection (LDX #5-9)", {"asm": [" LDX #$0099-$9A"]})
known("C04", r"^asm_expr\|\w+/[^|]*-label-(before|after)\|(C04:value|C04:accepted)\|",
      "number - label and EQU - label are computed as label - number", {"asm": ["L NOP", " LDX #$0100-L"]})
known("C04", r"^asm_expr\|\w+/label-(before|after)[+-]label-(before|after)\|(C04:value|C04:accepted)\|",
      "label + label / label - label use the second label's statement index instead of its address", {"asm": ["L NOP", "M NOP", " LDX #L+M"]})
known("C04", r"^asm_expr\|(fcb|fdb)/[^|]*\|C04:value\|(fcb|fdb):[^|]*:(value-mismatch|count=\d+)",
      "FCB / FDB with a symbol or an expression operand: symbols are not resolved / the result is rendered at the wrong width",
      {"asm": ["V EQU $000A", " FCB V"]}, also=("C05",))
known("C04", r"^asm_expr\|((fcb|fdb)/[^|]*\|C04:width\|[^|]*:unfit-accepted|imm16/[^|]*\|C04:width\|[^|]*:unfit-accepted:val=(65536\.\.|-1000000000\.\.)|imm8/[^|]*-[^|]*\|C04:width\|[^|]*:unfit-accepted:val=-32768\.\.-129)",
      "an expression result that does not fit the operand width is accepted (LDA #0-129)", {"asm": [" LDA #$00-129"]}, also=("C12",))
known("C04", r"^asm_expr\|equ/[^|]*\|C04:value\|equ:[^|]*:equ-(value=|symbol-has-no-value)",
      "EQU whose operand is a symbol or an expression gets the value 0 / no value", {"asm": ["V EQU $1234", "S EQU V"]})
known("C04", r"^asm_expr\|\w+/num:small/label-before\|(C04:value|C04:div-by-zero-rejected)\|\w+:num:small/label-before:(value-mismatch|div0-accepted)",
      "number / label is computed as label / number (9/L with L at address 0 is accepted and yields 0)", {"asm": [" ORG $0000", "L NOP", " LDX #9/L"]})
known("C04", r"^asm_expr\|(equ|fcb|fdb)/[^|]*\|C04:div-by-zero-rejected\|(equ|fcb|fdb):[^|]*:div0-accepted",
      "division by zero in an expression is not rejected with a diagnostic", {"asm": ["K EQU 0", " LDA #8/K"]}, also=("C13",))
known("C04", r"^asm_expr\|(extind|idx|idx16)/[^|]*label[^|]*\|C04:accepted\|[^|]*:rejected:TranslationError",
      "label +- constant inside [..] or as an index offset is rejected", {"asm": ["L NOP", " LDA [L+2]"]})
known("C13", r"^asm_expr\|([^|]*label-(before|after)[^|]*\|C13:no-internal-error\|[^|]*:escape:ValueTypeError|(idx|idx16)/label-(before|after)\|C13:no-internal-error\|[^|]*:escape:IndexError|(imm8|imm16|mem|mem16|jmp)/(label-(before|after)/(num:small|equ-small)|num:small/label-before)\|C13:no-internal-error\|[^|]*:escape:ZeroDivisionError)$",
      "internal errors escape from operands that contain an ADDRESS LABEL (they are evaluated after symbol resolution, outside its "
      "try block): L/0 -> ZeroDivisionError, label as index offset -> IndexError, label terms in FCB / FDB / EQU / wide results -> "
      "ValueTypeError; expressions without a label are diagnosed",
      {"asm": ["L NOP", " LDA #8/L"]}, also=("C04",))

# ------------------------------------------------------------------------------------------------ data directives (C05)
known("C05", r"^asm_data\|F[CD]B/\d+[^|]*\|C05:rejects-unfit\|(F[CD]B/1(/equ)?:accepted-unfit:truncated|FCB/([2-9]|\d\d):accepted-unfit:longer):",
      "FCB/FDB accept values that do not fit the directive's width (FCB 256 -> 10, FCB 1,256 emits three bytes)",
      {"asm": [" FCB 256"]}, also=("C12",))
known("C05", r"^asm_data\|F[CD]B/1/[^|]*\|C05:bytes\|F[CD]B/1:value-mismatch:vals=-\d+\.\.-\d+$",
      "FCB/FDB with a single negative value: the sign is lost (FCB -1 -> 01, FDB -300 -> 012C)", {"asm": [" FCB -1"]}, also=("C04", "C02"))
known("C05", r"^asm_data\|FDB/([2-9]|\d\d)/[^|]*\|C05:bytes\|FDB/([2-9]|\d\d):value-mismatch:vals=([^|]*,)?-(128\.\.-17|16\.\.-1)(,[^|]*)?$",
      "FDB lists: an element in -128..-1 is rendered as its 8-bit two's complement, zero extended (FDB 1,-2 -> 0001 00FE); "
      "elements below -128 and FCB lists are right", {"asm": [" FDB 1,-2"]}, also=("C04", "C02"))
known("C05", r"^asm_data\|F[CD]B/\d+/[^|]*equ[^|]*\|(C05:bytes|C02:size)\|F[CD]B/\d+/equ[^:]*:(value-mismatch|count=\d+,want=\d+|size=\d+,len=\d+)",
      "FCB/FDB: EQU symbols as elements are not resolved (emit 0)", {"asm": ["V EQU 5", " FCB V"]}, also=("C04", "C02"))
known("C05", r"^asm_data\|F[CD]B/\d+[^|]*\|C13:no-internal-error\|(FCB/([2-9]|\d\d):escape:IndexError:|F[CD]B/2/equ-first:escape:ValueTypeError:|F[CD]B/1(/equ)?:escape:ValueTypeError:vals=-1000000000\.\.-32769$)",
      "FCB/FDB lists with a value wider than the directive raise IndexError / ValueTypeError instead of a diagnostic",
      {"asm": [" FCB 1,256"]}, also=("C13",))
known("C05", r"^asm_data\|FCC/[^|]*\|(C05:fcc-bytes|C02:size|C05:accepted|C13:no-internal-error)\|[^|]*chars=(space(,[a-z,]*)?|([a-z,]*,)?space|[a-z,]*(semicolon|punct)[a-z,]*)$",
      "FCC does not emit exactly the characters between the delimiters when the string starts or ends with a space (stripped), "
      "contains ';' (dropped) or a punctuation character (a space is put in front / the string is rejected or crashes)",
      {"asm": [" FCC \"A;B\""]}, also=("C02", "C13"))
known("C05", r"^asm_data\|FCC/[^|]*\|C05:fcc-bytes\|FCC/[^:]*:count=\d+,want=\d+:chars=((alnum|punct|semicolon|quote|slash),)+space,space(,[a-z]+)*$",
      "FCC: the FIRST run of blanks inside the string is replaced by one blank (the text is split into operand and comment "
      "at white space and glued together again): FCC 'a  0' emits 'a 0'", {"asm": [" FCC 'a  0'"]}, also=("C02",))
known("C05", r"^asm_data\|FCC/delim/(59|92|96|123|124|125|126)\|(C13:no-internal-error|C05:fcc-bytes|C05:accepted)\|FCC-delim:(59|92|96|123|124|125|126):(escape:(IndexError|ValueTypeError)|mismatch|rejected:\w+):",
      "FCC with ; \\ ` { | } or ~ as the delimiter is not recognised (the statement pattern does not admit these characters in "
      "an operand, ; starts a comment): IndexError / ValueTypeError escape or nothing is emitted", {"asm": [" FCC |HELLO|"]}, also=("C13",))
known("C05", r"^asm_data\|FCC/delim/\d+\|C05:fcc-bytes\|FCC-delim:\d+:mismatch:'two  gaps'$",
      "first run of blanks collapses (see above), any delimiter", {"asm": [" FCC !two  gaps!"]})
known("C05", r"^asm_data\|FCC/concrete/\d+\|C05:fcc-bytes\|FCC-concrete:mismatch:'(a  0|two   gaps  )'",
      "the same defect on concrete strings whose first gap is wider than one blank", {"asm": [" FCC \"a  0\""]})
known("C05", r"^asm_data\|FCC/concrete/\d+\|(C05:fcc-bytes|C05:accepted|C13:no-internal-error)\|FCC-concrete:\w+:'(x;y|tab\\there|~\|\{\})'",
      "same FCC defect on concrete strings with ';', a tab or punctuation", {"asm": [" FCC \"x;y\""]}, also=("C13",))
known("C13", r"^asm_data\|empty/(FCB|FDB|FCC|RMB|ORG|EQU)\|C13:no-internal-error\|empty/\w+:escape:\w+",
      "a data directive without operand raises ValueTypeError / IndexError instead of a diagnostic", {"asm": [" FCB"]}, also=("C05",))
known("C05", r"^asm_data\|silent/END\|(C13:no-internal-error|C05:accepted)\|silent/END:(escape:\w+|rejected:\w+)",
      "END without operand is not accepted (escapes as ValueTypeError)", {"asm": [" NOP", " END"]}, also=("C13",))

# ------------------------------------------------------------------------------------------------ special operands

# ------------------------------------------------------------------------------------------------ termination / internal errors
known("C13", r"^asm_forms\|[^|]*/(neg5|dec5)/\w+/equ\|C13:no-internal-error\|[^|]*:escape:(ValueTypeError:val=-1000000000\.\.-32769|AttributeError:val=65536\.\.1000000000):",
      "an EQU symbol whose value lies outside -32768..65535, used as an operand, raises ValueTypeError (below -32768) or "
      "AttributeError (above 65535) instead of a diagnostic", {"asm": ["V EQU -39001", " LDA V"]})
known("C13", r"^asm_text\|alias/[\w-]+\|C13:no-internal-error#[23][ab]\|alias/[\w-]+:[23][ab]:escape:AttributeError@Program\.translate_statements$",
      "an EQU symbol that names another symbol (alias, chain or cycle), used as an IMMEDIATE operand, raises AttributeError in "
      "symbol resolution instead of a diagnostic (the alias has no numeric value; the other operand positions are diagnosed)",
      {"asm": ["FIRST EQU SECOND", "SECOND EQU $10", " LDA #FIRST"]}, also=("C04",))
# asm_text: exact failing inputs per mnemonic and root cause (known_text_inputs.json, tools/mktextknown.py)
import re as _re
_TXT = json.load(open(os.path.join(ROOT, "known_text_inputs.json")))
_TXT_WHAT = [
    (("END", "EQU", "FCB", "FDB", "NAM", "ORG", "RMB", "SETDP"), "ValueTypeError@Program.parse",
     "an operand text of a pseudo operation that is no value at all (empty, lone prefix, dangling operator ...) raises ValueTypeError "
     "while the statement is parsed (PseudoOperand.__init__), which Statement.parse_line does not turn into a diagnostic", [" ORG $"], ()),
    (("BRA", "LBRA"), "ValueTypeError@Program.parse", "the same for the operand of a branch (RelativeOperand.__init__)", [" BRA #"], ("C12",)),
    (("FCC",), "IndexError@Program.parse",
     "FCC whose operand is empty, one character or has no closing delimiter raises IndexError in Statement.parse_line", [" FCC #"], ("C05",)),
    (("JMP", "LDA", "lda", "LEAX"), "IndexError@Program.translate_statements",
     "an address label as constant index offset with a prefix (#T,X  <T,X) raises IndexError in the size pass (same root as LDA L,X)",
     ["T NOP", " LDA #T,X"], ()),
    (("INCLUDE",), "FileNotFoundError@Program.translate_statements",
     "INCLUDE of a file that does not exist escapes as FileNotFoundError (C19 known finding, reached through arbitrary operand texts)",
     [" INCLUDE nothere.asm"], ("C19",)),
]
for mns, exc, what, asm, also in _TXT_WHAT:
    alts = []
    for mn in mns:
        d = _TXT.get("%s|escape|%s" % (mn, exc))
        if not d:
            continue
        per = "|".join("%s:O(%s)" % (li, "|".join(str(k) for k in ks)) for li, ks in sorted(d.items()))
        alts.append("%s:escape:%s:(%s)" % (_re.escape(mn), _re.escape(exc), per))
    if alts:
        known("C13", r"^asm_text\|text/\d+/\w+\|C13:no-internal-error#\d+\|text:(%s)$" % "|".join(alts), what, {"asm": asm}, also=also)

known("C13", r"^asm_layout\|abs/LDA,X/[^|]*\|C13:no-internal-error\|abs/LDA,X:\w+:\w+:escape:IndexError",
      "a label used as constant index offset (LDA L,X) raises IndexError in fix_addresses", {"asm": ["L NOP", " LDA L,X"]}, also=("C01", "C04"))
known("C13", r"^asm_layout\|placement/[\w-]+\|C13:no-internal-error\|placement/[\w-]+:escape:ValueTypeError",
      "a program whose addresses run past $FFFF raises ValueTypeError (integer value cannot exceed 65535) instead of a diagnostic",
      {"asm": [" ORG $FFFF", "T NOP", " JMP T"]})
known("C13", r"^asm_forms\|[^|]*/(B[A-Z]{2}|LB[A-Z]{2,3})(/equ)?\|C13:no-internal-error\|[^|]*:(B[A-Z]{2}|LB[A-Z]{2,3}):escape:ValueTypeError:val=[^:]*:inv=nomode:",
      "a branch instruction whose operand is not a symbol (no operand, [n], a literal below -32768) raises ValueTypeError "
      "instead of a diagnostic", {"asm": [" BRA [5]"]})

# ------------------------------------------------------------------------------------------------ cassette / disk
known("C06", r"^tape_roundtrip\|rt/[^|]*\|C06:roundtrip\|rt/lens=[\d,]*\b0\b[\d,]*:file-count=",
      "an empty file written to a cassette image hides itself and every later file from the listing (read_file returns None for "
      "a file without data)", {"files": "cassette: [file with 0 data bytes]"}, also=("C09", "C16"))
known("C06", r"^tape_reader_contracts\|fn/read_file\|[^|]*::post:empty-file-is-returned\|empty-data-file:not-listed",
      "same defect at its call site: CassetteFile.read_file ends with `if not data: return None`, so a well-formed file whose data "
      "blocks carry no bytes is not returned (contract clause post:empty-file-is-returned)", {"files": "cassette stream: name-file block + EOF block"})
known("C09", r"^vfile_history\|sniff/cas-big-(zero|ff|mixed)\|C09:kind-recognised\|sniff/[\w-]+:(raised:\w+|recognised-as:\w+)",
      "a cassette image of 161,280 bytes or more is tried as a disk image first; UnicodeDecodeError (not caught) escapes or the "
      "disk reader returns garbage, so the image cannot be re-opened as a cassette",
      {"files": "cassette image with one 170,000-byte file"}, also=("C13",))
known("C09", r"^cli_assembler\|asm/cas/append/bigcas/\w+\|C09:append-proceeds\|", "--append to a cassette image >= 161,280 bytes is refused",
      {"cli": "assembler.py prog.asm --to_cas big.cas --append"})
known("C09", r"^vfile_history\|history/cas/[^|]*\|C09:history\|history/cas/[\d,]*\b0\b[\d,]*:step\d+-file-count=",
      "after an empty file was stored, a later --append loses it and the following files (cassette) or fails to re-open the image (disk)",
      {"files": "history: add empty file, save, re-open, add another"}, also=("C06", "C07"))
known("C10", r"^(cli_assembler\|asm/cas/append/(raw|arbitrary)/\w+\|C10:(unchanged-other-kind|told-why)|cli_fileutil\|fu/existing-target/dsk-to-cas/raw/append\|C10:(unchanged|told-why)|cli_fileutil\|fu/matrix/(cas|dsk)-to-cas/(raw|arbitrary)/append\|C10:(unchanged-other-kind|told-why))\|",
      "--to_cas --append onto an existing file that is NOT a cassette image (raw binary, arbitrary bytes) overwrites it: any file "
      "without a tape header is sniffed as an empty cassette", {"cli": "assembler.py prog.asm --to_cas raw.bin --append"})
known("C16", r"^cli_fileutil\|fu/cas-to-(cas|dsk)/lower/files=\w+\|C16:selection\|",
      "--files never selects a cassette file whose stored name is lower case (what assembler.py writes for `NAM hello`): the filter "
      "upper-cases the request but not the stored name", {"cli": "file_util.py host.cas --to_dsk out.dsk --files hello"})
known("C16", r"^cli_fileutil\|fu/cas-to-(cas|dsk)/with-empty/all\|C16:converted\|fu/cas-to-(cas|dsk)/with-empty/all:file-count=", "conversions lose empty files (and, from cassette, the files after them)",
      {"cli": "file_util.py host.cas --to_dsk out.dsk"}, also=("C06", "C07"))
known("C19", r"^include\|missing-file\|C19:missing-file-is-diagnostic\|missing-file:escape:FileNotFoundError",
      "INCLUDE of a missing file escapes as FileNotFoundError (a traceback) instead of a diagnostic", {"asm": [" INCLUDE nothere.asm"]},
      also=("C13",))
known("C19", r"^include\|cycle/\w+\|C19:cycle-is-diagnostic\|cycle/\w+:(hang|escape):?\w*",
      "an INCLUDE cycle recurses until RecursionError instead of a diagnostic", {"asm": [" INCLUDE a.asm  (a.asm includes itself)"]},
      also=("C13",))
known("C18", r"^meta\|relocate/(abs-[\w-]+|fdb-label)/low/\w+\|C18:relocation-(absolute-shifts-by-D|same-length|addresses-shift-by-D)\|",
      "below $100 a label reference is emitted in one byte: relocating within 0..$FF changes lengths / breaks decoding",
      {"asm": [" ORG $0010", "T NOP", " JMP T"]}, also=("C02",))
known("C18", r"^meta\|relocate/fdb-label/\w+/\w+\|C18:relocation-absolute-shifts-by-D\|",
      "FDB label emits 0 instead of the label's address, so it does not follow a relocation", {"asm": [" ORG $1000", "T NOP", " FDB T"]},
      also=("C04", "C05"))
known("C18", r"^meta\|relocate/abs-minus/low/\w+\|C18:relocation-absolute-shifts-by-D\|relocate/abs-minus/low/\w+:operand-shift",
      "label+-constant / label as index offset do not follow a relocation by exactly D", {"asm": [" ORG $1000", "T NOP", " JSR T-1"]},
      also=("C04",))
known("C18", r"^meta\|rename/\w+\|C18:renaming-changes-nothing\|rename/\w+:scheme4:status ok vs diag",
      "a label containing @ cannot be used inside an expression (EXPRESSION_REGEX accepts only \\w), so renaming a label to such a "
      "name turns an accepted program into a rejected one", {"asm": ["S@0U NOP", " LDX #S@0U+2"]})


def fixed(prop, commit, what):
    return {"property": prop, "commit": commit, "what": what}


FIXED = [
    fixed("C02", "79ae6d9", "SWI / SYNC reserved 0 bytes but emitted 1 (also C01, C12)"),
    fixed("C01", "77ef3f9", "NEG <direct> rejected: opcode $00 treated as missing mode"),
    fixed("C15", "dad5e58", "directory slot 71 never used"),
    fixed("C15", "6511992", "granule 27 missing from the fill order: 67 of 68 granules usable"),
    fixed("C01", "0c0598b", "PSHU S / PULU S lost the register; PSHS S / PSHU U accepted (C12)"),
    fixed("C13", "642d8f9", "size fix-point loop never terminated when a PCR span estimate straddled the 8-bit limit (C03)"),
    fixed("C13", "2302f28", "empty operand raised IndexError"),
    fixed("C01", "19e1dfc", "[n] with n < $100 emitted a 1-byte address (C02, C12)"),
    fixed("C01", "18a3343", "16-bit-register instruction with 8-bit constant index offset emitted 2 offset bytes behind an 8-bit post-byte (C02, C12)"),
    fixed("C07", "9425923", "disk directory entry corrupted by names longer than 8 characters (C08, C09, C11)"),
    fixed("C02", "409a2b5", "negative constant index offsets not counted in the statement size"),
    fixed("C07", "389ab66", "read_data refused valid files whose chain starts or continues in a granule near the end of the image "
                            "(length test against the whole remaining file instead of the granule being read) (C09, C16)"),
    fixed("C07", "91d1272", "binary file whose data ends at (or whose postamble straddles) a granule end with a non-adjacent next granule "
                            "was not read back: postamble looked for at the physically following byte (C09, C16)"),
    fixed("C07", "5b72d76", "empty binary / BASIC file not read back from a disk image: recorded length 0 taken for 'no length recorded' "
                            "(C09, C16)"),
    fixed("C03", "42d0167", "a branch to its own statement (LOOP BRA LOOP) got displacement 0: fix_addresses took the forward path for "
                            "branch_index == this_index (C01)"),
    fixed("C08", "acb1d1b", "postamble written past the end of the granule (into the directory track from granule 33, into other files' "
                            "granules, or past the end of the image: `Not enough bytes to write postamble`) when it straddled a granule "
                            "end (C07, C15, C09, C16)"),
]


def main():
    ks = [k for k in K if k is not None]
    with open(os.path.join(ROOT, "known_findings.json"), "w") as f:
        json.dump({"known": ks, "fixed": FIXED}, f, indent=1)
    print("known_findings.json: %d known, %d fixed" % (len(ks), len(FIXED)))


if __name__ == "__main__":
    main()
