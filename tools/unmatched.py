#!/usr/bin/env python3
"""development helper: failure keys (from --dump files) not matched by known_findings.json, grouped"""
import json, re, sys, collections, os
ROOT = os.path.dirname(os.path.dirname(os.path.abspath(__file__)))
kf = json.load(open(os.path.join(ROOT, 'known_findings.json')))
g = collections.defaultdict(list)
for path in sys.argv[1:]:
    prop = os.path.basename(path).split('.')[0]
    rx = [re.compile(k['pattern']) for k in kf['known'] if prop in [k['property']] + k.get('also', [])]
    for l in open(path):
        d = json.loads(l)
        if any(r.search(d['key']) for r in rx):
            continue
        lemma, cell, clause, sig = d['key'].split('|', 3)
        n = re.sub(r"val=[-\d.]+|vals=[-\d.,]+", "val=*", sig)
        n = re.sub(r":(A[BDN][A-Z]+|ASL|BCC|CMP[DS]|EXG|LBCC|LBRA|LEAS|NEG|PSHS|STS|SWI[23]?|ABX|LD[AXYD]|LEAX|JMP|JSR|STX):", ":<M>:", n)
        n = re.sub(r"\d+", "N", n)
        g[(prop, lemma, clause, n)].append((cell, d.get('lines')))
for k in sorted(g):
    v = g[k]
    print(len(v), ' | '.join(k), '   e.g.', v[0][0], v[0][1])
