#!/usr/bin/env python3
"""Generates contracts/locals.json from the repository source: for every function the ordered parameter names and the ordered
local names (order of first binding in the source).  The contracts name locals of the real functions (`allocated_granules`,
`pointer`, ...); when a later version of the code only RENAMES a local or a parameter, the k-th name of the pinned list is
the k-th name of the current list, and pyvc.contracts resolves the contract's name through this table (a renamed local is not a
proof failure).  Re-run after a deliberate re-pinning of the contracts:  python3 tools/mklocals.py [/repo]"""
import ast, json, os, sys
ROOT = os.path.dirname(os.path.dirname(os.path.abspath(__file__)))
sys.path.insert(0, ROOT)
from pyvc.localnames import ordered_locals, fingerprints

repo = sys.argv[1] if len(sys.argv) > 1 else "/repo"
out = {}
for dp, dn, fn in os.walk(repo):
    dn[:] = sorted(d for d in dn if d not in (".git", "test", "__pycache__"))
    for f in sorted(fn):
        if not f.endswith(".py"):
            continue
        path = os.path.join(dp, f)
        rel = os.path.relpath(path, repo)
        tree = ast.parse(open(path).read())

        def visit(node, qual):
            for ch in ast.iter_child_nodes(node):
                if isinstance(ch, ast.ClassDef):
                    visit(ch, qual + [ch.name])
                elif isinstance(ch, (ast.FunctionDef, ast.AsyncFunctionDef)):
                    key = "%s::%s" % (rel, ".".join(qual + [ch.name]))
                    params, locs = ordered_locals(ch)
                    fp = fingerprints(ch)
                    out[key] = {"params": params, "locals": locs, "uses": {n: fp[n] for n in params + locs if n in fp}}
                    visit(ch, qual + [ch.name])
        visit(tree, [])
json.dump(out, open(os.path.join(ROOT, "contracts", "locals.json"), "w"), indent=0, sort_keys=True)
print("contracts/locals.json: %d functions" % len(out))
