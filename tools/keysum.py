#!/usr/bin/env python3
"""development helper: compressed summary of dumped failure keys.  usage: keysum.py <regex on key> <max lines> <dump files...>
value classes are kept, other digits collapsed; cells are reduced to their first two path components"""
import json, re, sys, collections
rx = re.compile(sys.argv[1]); lim = int(sys.argv[2])
keys = set()
for f in sys.argv[3:]:
    keys |= set(json.loads(l)['key'] for l in open(f))
agg = collections.Counter()
for k in keys:
    if not rx.search(k):
        continue
    l, c, cl, sig = k.split('|', 3)
    sig = re.sub(r'(?<![\d.-])\d+(?![\d.]*\.\.)(?!\.)', 'N', sig)
    agg[(l, "/".join(c.split('/')[:2]), cl, sig)] += 1
for i, (k, v) in enumerate(sorted(agg.items())):
    if i >= lim:
        print("... %d more" % (len(agg) - lim)); break
    print(v, "|".join(k))
