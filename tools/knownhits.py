#!/usr/bin/env python3
"""development helper: for every known-finding entry, how many dumped failure keys it matches (zero-hit entries are suspect)"""
import json, re, sys, os, glob
ROOT = os.path.dirname(os.path.dirname(os.path.abspath(__file__)))
kf = json.load(open(os.path.join(ROOT, 'known_findings.json')))
keys = []
for path in sys.argv[1:]:
    for l in open(path):
        keys.append(json.loads(l)['key'])
keys = sorted(set(keys))
for k in kf['known']:
    rx = re.compile(k['pattern'])
    n = sum(1 for x in keys if rx.search(x))
    print("%5d  %s  %s" % (n, k['property'], k['what'][:90]))
