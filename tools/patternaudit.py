#!/usr/bin/env python3
"""development helper: how much wider than its hits is each known-finding pattern?
For every pattern: hits, cells hit / cells of the quick tier whose id the pattern's cell field would accept, distinct clauses and
distinct signatures (numbers normalised).  A pattern that accepts many more cells than it hits can hide a new defect there."""
import json, re, sys, os, glob, collections
ROOT = os.path.dirname(os.path.dirname(os.path.abspath(__file__)))
sys.path.insert(0, ROOT)
from pyvc.runner import all_lemmas
kf = json.load(open(os.path.join(ROOT, 'known_findings.json')))
keys = set()
for path in sys.argv[1:]:
    for l in open(path):
        keys.add(json.loads(l)['key'])
cells = collections.defaultdict(list)
for l in all_lemmas():
    for c in l.cells("quick"):
        cells[l.name].append(c["id"])
for k in kf['known']:
    pat = k['pattern']
    rx = re.compile(pat)
    hits = [x for x in keys if rx.search(x)]
    parts = re.split(r"\\\|", pat.lstrip("^"))
    lemma = parts[0]
    cellrx = re.compile("^(?:" + parts[1] + ")$") if len(parts) > 1 else None
    hitcells = set(x.split('|')[1] for x in hits)
    try:
        cand = [c for ln, cs in cells.items() if re.match("^(?:%s)$" % lemma, ln) for c in cs if cellrx and cellrx.match(c)]
    except re.error:
        cand = []
    sigs = collections.Counter(re.sub(r"\d+", "N", x.split('|', 3)[3]) for x in hits)
    clauses = sorted(set(x.split('|')[2] for x in hits))
    print("%-4s hits=%-5d cells hit/accepted=%d/%d  %s" % (k['property'], len(hits), len(hitcells), len(cand), k['what'][:70]))
    if len(cand) > 1.5 * max(1, len(hitcells)) or os.environ.get("AUDIT_ALL"):
        print("      pattern:", pat[:200])
        print("      clauses:", clauses[:6])
        print("      sigs   :", [s[:60] for s, _ in sigs.most_common(6)])
        miss = [c for c in cand if c not in hitcells]
        print("      accepted-but-not-failing cells e.g.:", miss[:8])
