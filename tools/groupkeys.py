#!/usr/bin/env python3
"""development helper: group dumped failure keys by normalised signature"""
import json, re, sys, collections
g = collections.defaultdict(list)
for path in sys.argv[1:]:
    for l in open(path):
        d = json.loads(l)
        lemma, cell, clause, sig = d['key'].split('|', 3)
        n = sig
        n = re.sub(r"val=[-\d.]+", "val=*", n)
        n = re.sub(r"vals=[-\d.,]+", "vals=*", n)
        n = re.sub(r":(A[BDN][A-Z]+|ASL|BCC|CMP[DS]|EXG|LBCC|LBRA|LEAS|NEG|PSHS|STS|SWI[23]?|ABX|LD[AXYD]|LEAX|JMP|JSR|STX|B[A-Z]{2}|LB[A-Z]{2,3}|PUL[SU]|PSHU|TFR):", ":<M>:", n)
        n = re.sub(r"emitted=\d+,reserved=\d+", "emitted=*,reserved=*", n)
        n = re.sub(r"size=\d+,len=\d+", "size=*,len=*", n)
        n = re.sub(r"n=[\d.]+", "n=*", n)
        n = re.sub(r"dist=[-\d.]+", "dist=*", n)
        g[(lemma, clause, n)].append((cell, d.get('lines')))
for k in sorted(g):
    v = g[k]
    print(len(v), k[0], '|', k[1], '|', k[2], '   e.g.', v[0][0], v[0][1])
