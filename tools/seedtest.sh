#!/bin/sh
# usage: tools/seedtest.sh <mutant-id> <tier> <prop> [<prop>...]   -- verify a seeded change and run checks against it
# Default: the patch is applied to /repo, the checks run, and the patch is ALWAYS reverted afterwards.
# SEED_SCRATCH=1: the checks run against a scratch worktree instead (VERIF_REPO), for use while a background run reads /repo.
ID="$1"; TIER="$2"; shift; shift
SRC=/tmp/mut/${ID}_out
[ -d /verif/seeded/$ID ] && SRC=/verif/seeded/$ID
WT=/tmp/mut/verify_$ID
cd /verif || exit 3
rm -rf "$WT"; git -C /repo worktree prune; git -C /repo worktree add -q --detach "$WT" main || exit 3
echo "== demo on clean tree:"; /venv/bin/python $SRC/demo.py "$WT" >/tmp/mut/demo_clean_$ID.txt 2>&1; echo "exit $?"; tail -2 /tmp/mut/demo_clean_$ID.txt
( cd "$WT" && git apply $SRC/patch.diff ) || { echo "patch does not apply"; exit 3; }
echo "== demo on changed tree:"; /venv/bin/python $SRC/demo.py "$WT" >/tmp/mut/demo_mut_$ID.txt 2>&1; echo "exit $?"; tail -2 /tmp/mut/demo_mut_$ID.txt
echo "== test-suite on changed tree:"; ( cd "$WT" && /venv/bin/python -m pytest -q -p no:cacheprovider 2>&1 | tail -1 )
if [ -n "$SEED_SCRATCH" ]; then
  find "$WT" -name __pycache__ -prune -exec rm -rf {} + 2>/dev/null
  for P in "$@"; do
    echo "== check $P --$TIER on changed scratch tree:"
    VERIF_REPO="$WT" timeout 3000 ./check $P --$TIER 2>&1 | grep -E "^VIOLATION|^  obligation|^UNDEC|^CHECKER|^C[0-9]+ (quick|thorough)" | head -${SEED_LINES:-8} | cut -c1-330
  done
  git -C /repo worktree remove --force "$WT"
  exit 0
fi
git -C /repo worktree remove --force "$WT"
git -C /repo apply $SRC/patch.diff || exit 3
for P in "$@"; do
  echo "== check $P --$TIER on changed /repo:"
  timeout 3000 ./check $P --$TIER 2>&1 | grep -E "^VIOLATION|^  obligation|^UNDEC|^CHECKER|^C[0-9]+ (quick|thorough)" | head -${SEED_LINES:-8} | cut -c1-330
done
git -C /repo checkout -- . ; git -C /repo status --short | head -3
