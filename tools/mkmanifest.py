#!/usr/bin/env python3
"""Generates MANIFEST.json from the table below (kept in one place so it stays valid)."""
import json
import os

ROOT = os.path.dirname(os.path.dirname(os.path.abspath(__file__)))

TRUSTED = ("Trusted: z3 5.1.0; the pyvc VC generator (AST interpreter + symbolic models of the Python subset, cross-checked by the "
           "concrete-mode conformance suite and by native replay of every counterexample); the spec library specs/*.py; ASCII source "
           "text; external I/O functions under their ghost-filesystem contracts. Python ints are mathematical (no machine arithmetic).")

TECH = "contract-based deductive verification: VCs generated from the AST of the real source (pyvc), discharged by z3, counterexamples replayed natively"
TECHB = TECH + "; bounded stand-in (same engine, enumerated sizes, symbolic contents) where stated"


def C(level, text, design, technique=TECH, note=None):
    d = dict(level=level, text=text, design=design, technique=technique)
    if note:
        d["note"] = note
    return d


CHECKS = {
    "C01": C("other", "Every (mnemonic x operand form x register x literal spelling) cell is executed symbolically through the REAL pipeline "
             "(parse_line -> create_from_str -> resolve_symbols -> translate -> size/address passes -> get_binary_array) with the digits of the "
             "literal symbolic; on every path z3 proves that the emitted bytes decode, with an independent MC6809 decoder spec, to the "
             "operation / mode / register / value written.  Register lists and pairs are enumerated completely.  Label operands via "
             "multi-statement templates with symbolic origin and distance.  Not `proof` only because some cells are refuted on the tree "
             "(genuine defects, replayed natively, listed in known_findings.json); every other obligation is discharged.", "DESIGN 4 C01, 12"),
    "C02": C("other", "Unbounded function contracts over an ABSTRACT statement list of any length: the address pass of translate_statements "
             "(loop invariant: address == A[i-1]+SIZE[i-1], stored addresses == the specification's recurrence incl. pre-set ORG addresses, "
             "frame), Program.save_symbol for every table state (abstract dictionary) and the symbol-collection loop (invariant with an "
             "owner ghost: a duplicate label is always rejected, a rejection always has a witness, every label owns its entry).  Size "
             "agreement (bytes emitted == bytes reserved) is an obligation of every single-statement cell with symbolic digits; address "
             "chain, symbol values and origin are additionally proved on multi-statement templates with symbolic origin and gap.  "
             "BOUNDED: ORG placement shapes, the duplicate / undefined-symbol matrices (concrete program shapes).  Refuted cells are "
             "known findings.", "DESIGN 4 C02, 12", TECHB),
    "C03": C("other", "(1) Function contracts over an ABSTRACT statement list of arbitrary length (fields as arrays, prefix-sum ghosts): "
             "Statement.fix_addresses for branches (both summing loops with invariants) and label,PCR, determine_pcr_relative_sizes "
             "(progress, size accounting, 8-bit-chosen => fits, via an inductively proved prefix-sum lemma): any number of statements "
             "between source and target.  (2) Whole-pipeline templates with symbolic origin and symbolic distance (RMB n): "
             "(address + length + decoded displacement) mod 65536 == target, out-of-range short branches rejected.  2-3 mutually "
             "dependent PCR statements with symbolic gaps are a bounded stand-in.", "DESIGN 4 C03, 12", TECHB),
    "C04": C("other", "Operand position x term kinds x operator cells with symbolic literal digits, symbolic EQU values and symbolic label addresses; "
             "the oracle is exprsem.evaluate.  Products / quotients keep one side enumerated (0..9) to stay linear.  Most cells are refuted on "
             "the tree (known findings); the discharged ones are proved for all values.", "DESIGN 4 C04, 12"),
    "C05": C("other", "FCB / FDB with symbolic digits (lists up to 3 elements unbounded in value; longer lists and FCC strings with symbolic "
             "characters are bounded stand-ins), RMB size for symbolic n, directives that emit nothing.", "DESIGN 4 C05, 12", TECHB),
    "C06": C("other", "Unbounded contracts on the whole reader over a buffer of ANY length and content (z3 arrays): skip_to_sequence (least "
             "match or -1), read_word, read_coco_file_name, and -- for ANY well-formed stream described by ghost block positions (any "
             "leader / gap lengths, any number of data blocks of any length 0..255, any number of files) -- read_blocks (while-loop "
             "invariant + variant, inner loop), read_file and list_files (fold), each callee through its contract.  Writer -> reader "
             "bridge, also unbounded: array-form contracts of append_blank / append_leader / append_data_blocks (recursion through its "
             "own contract) and the proof that every instance of read_file's pre-condition holds for the buffer add_file produces (block "
             "positions in closed form), for any data length >= 1 and any buffer it is appended to.  The cassette writer's format with "
             "check sums is C14.  Step of the induction over the number of files, also machine-checked: add_file leaves the prior buffer "
             "untouched and ends exactly at the new length (bridge), and every instance kind of read_file's pre-condition is stable under "
             "extension of the buffer (ghost-level lemma over the same formulas, with a satisfiability guard); add_files / list_files are "
             "folds of add_file / read_file (C14, tape_reader).  The two-line composition of these lemmas into the statement for all K is "
             "on paper (DESIGN 12.14).  BOUNDED, in addition: round trips with file count <= 3, enumerated data lengths (every length "
             "0..765 thorough), symbolic contents / addresses / names, foreign streams.", "DESIGN 4 C06, 12.6, 12.9, 12.14", TECHB),
    "C07": C("other", "Unbounded, writer side: geometry and length arithmetic for all granules / lengths; write_bytes_to_buffer, write_dir_entry, "
             "preamble / postamble read + write, write_to_fat (chains of any length), write_to_granules (any length, any chain of distinct "
             "granules, any contents: stream in chain order, by recursion through its own contract, both parameter shapes) and the add_file "
             "composition.  Unbounded, reader side: read_data (any image, any FAT-linked chain, any length, every preamble shape: the data "
             "in chain order, by recursion through its own contract) and calculate_file_length (while-loop invariant over a chain of any "
             "length), and list_files itself: the 72-slot directory loop (invariant: position, number of files so far; per active slot "
             "exactly one file whose type comes from the entry, whose data are read_data's result of the recorded length, whose "
             "addresses come from the stream's preamble / postamble bytes), callees through their contracts.  Writer -> reader bridge: the "
             "image add_file leaves satisfies those pre-conditions for the new entry (entry fields, FAT links, stream = header || data || "
             "trailer in chain order) and leaves the entries, FAT links and granules of every file already stored untouched.  Name bytes are "
             "read through read_sequence's contract; their normalisation (strip, case) and the induction over the number of files are "
             "covered by the BOUNDED part only: enumerated data lengths x "
             "fill orders x file kinds x pre-existing files with symbolic contents, tool reader and independent reader "
             "(specs/diskbasic).", "DESIGN 4 C07, 12", TECHB),
    "C08": C("other", "Unbounded, function by function with the image as a z3 array: seek_granule geometry, length identity, write_bytes_to_buffer "
             "(loop invariant), write_dir_entry layout, write_to_fat for chains of ANY length (injectivity ghost), write_to_granules for ANY "
             "data length / chain / contents (stream in chain order + frame, no condition on where the trailer falls), and DiskFile.add_file "
             "as the per-file inductive step (allocation while-loop invariant + variant, callee pre-conditions at each call site, FAT chain, "
             "frame, directory slot).  BOUNDED: whole-image consistency with an independent Disk BASIC checker on the enumerated family of "
             "C07.", "DESIGN 4 C08, 12", TECHB),
    "C09": C("other", "Unbounded, per addition (the step of the history induction): CassetteFile.add_file leaves the prior buffer untouched and "
             "every instance of read_file's pre-condition is stable under extension (tape_bridge, DESIGN 12.14); DiskFile.add_file leaves every "
             "byte of a granule, directory entry or table entry that was not free untouched, and with that frame the directory entry, chain "
             "links, reader pre-conditions and every stream byte of each stored file are the same afterwards (disk_addfile + disk_bridge, "
             "DESIGN 12.18); the writers do not modify the CoCoFile they are given (frame clauses).  The induction wrapper and the "
             "save / re-open step are NOT machine-checked.  BOUNDED stand-in for them: open/add/save/re-open sessions through VirtualFile on the "
             "ghost filesystem (up to 4 additions, boundary lengths, mixed kinds, symbolic contents for cassette and short disk files), CLI "
             "--append sequences, and kind recognition of tool-written images of every size class.",
             "DESIGN 4 C09, 12.14, 12.18", TECHB),
    "C10": C("other", "The finite configuration matrix {bin,cas,dsk} x {append,no append} x {absent, empty, cassette, disk, raw, arbitrary, "
             "cassette >= 161,280 bytes} is enumerated COMPLETELY through assembler.main and file_util.main executed by the AST interpreter on "
             "a ghost filesystem (every write observed), target bytes compared before/after, images parsed by independent readers.  "
             "Contents of the programs / images are concrete representatives.", "DESIGN 4 C10, 12"),
    "C11": C("other", "assembler.main executed by the AST interpreter for every output switch (alone, combined, --name, no name) on representative "
             "programs; the written files are parsed with the independent tape / disk readers and compared with Program.get_binary_array, "
             "origin and name.  Origin / name extraction for ALL origins is carried by C02:origin (symbolic origin).", "DESIGN 4 C11, 12"),
    "C12": C("other", "Same cells as C01 plus the invalid ones: modes the instruction does not have, values outside the operand width, wrong "
             "registers, malformed register lists -- with symbolic values.  Clause: rejected with a diagnostic, and if accepted anyway the "
             "bytes are exactly one instruction of that mnemonic with size == length.", "DESIGN 4 C12, 12"),
    "C13": C("other", "Every assembler cell carries `terminates` (loop bound of the real while loop + native watchdog) and `no-internal-error` "
             "(only ParseError / TranslationError may leave Program.process) obligations for all symbolic values; CLI cells carry "
             "exit-status / no-output-file obligations.  Arbitrary texts are covered by the form / invalid-form families and, BOUNDED, by "
             "asm_text (3,660 statement texts in the quick tier, 7,320 in the thorough tier: label field x mnemonic x operand fragment; the exact "
             "inputs that fail on the tree are listed per root cause), not by an unbounded string theory (see DESIGN 12).", "DESIGN 4 C13, 12"),
    "C14": C("proof", "Function-by-function contracts on the real cassette writer, unbounded in data length and contents (z3 Seq theory): "
             "append_data_blocks against the recursive format definition (loop invariant with ghost split, recursion through its own "
             "contract, decreases obligation), append_name, append_header, append_eof, append_blank/leader, add_file, add_files.  "
             "All obligations discharged on the tree; natively the clauses are the checksum-verifying recogniser specs/tape.parse_stream.",
             "DESIGN 4 C14, 12"),
    "C15": C("other", "Unbounded: find_empty_granule / find_empty_directory_entry for EVERY FAT / directory state (68 / 72 symbolic bytes), the "
             "fill-order table lemma, granules-needed minimality for every length, and add_file's allocation loop (exactly `needed` "
             "granules, all free before, distinct; raises only on exhaustion).  BOUNDED: granules used per write on the C07 family, "
             "three concrete empty-to-full histories.", "DESIGN 4 C15, 12", TECHB),
    "C16": C("other", "file_util.main executed by the AST interpreter on the ghost filesystem: every source kind x target kind x file set x --files "
             "selection (upper / lower / mixed case), conversion chains, --to_bin, pre-existing targets; results parsed by the independent "
             "readers.  File sets are concrete representatives (bounded).", "DESIGN 4 C16, 12", TECHB),
    "C17": C("proof", "Frame (modifies) obligations generated on EVERY symbolic path of every assembler cell: each heap write performed by the real code "
             "must target an object created in that run -- never an import-time object (INSTRUCTIONS, default-argument NoneValue()s, compiled "
             "regexes, class attributes) and never the caller's list of lines; plus a syntactic scan for nondeterminism sources.  All "
             "discharged.  Warm-vs-fresh process and hash-seed agreement is additionally observed natively (bounded, not counted).",
             "DESIGN 4 C17, 12"),
    "C18": C("other", "Relocation by self-composition with BOTH origins symbolic (all origin pairs on one side of $100): lengths equal, addresses "
             "shift by D, relative/constant bytes equal, absolute operands shift by exactly D -- proved per statement kind.  Renaming, "
             "reformatting and suffix-append relations are a bounded stand-in over a program corpus.", "DESIGN 4 C18, 12", TECHB),
    "C19": C("other", "Unbounded contracts on the two functions that implement inclusion, over abstract line / statement lists of ANY length (z3 Seq "
             "theory): Program.parse returns the left fold of the kept statements (order kept, nothing dropped or duplicated, input untouched) and "
             "Program.process_mnemonics returns the left fold that puts flat(parse(file)) exactly where the INCLUDE stood (recursion through its own "
             "contract; the invariant is about the RETURNED list).  BOUNDED stand-in for the composed statement: every corpus program split at "
             "statement boundaries into including / included files (nested to depth 3, middle third, the same file twice, included files with no "
             "statements in every neighbourhood) must equal the spliced program in image, addresses and symbols; missing file and cycles must be "
             "diagnostics (refuted on the tree: known findings).",
             "DESIGN 4 C19, 12", TECHB),
}

NOT_YET = {
}


def main():
    props = [json.loads(l) for l in open(os.path.join(ROOT, "properties.jsonl"))]
    checks = []
    na = []
    for p in props:
        pid = p["id"]
        if pid in CHECKS:
            c = CHECKS[pid]
            checks.append({
                "property_id": pid,
                "quick_cmd": "./check %s --quick" % pid,
                "thorough_cmd": "./check %s --thorough" % pid,
                "evidence_file": "evidence/%s.json" % pid,
                "replay_cmd_template": "./check replay {path}",
                "engine": "pyvc",
                "level_claimed": {"category": c["level"], "text": c["text"], "design_ref": c["design"]},
                "level_note": c.get("note", TRUSTED),
                "technique": c["technique"],
            })
        else:
            na.append({"property_id": pid, "reason": NOT_YET.get(pid, "contracts for this property are not built yet in this "
                                                                  "revision of /verif (work in progress, see DESIGN.md 9)")})
    m = {
        "version": 1,
        "setup_cmd": "./check setup",
        "hooks": {"guard": "COCOASM_VERIF", "enable": "no source hooks: contracts are sidecar files under /verif; checks read "
                  "$VERIF_REPO (default /repo) directly", "baseline_off_cmd":
                  "cd /repo && /venv/bin/python -m pytest -ra -q -p no:cacheprovider --timeout=900 --continue-on-collection-errors",
                  "source_commits": [], "add_only": True},
        "engines": [{"name": "pyvc", "path": "pyvc/", "serves_properties": sorted(CHECKS),
                     "kind_free_text": "own AST->z3 verification-condition generator for the Python subset of the repo (forward "
                                       "symbolic execution with contracts, loop invariants, ghost state), sidecar contracts/lemmas, "
                                       "native replay of counterexamples"}],
        "checks": checks,
        "notes": "Exit codes: 0 held (KNOWN-FINDING lines allowed), 1 VIOLATION, 2 undecided, 3 checker error. "
                 "known_findings.json lists genuine defects of the pinned tree (each with a witness) and fixed ones.",
        "not_applicable": na,
    }
    with open(os.path.join(ROOT, "MANIFEST.json"), "w") as f:
        json.dump(m, f, indent=1)
    print("MANIFEST.json: %d checks, %d not claimed" % (len(checks), len(na)))


if __name__ == "__main__":
    main()
