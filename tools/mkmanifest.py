#!/usr/bin/env python3
"""Generates MANIFEST.json from the table below (kept in one place so it stays valid)."""
import json
import os

ROOT = os.path.dirname(os.path.dirname(os.path.abspath(__file__)))

TRUSTED = ("Trusted: z3 5.1.0; the pyvc VC generator (AST interpreter + symbolic models of the Python subset, cross-checked by the "
           "concrete-mode conformance suite and by native replay of every counterexample); the spec library specs/*.py; ASCII source "
           "text; external I/O functions under their ghost-filesystem contracts. Python ints are mathematical (no machine arithmetic).")

CHECKS = {
    "C01": dict(
        level="other",
        text="Deductive: every (mnemonic x operand form x literal spelling) cell is executed symbolically through the REAL pipeline "
             "(parse_line -> create_from_str -> resolve_symbols -> translate -> address passes -> get_binary_array) with the literal's "
             "digits symbolic, and z3 proves on every path that the emitted bytes decode (independent MC6809 decoder spec) to the "
             "operation/mode/register/value written. All values of a cell are decided at once; cells enumerate the finite form set "
             "completely in the thorough tier. Level is 'other' only because some cells are refuted on the pinned tree (genuine "
             "defects, replayed natively, listed in known_findings.json); all remaining obligations are discharged.",
        design="DESIGN.md 4 (C01), 12",
        technique="contract-based deductive verification: AST->VC generation over the real source, z3, native counterexample replay"),
}

NOT_YET = {
}


def main():
    props = [json.loads(l) for l in open(os.path.join(ROOT, "properties.jsonl"))]
    checks = []
    na = []
    for p in props:
        pid = p["id"]
        if pid in CHECKS:
            c = CHECKS[pid]
            checks.append({
                "property_id": pid,
                "quick_cmd": "./check %s --quick" % pid,
                "thorough_cmd": "./check %s --thorough" % pid,
                "evidence_file": "evidence/%s.json" % pid,
                "replay_cmd_template": "./check replay {path}",
                "engine": "pyvc",
                "level_claimed": {"category": c["level"], "text": c["text"], "design_ref": c["design"]},
                "level_note": c.get("note", TRUSTED),
                "technique": c["technique"],
            })
        else:
            na.append({"property_id": pid, "reason": NOT_YET.get(pid, "contracts for this property are not built yet in this "
                                                                  "revision of /verif (work in progress, see DESIGN.md 9)")})
    m = {
        "version": 1,
        "setup_cmd": "./check setup",
        "hooks": {"guard": "COCOASM_VERIF", "enable": "no source hooks: contracts are sidecar files under /verif; checks read "
                  "$VERIF_REPO (default /repo) directly", "baseline_off_cmd":
                  "cd /repo && /venv/bin/python -m pytest -ra -q -p no:cacheprovider --timeout=900 --continue-on-collection-errors",
                  "source_commits": [], "add_only": True},
        "engines": [{"name": "pyvc", "path": "pyvc/", "serves_properties": sorted(CHECKS),
                     "kind_free_text": "own AST->z3 verification-condition generator for the Python subset of the repo (forward "
                                       "symbolic execution with contracts, loop invariants, ghost state), sidecar contracts/lemmas, "
                                       "native replay of counterexamples"}],
        "checks": checks,
        "notes": "Exit codes: 0 held (KNOWN-FINDING lines allowed), 1 VIOLATION, 2 undecided, 3 checker error. "
                 "known_findings.json lists genuine defects of the pinned tree (each with a witness) and fixed ones.",
        "not_applicable": na,
    }
    with open(os.path.join(ROOT, "MANIFEST.json"), "w") as f:
        json.dump(m, f, indent=1)
    print("MANIFEST.json: %d checks, %d not claimed" % (len(checks), len(na)))


if __name__ == "__main__":
    main()
