#!/usr/bin/env python3
"""development helper, run by hand on the UNCHANGED tree after a triage:  ./check C13 --quick --dump /tmp/keys/C13.keys; python3 tools/mktextknown.py /tmp/keys/C13.keys
Writes known_text_inputs.json: for every (mnemonic, exception class @ phase) of the asm_text family the exact inputs (label
index -> operand indices) that fail on the tree.  tools/mkknown.py turns it into known-finding patterns.  Never run by a check."""
import json, sys, os, collections
ROOT = os.path.dirname(os.path.dirname(os.path.abspath(__file__)))
out = collections.defaultdict(lambda: collections.defaultdict(set))
for path in sys.argv[1:]:
    for l in open(path):
        k = json.loads(l)["key"]
        if not k.startswith("asm_text|"):
            continue
        lem, cell, clause, sig = k.split("|", 3)
        _, mn, what, rest = sig.split(":", 3)             # text:<mn>:escape:<Exc>@<phase>:L<i>:O<k>
        exc, li, oi = rest.rsplit(":", 2)
        out["%s|%s|%s" % (mn, what, exc)][li].add(int(oi[1:]))
data = {k: {li: sorted(v) for li, v in sorted(d.items())} for k, d in sorted(out.items())}
json.dump(data, open(os.path.join(ROOT, "known_text_inputs.json"), "w"), indent=0, sort_keys=True)
print("known_text_inputs.json: %d groups, %d inputs" % (len(data), sum(len(v) for d in data.values() for v in d.values())))
