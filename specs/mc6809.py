"""
MC6809 instruction decoder -- the oracle for C01 / C12 / C03.

Written from the Motorola MC6809 programming reference (opcode map, indexed addressing
post-byte table, PSH/PUL and TFR/EXG post-bytes).  It never reads the repo's INSTRUCTIONS
table.  All functions are plain Python over ints and also run on pyvc SymInt values (an `if` on
a symbolic condition forks the path).
"""

# ----------------------------------------------------------------------------- opcode map
# mode: inh, imm8, imm16, dir, idx, ext, rel8, rel16, pshpul, tfrexg

_LOW = ["NEG", None, None, "COM", "LSR", None, "ROR", "ASR", "ASL", "ROL", "DEC", None, "INC", "TST", "JMP", "CLR"]
_ALIASES = {"ASL": {"ASL", "LSL"}, "ASLA": {"ASLA", "LSLA"}, "ASLB": {"ASLB", "LSLB"},
            "BCC": {"BCC", "BHS"}, "BCS": {"BCS", "BLO"}, "LBCC": {"LBCC", "LBHS"}, "LBCS": {"LBCS", "LBLO"}}
_BR = ["BRA", "BRN", "BHI", "BLS", "BCC", "BCS", "BNE", "BEQ", "BVC", "BVS", "BPL", "BMI", "BGE", "BLT", "BGT", "BLE"]
_ACC_A = ["SUBA", "CMPA", "SBCA", "SUBD", "ANDA", "BITA", "LDA", "STA", "EORA", "ADCA", "ORA", "ADDA", "CMPX", "JSR", "LDX", "STX"]
_ACC_B = ["SUBB", "CMPB", "SBCB", "ADDD", "ANDB", "BITB", "LDB", "STB", "EORB", "ADCB", "ORB", "ADDB", "LDD", "STD", "LDU", "STU"]
_WIDE = {"SUBD", "CMPX", "LDX", "ADDD", "LDD", "LDU", "CMPD", "CMPY", "LDY", "LDS", "CMPU", "CMPS"}
_NOIMM = {"STA", "STX", "STB", "STD", "STU", "JSR", "STY", "STS"}


def _build():
    p0, p10, p11 = {}, {}, {}
    for i, m in enumerate(_LOW):
        if m:
            p0[0x00 + i] = (m, "dir")
            p0[0x60 + i] = (m, "idx")
            p0[0x70 + i] = (m, "ext")
            if m != "JMP":
                p0[0x40 + i] = (m + "A", "inh")
                p0[0x50 + i] = (m + "B", "inh")
    p0.update({0x12: ("NOP", "inh"), 0x13: ("SYNC", "inh"), 0x16: ("LBRA", "rel16"), 0x17: ("LBSR", "rel16"),
               0x19: ("DAA", "inh"), 0x1A: ("ORCC", "imm8"), 0x1C: ("ANDCC", "imm8"), 0x1D: ("SEX", "inh"),
               0x1E: ("EXG", "tfrexg"), 0x1F: ("TFR", "tfrexg")})
    for i, m in enumerate(_BR):
        p0[0x20 + i] = (m, "rel8")
        if i >= 1:
            p10[0x20 + i] = ("L" + m, "rel16")
    p0.update({0x30: ("LEAX", "idx"), 0x31: ("LEAY", "idx"), 0x32: ("LEAS", "idx"), 0x33: ("LEAU", "idx"),
               0x34: ("PSHS", "pshpul"), 0x35: ("PULS", "pshpul"), 0x36: ("PSHU", "pshpul"), 0x37: ("PULU", "pshpul"),
               0x39: ("RTS", "inh"), 0x3A: ("ABX", "inh"), 0x3B: ("RTI", "inh"), 0x3C: ("CWAI", "imm8"),
               0x3D: ("MUL", "inh"), 0x3F: ("SWI", "inh")})
    for base, names in ((0x80, _ACC_A), (0xC0, _ACC_B)):
        for i, m in enumerate(names):
            if m not in _NOIMM:
                p0[base + i] = (m, "imm16" if m in _WIDE else "imm8")
            p0[base + 0x10 + i] = (m, "dir")
            p0[base + 0x20 + i] = (m, "idx")
            p0[base + 0x30 + i] = (m, "ext")
    p0[0x8D] = ("BSR", "rel8")
    p10[0x3F] = ("SWI2", "inh")
    p11[0x3F] = ("SWI3", "inh")
    for page, lo, m, noimm in ((p10, 0x83, "CMPD", False), (p10, 0x8C, "CMPY", False), (p10, 0x8E, "LDY", False),
                               (p10, 0x8F, "STY", True), (p10, 0xCE, "LDS", False), (p10, 0xCF, "STS", True),
                               (p11, 0x83, "CMPU", False), (p11, 0x8C, "CMPS", False)):
        if not noimm:
            page[lo] = (m, "imm16")
        page[lo + 0x10] = (m, "dir")
        page[lo + 0x20] = (m, "idx")
        page[lo + 0x30] = (m, "ext")
    return p0, p10, p11


PAGE0, PAGE10, PAGE11 = _build()

ALL_MNEMONICS = sorted({m for pg in (PAGE0, PAGE10, PAGE11) for (m, _) in pg.values()} |
                       {"LSL", "LSLA", "LSLB", "BHS", "BLO", "LBHS", "LBLO"})


def names_of(m):
    """set of source mnemonics that denote the decoded operation m"""
    return _ALIASES.get(m, {m})


def canonical(mnemonic):
    for k, v in _ALIASES.items():
        if mnemonic in v:
            return k
    return mnemonic


def opcode_of(mnemonic, mode):
    """data-sheet opcode (int, with page prefix as high byte) of mnemonic in mode
    (inh|imm|dir|idx|ext|rel), or None when the instruction has no such mode."""
    c = canonical(mnemonic)
    for prefix, page in ((0, PAGE0), (0x10, PAGE10), (0x11, PAGE11)):
        for op, (m, md) in page.items():
            if m == c and (md == mode or (mode == "imm" and md in ("imm8", "imm16", "pshpul", "tfrexg")) or
                           (mode == "rel" and md in ("rel8", "rel16"))):
                return prefix * 256 + op
    return None


def imm_width(mnemonic):
    """operand bytes of the immediate form (1 or 2), None if no immediate form"""
    c = canonical(mnemonic)
    for page in (PAGE0, PAGE10, PAGE11):
        for op, (m, md) in page.items():
            if m == c and md in ("imm8", "imm16"):
                return 1 if md == "imm8" else 2
    return None


# ----------------------------------------------------------------------------- decoding

IDX_REGS = ["X", "Y", "U", "S"]
TFR_REGS = {0: "D", 1: "X", 2: "Y", 3: "U", 4: "S", 5: "PC", 8: "A", 9: "B", 10: "CC", 11: "DP"}
TFR_WIDTH = {"D": 16, "X": 16, "Y": 16, "U": 16, "S": 16, "PC": 16, "A": 8, "B": 8, "CC": 8, "DP": 8}


class Decoded:
    """result of decoding one instruction"""

    def __init__(self, **kw):
        self.ok = True
        self.why = ""
        self.op = None
        self.mode = None
        self.length = 0          # bytes consumed
        self.value = None        # imm / address / displacement (unsigned field value)
        self.width = 0           # operand field width in bytes
        self.reg = None          # indexed base register name, or "PC"
        self.kind = None         # indexed kind: off0, off5, off8, off16, A, B, D, inc1, inc2, dec1, dec2, pcr8, pcr16, extind
        self.indirect = False
        self.offset = None       # signed offset (indexed constant / pcr forms)
        self.regs = None         # psh/pul register set / (r0, r1) for tfr/exg
        self.__dict__.update(kw)

    def __repr__(self):
        return "Decoded(%s)" % ", ".join("%s=%r" % kv for kv in sorted(self.__dict__.items()) if kv[1] not in (None, "", 0, False))


def _bad(why):
    return Decoded(ok=False, why=why)


def _conc(b, what):
    if not isinstance(b, int):
        raise ValueError("symbolic %s byte in decoder" % what)
    return b


def sext(v, bits):
    """signed value of an unsigned field of `bits` bits (ints or SymInts)"""
    half = 1 << (bits - 1)
    full = 1 << bits
    if v >= half:
        return v - full
    return v


def decode_indexed(bs, i):
    """decode the indexed post-byte at bs[i]; returns (fields dict, next index) or (None, why)."""
    if i >= len(bs):
        return None, "truncated: no post-byte"
    pb = bs[i]
    i += 1
    if pb < 128:
        # 5-bit offset, never indirect
        regbits = 0
        r = pb
        if r >= 64:
            regbits += 2
            r = r - 64
        if r >= 32:
            regbits += 1
            r = r - 32
        return dict(reg=IDX_REGS[regbits], kind="off5", indirect=False, offset=sext(r, 5)), i
    r = pb - 128
    regbits = 0
    if r >= 64:
        regbits += 2
        r = r - 64
    if r >= 32:
        regbits += 1
        r = r - 32
    indirect = False
    if r >= 16:
        indirect = True
        r = r - 16
    # r is the low nibble; make it concrete (forks when symbolic)
    low = None
    for k in range(16):
        if r == k:
            low = k
            break
    reg = IDX_REGS[regbits]
    simple = {0: "inc1", 1: "inc2", 2: "dec1", 3: "dec2", 4: "off0", 5: "B", 6: "A", 11: "D"}
    if low in simple:
        kind = simple[low]
        if indirect and kind in ("inc1", "dec1"):
            return None, "illegal post-byte: indirect with single auto inc/dec"
        return dict(reg=reg, kind=kind, indirect=indirect, offset=0 if kind == "off0" else None), i
    if low in (8, 12):
        if i >= len(bs):
            return None, "truncated: 8-bit offset missing"
        off = sext(bs[i], 8)
        return dict(reg=reg if low == 8 else "PC", kind="off8" if low == 8 else "pcr8", indirect=indirect, offset=off), i + 1
    if low in (9, 13):
        if i + 1 >= len(bs):
            return None, "truncated: 16-bit offset missing"
        off = sext(bs[i] * 256 + bs[i + 1], 16)
        return dict(reg=reg if low == 9 else "PC", kind="off16" if low == 9 else "pcr16", indirect=indirect, offset=off), i + 2
    if low == 15:
        if not indirect or regbits != 0:
            return None, "illegal post-byte %s" % pb
        if i + 1 >= len(bs):
            return None, "truncated: extended indirect address missing"
        return dict(reg=None, kind="extind", indirect=True, value=bs[i] * 256 + bs[i + 1]), i + 2
    return None, "illegal post-byte (low nibble %s)" % low


def decode(bs):
    """decode ONE instruction at the start of the byte list bs -> Decoded (length = bytes consumed)."""
    if len(bs) == 0:
        return _bad("no bytes")
    b0 = _conc(bs[0], "opcode")
    page, i = PAGE0, 1
    if b0 == 0x10 or b0 == 0x11:
        if len(bs) < 2:
            return _bad("truncated after page prefix")
        page = PAGE10 if b0 == 0x10 else PAGE11
        b0 = _conc(bs[1], "opcode")
        i = 2
    if b0 not in page:
        return _bad("illegal opcode %02X" % b0)
    op, mode = page[b0]
    d = Decoded(op=op, mode=mode)
    if mode == "inh":
        d.length = i
        return d
    if mode in ("imm8", "dir", "rel8"):
        if len(bs) < i + 1:
            return _bad("truncated operand")
        d.value, d.width, d.length = bs[i], 1, i + 1
        if mode == "rel8":
            d.offset = sext(bs[i], 8)
        return d
    if mode in ("imm16", "ext", "rel16"):
        if len(bs) < i + 2:
            return _bad("truncated operand")
        d.value, d.width, d.length = bs[i] * 256 + bs[i + 1], 2, i + 2
        if mode == "rel16":
            d.offset = sext(d.value, 16)
        return d
    if mode in ("pshpul", "tfrexg"):
        if len(bs) < i + 1:
            return _bad("truncated post-byte")
        pb = bs[i]
        d.value, d.width, d.length = pb, 1, i + 1
        if mode == "tfrexg":
            hi = None
            lo = None
            for k in range(16):
                if pb - (pb % 16) == 16 * k:
                    hi = k
                    break
            for k in range(16):
                if pb % 16 == k:
                    lo = k
                    break
            if hi not in TFR_REGS or lo not in TFR_REGS:
                return _bad("illegal register code in TFR/EXG post-byte")
            r0, r1 = TFR_REGS[hi], TFR_REGS[lo]
            if TFR_WIDTH[r0] != TFR_WIDTH[r1]:
                return _bad("TFR/EXG between registers of different width")
            d.regs = (r0, r1)
        else:
            other = "U" if op in ("PSHS", "PULS") else "S"
            names = ["CC", "A", "B", "DP", "X", "Y", other, "PC"]
            regs = set()
            v = pb
            for k in range(7, -1, -1):
                if v >= (1 << k):
                    regs.add(names[k])
                    v = v - (1 << k)
            d.regs = frozenset(regs)
        return d
    if mode == "idx":
        f, nxt = decode_indexed(bs, i)
        if f is None:
            return _bad(nxt)
        d.__dict__.update(f)
        d.length = nxt
        return d
    return _bad("unknown mode")


# ----------------------------------------------------------------------------- sanity (setup_cmd)

def selftest():
    assert PAGE0[0x86] == ("LDA", "imm8") and PAGE0[0x8E] == ("LDX", "imm16") and PAGE0[0xBD] == ("JSR", "ext")
    assert PAGE0[0x8D] == ("BSR", "rel8") and PAGE0[0x00] == ("NEG", "dir") and PAGE0[0x3F] == ("SWI", "inh")
    assert PAGE10[0x8E] == ("LDY", "imm16") and PAGE10[0xFF] == ("STS", "ext") and PAGE11[0x8C] == ("CMPS", "imm16")
    assert PAGE10[0x27] == ("LBEQ", "rel16") and 0x20 not in PAGE10
    assert 0x87 not in PAGE0 and 0xCD not in PAGE0 and 0x8F not in PAGE0 and 0x01 not in PAGE0
    assert len(PAGE0) + len(PAGE10) + len(PAGE11) == 221 + 38 + 9, (len(PAGE0), len(PAGE10), len(PAGE11))
    d = decode([0xAE, 0xA8, 0x14])
    assert d.ok and d.op == "LDX" and d.reg == "Y" and d.kind == "off8" and d.offset == 20 and d.length == 3
    d = decode([0xA6, 0x9F, 0x12, 0x34])
    assert d.ok and d.kind == "extind" and d.value == 0x1234 and d.length == 4
    d = decode([0xA6, 0x1F])
    assert d.ok and d.kind == "off5" and d.offset == -1 and d.reg == "X"
    assert not decode([0xA6, 0x90]).ok and not decode([0xA6, 0x92]).ok and not decode([0xA6, 0x87]).ok
    assert decode([0x34, 0x46]).regs == frozenset({"A", "B", "U"}) and decode([0x36, 0x40]).regs == frozenset({"S"})
    assert decode([0x1F, 0x12]).regs == ("X", "Y") and not decode([0x1F, 0x18]).ok
    assert decode([0x10, 0x27, 0xFF, 0xFE]).offset == -2
    assert opcode_of("LSL", "dir") == 0x08 and opcode_of("NEG", "dir") == 0 and opcode_of("LDA", "inh") is None
    assert opcode_of("CMPS", "imm") == 0x118C and opcode_of("LBHS", "rel") == 0x1024 and opcode_of("PSHS", "imm") == 0x34
    assert imm_width("LDA") == 1 and imm_width("CMPD") == 2 and imm_width("STA") is None
    return True


if __name__ == "__main__":
    selftest()
    print("mc6809 spec selftest ok: %d + %d + %d opcodes" % (len(PAGE0), len(PAGE10), len(PAGE11)))
