"""
Expression arithmetic of C04: + - * and truncating / on integers (ints or pyvc SymInts).
The caller reduces modulo 65536 or demands rejection; division by zero is the caller's case.
"""


def trunc_div(a, b):
    """integer division truncating toward zero (b != 0)"""
    try:
        from pyvc.sym import SymInt, truncdiv
        if isinstance(a, SymInt) or isinstance(b, SymInt):
            return truncdiv(a, b)
    except ImportError:
        pass
    q = abs(a) // abs(b)
    return q if (a >= 0) == (b > 0) else -q


def evaluate(op, l, r):
    if op == "+":
        return l + r
    if op == "-":
        return l - r
    if op == "*":
        return l * r
    if op == "/":
        return trunc_div(l, r)
    raise ValueError(op)


def selftest():
    assert evaluate("/", 7, 2) == 3 and evaluate("/", -7, 2) == -3 and evaluate("/", 7, -2) == -3
    assert evaluate("-", 2, 5) == -3 and evaluate("*", 300, 300) == 90000
    return True
