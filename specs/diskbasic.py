"""
Disk BASIC (RS-DOS) 35-track image layout -- oracle for C07 / C08 / C15.
Written from the Disk BASIC format (Color Computer Disk System manual): 35 tracks x 18 sectors x
256 bytes; track 17 holds the file allocation table (sector 2) and the directory (sectors 3-11);
68 granules of 9 sectors, granules 0-33 on tracks 0-16 and 34-67 on tracks 18-34.

All functions work on lists whose elements are ints, or pyvc SymInts for file CONTENTS (structure
bytes -- FAT, directory -- must be concrete for check()/files()).
"""

IMAGE_SIZE = 35 * 18 * 256          # 161,280
GRANULE = 9 * 256                   # 2,304
TRACK = 18 * 256
DIR_TRACK = 17
FAT_OFFSET = DIR_TRACK * TRACK + 256          # sector 2 of track 17
DIR_OFFSET = DIR_TRACK * TRACK + 2 * 256      # sector 3
DIR_ENTRIES = 72
NGRAN = 68


class DiskFormatError(Exception):
    pass


def offset(g):
    """byte offset of granule g (skips the directory track)"""
    track = g // 2 if g < 34 else g // 2 + 1
    return track * TRACK + (g % 2) * GRANULE


def offset_sym(g):
    """same for a symbolic granule number (linear form)"""
    return g * GRANULE + (2 * GRANULE if g >= 34 else 0) if isinstance(g, int) else None


def blank():
    return [0xFF] * IMAGE_SIZE


def chain(image, first):
    """granule chain starting at `first`: ([granules], sectors_in_last)"""
    seen = []
    g = first
    while True:
        if not (isinstance(g, int) and 0 <= g < NGRAN):
            raise DiskFormatError("chain leaves granules 0-67 (%r)" % (g,))
        if g in seen:
            raise DiskFormatError("chain revisits granule %d" % g)
        seen.append(g)
        e = image[FAT_OFFSET + g]
        if not isinstance(e, int):
            raise DiskFormatError("symbolic FAT entry")
        if 0xC0 <= e <= 0xC9:
            return seen, e - 0xC0
        if e >= 0xC0:
            raise DiskFormatError("last-granule marker with %d sectors at granule %d" % (e & 0x3F, g))
        if e >= NGRAN:
            raise DiskFormatError("FAT entry %d of granule %d is neither a granule nor a terminator" % (e, g))
        g = e


def entries(image):
    """active directory entries: list of dict(slot, name, ext, ftype, ascii, first, last_bytes)"""
    out = []
    for slot in range(DIR_ENTRIES):
        p = DIR_OFFSET + 32 * slot
        b0 = image[p]
        if b0 == 0x00:
            continue
        if b0 == 0xFF:
            continue        # Disk BASIC stops at the first FF entry; the tool may leave holes, which we tolerate
        e = image[p:p + 32]
        out.append(dict(slot=slot, name="".join(chr(c) for c in e[0:8]), ext="".join(chr(c) for c in e[8:11]), ftype=e[11],
                        ascii=e[12], first=e[13], last_bytes=e[14] * 256 + e[15]))
    return out


def stream_of(image, gran_chain):
    out = []
    for g in gran_chain:
        o = offset(g)
        out.extend(image[o:o + GRANULE])
    return out


def check(image, fresh=None):
    """C08 consistency check.  Returns a list of file dicts (with chain, stream length) or raises DiskFormatError."""
    if len(image) != IMAGE_SIZE:
        raise DiskFormatError("image size %d" % len(image))
    used = {}
    files = []
    for e in entries(image):
        ch, sectors = chain(image, e["first"])
        for g in ch:
            if g in used:
                raise DiskFormatError("granule %d belongs to two files" % g)
            used[g] = e["slot"]
        if e["last_bytes"] > 256:
            raise DiskFormatError("bytes in last sector %d" % e["last_bytes"])
        if sectors == 0 and e["last_bytes"] != 0:
            raise DiskFormatError("zero sectors but %d bytes in last sector" % e["last_bytes"])
        length = (len(ch) - 1) * GRANULE + (max(sectors, 1) - 1) * 256 + e["last_bytes"]
        f = dict(e)
        f.update(chain=ch, sectors=sectors, length=length)
        files.append(f)
    for g in range(NGRAN):
        v = image[FAT_OFFSET + g]
        if v != 0xFF and g not in used:
            raise DiskFormatError("FAT entry of granule %d is in use (%02X) but belongs to no file" % (g, v))
    if fresh is not None:
        allowed = set()
        for g in used:
            allowed.update(range(offset(g), offset(g) + GRANULE))
        allowed.update(range(FAT_OFFSET, FAT_OFFSET + 256))
        allowed.update(range(DIR_OFFSET, DIR_OFFSET + 9 * 256))
        for i in range(IMAGE_SIZE):
            if i not in allowed and image[i] is not fresh[i] and image[i] != fresh[i]:
                raise DiskFormatError("byte %d outside the allocated granules / FAT / directory differs from a fresh image" % i)
    return files


def decode_file(image, f):
    """split the stream of a checked file into (load, exec, data) according to its kind"""
    stream = stream_of(image, f["chain"])[:f["length"]]
    if f["ftype"] == 2:
        if len(stream) < 10:
            raise DiskFormatError("ML file shorter than header + trailer")
        if stream[0] != 0x00:
            raise DiskFormatError("ML header flag")
        n = stream[1] * 256 + stream[2]
        load = stream[3] * 256 + stream[4]
        if len(stream) != n + 10:
            raise DiskFormatError("ML stream length %d != data length %d + 10" % (len(stream), n))
        t = stream[5 + n:]
        if t[0] != 0xFF or t[1] != 0 or t[2] != 0:
            raise DiskFormatError("ML trailer bytes %s" % (t[:3],))
        return load, t[3] * 256 + t[4], stream[5:5 + n]
    if f["ascii"] == 0xFF:
        return None, None, stream
    if len(stream) < 3 or stream[0] != 0xFF:
        raise DiskFormatError("BASIC header")
    n = stream[1] * 256 + stream[2]
    if len(stream) != n + 3:
        raise DiskFormatError("BASIC stream length %d != %d + 3" % (len(stream), n))
    return None, None, stream[3:]


def files(image):
    """independent reader: every file of a well-formed image"""
    out = []
    for f in check(image):
        load, exe, data = decode_file(image, f)
        g = dict(f)
        g.update(load=load, exec=exe, data=data)
        out.append(g)
    return out


def build(file_list, order=None, image=None):
    """reference writer used to make FOREIGN well-formed images: files = [(name, ext, ftype, ascii, load, exec, data)],
    order = granule allocation order (any permutation)"""
    image = image if image is not None else blank()
    for i in range(FAT_OFFSET + NGRAN, FAT_OFFSET + 256):
        image[i] = 0x00
    order = list(order if order is not None else range(NGRAN))
    slot = 0
    for (name, ext, ftype, asc, load, exe, data) in file_list:
        if ftype == 2:
            stream = [0, len(data) >> 8, len(data) & 255, load >> 8, load & 255] + list(data) + [0xFF, 0, 0, exe >> 8, exe & 255]
        elif asc == 0xFF:
            stream = list(data)
        else:
            stream = [0xFF, len(data) >> 8, len(data) & 255] + list(data)
        n = len(stream)
        ng = max(1, -(-n // GRANULE))
        grans = []
        for g in order:
            if image[FAT_OFFSET + g] == 0xFF and g not in grans:
                grans.append(g)
                if len(grans) == ng:
                    break
        if len(grans) < ng:
            raise DiskFormatError("disk full")
        for k, g in enumerate(grans):
            chunk = stream[k * GRANULE:(k + 1) * GRANULE]
            o = offset(g)
            image[o:o + len(chunk)] = chunk
            image[FAT_OFFSET + g] = grans[k + 1] if k + 1 < len(grans) else None
        rest = n - (ng - 1) * GRANULE
        sectors = max(1, -(-rest // 256))
        image[FAT_OFFSET + grans[-1]] = 0xC0 + sectors
        last_bytes = rest - (sectors - 1) * 256
        while image[DIR_OFFSET + 32 * slot] not in (0x00, 0xFF):
            slot += 1
        p = DIR_OFFSET + 32 * slot
        image[p:p + 32] = [ord(c) for c in name.upper().ljust(8)[:8]] + [ord(c) for c in ext.upper().ljust(3)[:3]] + \
            [ftype, asc, grans[0], last_bytes >> 8, last_bytes & 255] + [0] * 16
    return image


def selftest():
    assert offset(0) == 0 and offset(33) == 33 * GRANULE and offset(34) == 36 * GRANULE and offset(67) == 69 * GRANULE
    assert offset(67) + GRANULE == IMAGE_SIZE and FAT_OFFSET == 78592 and DIR_OFFSET == 78848
    assert all(not (offset(g) < (DIR_TRACK + 1) * TRACK and offset(g) + GRANULE > DIR_TRACK * TRACK) for g in range(NGRAN))
    data = list(range(256)) * 20
    img = build([("HELLO", "BIN", 2, 0, 0x0E00, 0x0E10, data), ("B", "BAS", 0, 0, 0, 0, [1, 2, 3]), ("T", "TXT", 1, 0xFF, 0, 0, [65] * 300)],
                order=[33, 34, 5, 67, 0] + [g for g in range(68) if g not in (33, 34, 5, 67, 0)])
    fs = files(img)
    assert [f["name"] for f in fs] == ["HELLO   ", "B       ", "T       "]
    assert fs[0]["data"] == data and fs[0]["load"] == 0x0E00 and fs[0]["exec"] == 0x0E10 and fs[0]["chain"] == [33, 34, 5]
    assert fs[1]["data"] == [1, 2, 3] and fs[2]["data"] == [65] * 300
    check(img, fresh=blank_with_fat())
    bad = list(img)
    bad[FAT_OFFSET + 34] = 33
    try:
        check(bad)
        assert False
    except DiskFormatError:
        pass
    return True


def blank_with_fat():
    b = blank()
    return b
