"""
CoCo cassette format -- oracle for C14 / C06 (written from the property statement and the Color
Computer tape format: blocks framed  55 3C type len payload cksum 55 ).

  block(t, payload)            one framed block
  namefile_payload(...)        the 15 payload bytes of a name-file block
  blocks(data)                 greedy 255-byte chunking (one valid choice of the format)
  parse_stream(buf)            independent recogniser: files of ANY well-formed stream
                               (arbitrary leader lengths >= 1, optional gaps), checksums verified
"""


class TapeFormatError(Exception):
    pass


def checksum(btype, payload):
    return (btype + len(payload) + sum(payload)) % 256


def block(btype, payload):
    assert len(payload) <= 255
    return [0x55, 0x3C, btype, len(payload)] + list(payload) + [checksum(btype, payload), 0x55]


def pad_name(name):
    codes = [ord(c) for c in name[:8]]
    return codes + [0x20] * (8 - len(codes))


def namefile_payload(name, ftype, dtype, gap, load, exe):
    return pad_name(name) + [ftype, dtype, gap, load >> 8, load & 255, exe >> 8, exe & 255]


def blocks(data):
    out = []
    data = list(data)
    while data:
        out += block(0x01, data[:255])
        data = data[255:]
    return out


EOF_BLOCK = [0x55, 0x3C, 0xFF, 0x00, 0xFF, 0x55]


def tape_file(name, ftype, dtype, load, exe, data, gap_len=128, leader_len=128):
    return ([0] * gap_len + [0x55] * leader_len + block(0, namefile_payload(name, ftype, dtype, 0, load, exe)) +
            [0] * gap_len + [0x55] * leader_len + blocks(data) + EOF_BLOCK)


def _read_block(buf, p, leader=False):
    """ 00* 55+ 3C type len payload cksum 55  -> (type, payload, next p) or None at clean end of tape.
    The last 55 before 3C is the block's own frame byte; leader=True demands at least one leader byte 55 in front of it."""
    n = len(buf)
    while p < n and buf[p] == 0x00:
        p += 1
    if p >= n:
        return None
    q = p
    while q < n and buf[q] == 0x55:
        q += 1
    if q == p:
        raise TapeFormatError("no leader byte at %d" % p)
    if q >= n:
        return None                      # trailing leader only
    if buf[q] != 0x3C:
        raise TapeFormatError("no sync byte after leader at %d" % q)
    if leader and q - p < 2:
        raise TapeFormatError("no leader in front of the block at %d" % p)
    if q + 3 > n:
        raise TapeFormatError("truncated block header")
    btype, ln = buf[q + 1], buf[q + 2]
    if q + 3 + ln + 2 > n:
        raise TapeFormatError("truncated block")
    payload = list(buf[q + 3:q + 3 + ln])
    if buf[q + 3 + ln] != checksum(btype, payload):
        raise TapeFormatError("bad checksum at %d" % (q + 3 + ln))
    if buf[q + 4 + ln] != 0x55:
        raise TapeFormatError("missing trailer byte")
    return btype, payload, q + 5 + ln


def parse_stream(buf):
    """-> list of dict(name(8 raw chars), ftype, dtype, gap, load, exec, data, blocks=[payload sizes])"""
    files = []
    p = 0
    while True:
        r = _read_block(buf, p, leader=True)
        if r is None:
            return files
        btype, payload, p = r
        if btype != 0x00 or len(payload) != 15:
            raise TapeFormatError("expected a name-file block of 15 payload bytes")
        f = dict(name="".join(chr(c) for c in payload[:8]), ftype=payload[8], dtype=payload[9], gap=payload[10],
                 load=payload[11] * 256 + payload[12], exec=payload[13] * 256 + payload[14], data=[], blocks=[])
        first = True
        while True:
            r = _read_block(buf, p, leader=first)
            first = False
            if r is None:
                raise TapeFormatError("file without end-of-file block")
            btype, payload, p = r
            if btype == 0x01:
                f["data"] += payload
                f["blocks"].append(len(payload))
            elif btype == 0xFF:
                if payload:
                    raise TapeFormatError("EOF block with payload")
                break
            else:
                raise TapeFormatError("unexpected block type %d" % btype)
        files.append(f)


def selftest():
    t = tape_file("HELLO", 2, 0, 0x0E00, 0x0E00, list(range(256)) * 2 + [0x55, 0x3C, 0xFF])
    fs = parse_stream(t + t)
    assert len(fs) == 2 and fs[0]["name"] == "HELLO   " and fs[0]["load"] == 0x0E00 and fs[0]["blocks"] == [255, 255, 5]
    assert fs[1]["data"] == list(range(256)) * 2 + [0x55, 0x3C, 0xFF]
    assert parse_stream(tape_file("", 0, 255, 0, 0, [])) [0]["data"] == []
    for cut in (range(128, 256), range(256 + 21 + 128, 256 + 21 + 256)):
        nolead = [b for k, b in enumerate(t) if k not in cut or b != 0x55]
        try:
            parse_stream(t + nolead)
            assert False
        except TapeFormatError:
            pass
    bad = list(t)
    bad[300] ^= 1
    try:
        parse_stream(bad)
        assert False
    except TapeFormatError:
        pass
    # fixture from the repo's own test-suite: one-byte file
    import os, sys
    return True
