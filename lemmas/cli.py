"""
Command-line level lemmas over a ghost filesystem (C10, C11, C09, C16, C13-CLI).

The configuration space of C10 is finite and enumerated completely:
  {--to_bin, --to_cas, --to_dsk} x {append, no append} x pre-existing target
  {absent, empty, cassette image, disk image, raw binary, arbitrary bytes, cassette image >= 161,280 bytes}
through assembler.main and file_util.main, executed by the AST interpreter on the real sources (so that every
write to the ghost filesystem is observed) and replayed natively in a scratch directory.
Oracles: specs/tape.parse_stream, specs/diskbasic.files (independent readers), byte comparison of the target.
"""
from specs import tape, diskbasic as db
from pyvc.clih import run_cli
from pyvc.asmh import assemble

PROGRAMS = {
    "named": ["        NAM hello\n", "        ORG $0E00\n", "START   LDA #$41\n", "        STA $0400\n", "LOOP    BRA LOOP\n",
              "        FCB 1,2,3\n", "        END START\n"],
    "unnamed": ["        ORG $3F00\n", "START   LDX #$1234\n", "        RTS\n", "        END START\n"],
    "noorg": ["        NAM NOORG\n", "        CLRA\n", "        RTS\n"],
    "longname": ["        NAM averylongname\n", "        ORG $7000\n", "        NOP\n", "        RTS\n"],
    "namlate": ["        ORG $2000\n", "BEGIN   LDA #$41\n", "        NAM later\n", "        STA $0400\n", "        RTS\n"],
    "namlast": ["        ORG $2100\n", "        CLRA\n", "        RTS\n", "        NAM tail\n"],
    # larger than one cassette block (255 bytes) / one disk sector; mixed content so that a shortened or shifted copy shows
    "big600": ["        NAM big\n", "        ORG $4000\n", "ENTRY   LDA #$41\n"] + ["        FDB $%04X,$%04X,$%04X,$%04X\n" % (4 * k + 0x1001, 4 * k + 0x2002, 4 * k + 0x3003, 4 * k + 0x4004) for k in range(75)] +
              ["        RTS\n", "        END ENTRY\n"],
    "exact255": ["        NAM edge\n", "        ORG $5000\n"] + ["        FCB %s\n" % ",".join(str((17 * k + j) % 256) for j in range(15)) for k in range(17)],
    # images that need more than 22 / almost all 28 granules a 64K program can take (the allocation runs far along the fill order)
    "big51k": ["        NAM huge\n", "        ORG $1000\n", "GO      LDA #$41\n", "        RMB 50700\n", "        FDB $A55A,$1234\n", "        RTS\n",
               "        END GO\n"],
    "big60k": ["        NAM most\n", "        ORG $0800\n", "GO      LDX #$BEEF\n", "        RMB 30000\n", "        FCB 1,2,3\n", "        RMB 30400\n",
               "        FDB $5AA5\n", "        RTS\n"],
    # machine code that contains the tape block marker $55 $3C (followed by $FF, $01 and another value) inside cassette blocks,
    # assembled at an origin that is itself the marker
    "markers": ["        NAM marks\n", "        ORG $553C\n", "GO      LDA #$55\n", "        CWAI #$FF\n", "        LDB #$55\n", "        CWAI #$EF\n"] +
               ["        FDB $%04X\n" % (0x1000 + 7 * k) for k in range(140)] +
               ["        FCB $55,$3C,$01,$02\n", "        LDA #$55\n", "        CWAI #$FF\n", "        RTS\n", "        END GO\n"],
    "bad": ["        ORG $0E00\n", "        LDA #$41\n", "        FOO 12\n"],
}
# program sizes at which the disk stream (5 header + data + 5 trailer bytes) ends exactly at, 1, 4 and 5 bytes behind a granule
# boundary (2304 bytes), and the same two granules further: the trailer is then split over / alone in the last granule
for _n in (2294, 2295, 2298, 2299, 4602, 6903):
    PROGRAMS["gran%d" % _n] = ["        NAM g%d\n" % _n, "        ORG $2000\n", "GO      LDA #$41\n", "        RMB %d\n" % (_n - 5 - 2 * 20)] + \
        ["        FDB $%04X\n" % (0x8001 + 259 * k) for k in range(20)] + ["        FDB $A55A\n", "EXIT    RTS\n", "        END EXIT\n"]
PROGRAMS.update({
    "undefined": ["        ORG $0E00\n", "        JMP NOWHERE\n"],
})

OLD_DATA = [0x12, 0x39, 0x55, 0x3C, 0x00, 0xFF] * 7


def old_tape():
    return tape.tape_file("OLDFILE", 2, 0, 0x2000, 0x2002, OLD_DATA)


def big_tape():
    # one cassette image larger than a disk image (all-zero payload makes the disk reader choke first)
    return tape.tape_file("BIG", 2, 0, 0x1000, 0x1000, [0] * 170000)


def old_disk():
    return db.build([("OLDFILE", "BIN", 2, 0, 0x2000, 0x2002, OLD_DATA)])


def big_tape_ff_at_dir():
    # a long cassette image with $FF exactly where a disk image has the first byte of its first directory entry
    data = [0x41] * 170000
    data[76511] = 0xFF
    return tape.tape_file("BIG", 2, 0, 0x1000, 0x1000, data)


def frag_disk():
    # a valid disk image whose only file starts in the LAST granule and continues in lower ones (chain 67 -> 66 -> 65)
    return db.build([("FRAG", "BIN", 2, 0, 0x2000, 0x2002, [(3 * i + 1) % 256 for i in range(5000)])], order=list(range(67, -1, -1)))


def blank_disk():
    # a valid disk image that lists no files: never written (all $FF in the directory)
    return db.build([])


def killed_disk():
    # a valid disk image whose only entry was deleted (first byte $00); its data is still in the granule
    img = db.build([("GONE", "BIN", 2, 0, 0x2000, 0x2002, [7] * 40)])
    img[db.DIR_OFFSET] = 0x00
    for g in range(68):
        img[db.FAT_OFFSET + g] = 0xFF
    return img


PRE = {
    "absent": None,
    "empty": [],
    "cas": old_tape,
    "dsk": old_disk,
    "raw": lambda: [0x86, 0x41, 0x39] * 5,
    "arbitrary": lambda: [(i * 37 + 5) % 251 for i in range(300)],
    "bigcas": big_tape,
    "bigcas-ff": big_tape_ff_at_dir,
    "dsk-frag": frag_disk,
    "dsk-blank": blank_disk,
    "dsk-killed": killed_disk,
}


def classify(content):
    """what an existing target IS, per the independent readers: set of kinds it can be read as"""
    kinds = set()
    if content is None:
        return kinds
    if len(content) == db.IMAGE_SIZE:
        try:
            db.check(content)
            kinds.add("dsk")
        except db.DiskFormatError:
            pass
    try:
        fs = tape.parse_stream(content)
        kinds.add("cas-empty" if not fs else "cas")
    except tape.TapeFormatError:
        pass
    if "dsk" not in kinds and "cas" not in kinds:
        kinds.add("bin")
    return kinds


def _told(stdout):
    return any(str(l).strip() for l in stdout)


class CliAssembler:
    name = "cli_assembler"
    props = ("C10", "C11", "C09", "C13")
    max_paths = 50

    def cells(self, tier):
        out = []
        for t in ("bin", "cas", "dsk"):
            for ap in (False, True):
                for pre in PRE:
                    for prog in (("named", "unnamed", "namlate") if tier == "quick" else ("named", "unnamed", "noorg", "longname", "namlate", "namlast")):
                        if prog != "named" and pre not in ("absent", "cas", "dsk"):
                            continue
                        out.append({"id": "asm/%s/%s/%s/%s" % (t, "append" if ap else "noappend", pre, prog), "k": "save", "t": t,
                                    "append": ap, "pre": pre, "prog": prog})
        for prog in ("bad", "undefined"):
            for t in ("bin", "cas", "dsk"):
                for pre in ("absent", "cas"):
                    out.append({"id": "asm-diag/%s/%s/%s" % (prog, t, pre), "k": "diag", "t": t, "pre": pre, "prog": prog})
        out.append({"id": "asm/name-option/cas", "k": "nameopt", "t": "cas"})
        out.append({"id": "asm/name-option/dsk", "k": "nameopt", "t": "dsk"})
        for prog in ("named", "namlate", "namlast"):
            for t in ("cas", "dsk"):
                out.append({"id": "asm/name-option-and-nam/%s/%s" % (prog, t), "k": "nameboth", "t": t, "prog": prog})
        out.append({"id": "asm/sequence/cas-same-name", "k": "seqsame", "t": "cas"})
        out.append({"id": "asm/sequence/dsk-same-name", "k": "seqsame", "t": "dsk"})
        out.append({"id": "asm/all-three", "k": "all3"})
        # every combination of two or three output switches, on programs below / at / above one cassette block
        for prog in ("named", "exact255", "big600"):
            for combo in (("bin", "cas"), ("bin", "dsk"), ("cas", "dsk"), ("bin", "cas", "dsk")):
                if prog == "named" and len(combo) == 3:
                    continue
                out.append({"id": "asm/combined/%s/%s" % ("+".join(combo), prog), "k": "all3", "combo": combo, "prog": prog})
        for combo in (("bin", "cas"), ("bin", "dsk"), ("bin", "cas", "dsk"), ("cas", "dsk")):
            out.append({"id": "asm/combined/%s/unnamed" % "+".join(combo), "k": "all3", "combo": combo, "prog": "unnamed"})
        out.append({"id": "asm/combined/bin+cas+dsk/markers", "k": "all3", "combo": ("bin", "cas", "dsk"), "prog": "markers"})
        out.append({"id": "asm/combined/bin+cas+dsk/big51k", "k": "all3", "combo": ("bin", "cas", "dsk"), "prog": "big51k"})
        out.append({"id": "asm/combined/cas+dsk/big60k", "k": "all3", "combo": ("cas", "dsk"), "prog": "big60k"})
        for n in (2294, 2295, 2298, 2299, 4602, 6903):
            out.append({"id": "asm/combined/cas+dsk/gran%d" % n, "k": "all3", "combo": ("cas", "dsk"), "prog": "gran%d" % n})
        out.append({"id": "asm/sequence/cas-append-twice", "k": "seq", "t": "cas"})
        out.append({"id": "asm/sequence/dsk-append-twice", "k": "seq", "t": "dsk"})
        return out

    def run(self, env, cell):
        getattr(self, "k_" + cell["k"])(env, cell, env.mode == "native")

    # ---- helpers
    def _assembled(self, env, lines):
        run = assemble(env, lines)
        return run

    def _target(self, t):
        return {"bin": "out.bin", "cas": "out.cas", "dsk": "out.dsk"}[t]

    def _expect_file(self, run, prog, name_opt=None):
        name = run.name or name_opt
        origin = run.origin if run.origin is not None else 0
        return name, origin, list(run.image)

    def _check_image(self, env, t, content, old_files, newfile, clause, props, sig):
        """content must be a complete image of kind t holding old_files + [newfile] (name, load, exec, data)"""
        name, origin, image = newfile
        if t == "bin":
            env.ensure(clause, content == image, props, sig("binary-differs:len=%d,want=%d" % (len(content), len(image))))
            return
        try:
            if t == "cas":
                fs = [(f["name"], f["ftype"], f["load"], f["exec"], f["data"]) for f in tape.parse_stream(content)]
            else:
                fs = [(f["name"], f["ftype"], f["load"], f["exec"], f["data"]) for f in db.files(content)]
        except (tape.TapeFormatError, db.DiskFormatError) as e:
            import re
            env.fail(clause, props, sig("not-a-%s-image:%s" % (t, re.sub(r"\d+", "N", str(e)))))
            return
        want = list(old_files) + [((name or "")[:8].upper().ljust(8), 2, origin, origin, image)]
        if len(fs) != len(want):
            env.fail(clause, props, sig("file-count=%d,want=%d" % (len(fs), len(want))))
            return
        for j, (g, w) in enumerate(zip(fs, want)):
            ok = g[0].upper().ljust(8) == w[0].upper().ljust(8) and g[1] == w[1] and g[2] == w[2] and g[3] == w[3] and g[4] == w[4]
            env.ensure(clause, ok, props, sig("file@%d:name=%s,load=%s,exec=%s,len=%d" % (j, g[0].upper() == w[0].upper(), g[2] == w[2],
                                                                                             g[3] == w[3], len(g[4]))))
        # ... and the TOOL's own listing of that image returns the same files (the property speaks of listing the image)
        from pyvc.filesh import Files, Raised
        F = Files(env)
        try:
            cont = F.new("cocoasm.virtualfiles.cassette" if t == "cas" else "cocoasm.virtualfiles.disk",
                         "CassetteFile" if t == "cas" else "DiskFile", buffer=list(content))
            listed = list(F.method(cont, "list_files"))
        except Raised as e:
            env.fail(clause + ":tool-listing", props, sig("tool-listing-raised:%s" % e.cls))
            return
        if len(listed) != len(want):
            env.fail(clause + ":tool-listing", props, sig("tool-listing:file-count=%d,want=%d" % (len(listed), len(want))))
            return
        for j, (g, w) in enumerate(zip(listed, want)):
            la, ea = F.get(g, "load_addr"), F.get(g, "exec_addr")
            ok = str(F.get(g, "name")).upper().strip().ljust(8) == w[0].upper().strip().ljust(8) and F.intval(F.get(g, "type")) == w[1] and \
                (not F.is_none_value(la)) and F.intval(la) == w[2] and (not F.is_none_value(ea)) and F.intval(ea) == w[3] and \
                list(F.get(g, "data")) == list(w[4])
            env.ensure(clause + ":tool-listing", ok, props, sig("tool-listing:file@%d:len=%d,want=%d" % (j, len(list(F.get(g, "data"))), len(w[4]))))

    def k_save(self, env, cell, native):
        t, ap, pre, prog = cell["t"], cell["append"], cell["pre"], cell["prog"]
        lines = PROGRAMS[prog]
        target = self._target(t)
        before = PRE[pre]() if callable(PRE[pre]) else PRE[pre]
        fs = {"prog.asm": list(lines)}
        if before is not None:
            fs[target] = list(before)
        args = {"filename": "prog.asm", "to_" + t: target, "append": ap}
        r = run_cli(env, "assembler", args, fs)
        env.info["cli"] = repr(r)
        sigp = "asm/%s/%s/%s/%s" % (t, "append" if ap else "noappend", pre, prog)
        sig = lambda w: (lambda: "%s:%s" % (sigp, w)) if native else None
        if r.escape:
            env.fail("C13:cli-no-traceback", ("C13",), sig("escape:%s" % r.escape))
            return
        env.ensure("C13:cli-no-traceback", True, ("C13",))
        run = self._assembled(env, lines)
        newfile = self._expect_file(run, prog)
        after = r.fs.get(target)
        kinds = classify(before)
        exists = before is not None
        same_kind = (t == "cas" and ("cas" in kinds or "cas-empty" in kinds)) or (t == "dsk" and "dsk" in kinds) or \
                    (t == "bin" and "bin" in kinds)
        other_kind = exists and not same_kind
        ambiguous = exists and t == "cas" and kinds == {"cas-empty", "bin"}
        noname = t in ("cas", "dsk") and not newfile[0]
        changed = after != before
        if noname:
            env.ensure("C11:no-name-no-file", not changed, ("C11", "C10"), sig("file-created-without-name"))
            return
        if exists and not ap:
            env.ensure("C10:unchanged-without-append", not changed, ("C10",), sig("modified-without-append"))
            env.ensure("C10:told-why", _told(r.stdout), ("C10",), sig("silent-refusal"))
            return
        if exists and ap and other_kind and not ambiguous:
            env.ensure("C10:unchanged-other-kind", not changed, ("C10",), sig("modified-other-kind:%s" % sorted(kinds)))
            env.ensure("C10:told-why", _told(r.stdout), ("C10",), sig("silent-refusal"))
            return
        if ambiguous and not changed:
            env.ensure("C10:told-why", _told(r.stdout), ("C10",), sig("silent-refusal"))
            return
        # the save must proceed: new path, or append onto an image of the same kind
        old_files = []
        if exists and same_kind and t != "bin":
            try:
                if t == "cas":
                    old_files = [(f["name"], f["ftype"], f["load"], f["exec"], f["data"]) for f in tape.parse_stream(before)]
                else:
                    old_files = [(f["name"], f["ftype"], f["load"], f["exec"], f["data"]) for f in db.files(before)]
            except Exception:  # noqa
                old_files = []
        if not changed:
            if exists and t == "bin":
                # appending to a raw binary has no defined meaning in the properties; refusing (with a message) is fine
                env.ensure("C10:told-why", _told(r.stdout), ("C10",), sig("silent-refusal"))
                return
            env.fail("C09:append-proceeds" if exists else "C11:file-written", ("C09",) if exists else ("C11", "C10"),
                     sig("target-not-written:%s" % ("; ".join(str(x) for x in r.stdout[:2]))[:40]))
            return
        self._check_image(env, t, after, old_files, newfile, "C11:saved-image" if not exists else "C09:appended-image",
                          ("C11", "C10") if not exists else ("C09", "C10", "C11"), sig)

    def k_diag(self, env, cell, native):
        t, pre, prog = cell["t"], cell["pre"], cell["prog"]
        target = self._target(t)
        before = PRE[pre]() if callable(PRE[pre]) else PRE[pre]
        fs = {"prog.asm": list(PROGRAMS[prog])}
        if before is not None:
            fs[target] = list(before)
        r = run_cli(env, "assembler", {"filename": "prog.asm", "to_" + t: target, "append": True}, fs)
        sig = lambda w: (lambda: "asm-diag/%s/%s/%s:%s" % (prog, t, pre, w)) if native else None
        if r.escape:
            env.fail("C13:cli-no-traceback", ("C13",), sig("escape:%s" % r.escape))
            return
        env.ensure("C13:diagnostic-exits-nonzero", r.exit not in (None, 0), ("C13",), sig("exit=%s" % r.exit))
        env.ensure("C13:diagnostic-writes-nothing", r.fs.get(target) == before, ("C13", "C10"), sig("target-modified"))
        env.ensure("C13:diagnostic-printed", _told(r.stdout), ("C13",), sig("silent"))

    def k_nameopt(self, env, cell, native):
        t = cell["t"]
        target = self._target(t)
        lines = PROGRAMS["unnamed"]
        r = run_cli(env, "assembler", {"filename": "prog.asm", "to_" + t: target, "name": "given"}, {"prog.asm": list(lines)})
        sig = lambda w: (lambda: "asm/name-option/%s:%s" % (t, w)) if native else None
        if r.escape:
            env.fail("C13:cli-no-traceback", ("C13",), sig("escape:%s" % r.escape))
            return
        run = self._assembled(env, lines)
        after = r.fs.get(target)
        if after is None:
            env.fail("C11:saved-image", ("C11",), sig("no-file"))
            return
        self._check_image(env, t, after, [], self._expect_file(run, "unnamed", "given"), "C11:saved-image", ("C11",), sig)

    def k_nameboth(self, env, cell, native):
        """NAM in the source wins over --name, wherever the NAM statement stands"""
        t, prog = cell["t"], cell["prog"]
        target = self._target(t)
        lines = PROGRAMS[prog]
        r = run_cli(env, "assembler", {"filename": "prog.asm", "to_" + t: target, "name": "OTHER"}, {"prog.asm": list(lines)})
        sig = lambda w: (lambda: "asm/name-option-and-nam/%s/%s:%s" % (prog, t, w)) if native else None
        if r.escape:
            env.fail("C13:cli-no-traceback", ("C13",), sig("escape:%s" % r.escape))
            return
        run = self._assembled(env, lines)
        after = r.fs.get(target)
        if after is None:
            env.fail("C11:saved-image", ("C11",), sig("no-file"))
            return
        nam = [l.split()[1] for l in lines if l.split()[:1] == ["NAM"]][0]
        self._check_image(env, t, after, [], (nam, run.origin if run.origin is not None else 0, list(run.image)), "C11:saved-image", ("C11",), sig)

    def k_seqsame(self, env, cell, native):
        """appending a file whose name is already on the image keeps the earlier file(s)"""
        t = cell["t"]
        target = self._target(t)
        sig = lambda w: (lambda: "asm/sequence-same-name/%s:%s" % (t, w)) if native else None
        a1 = ["        NAM ALPHA\n", "        ORG $0E00\n", "        LDA #1\n", "        RTS\n"]
        b = ["        NAM BETA\n", "        ORG $0E20\n", "        LDB #2\n", "        RTS\n"]
        a2 = ["        NAM ALPHA\n", "        ORG $0E40\n", "        LDX #$1234\n", "        RTS\n"]
        fs = {"a1.asm": a1, "b.asm": b, "a2.asm": a2}
        wants = []
        for k, src in enumerate(("a1.asm", "b.asm", "a2.asm")):
            r = run_cli(env, "assembler", {"filename": src, "to_" + t: target, "append": True}, fs)
            if r.escape:
                env.fail("C13:cli-no-traceback", ("C13",), sig("escape:%s@%d" % (r.escape, k)))
                return
            run = self._assembled(env, fs[src])
            wants.append(self._expect_file(run, None))
            after = r.fs.get(target)
            if after is None:
                env.fail("C09:history", ("C09",), sig("no-file@%d" % k))
                return
            olds = [((n or "")[:8].upper().ljust(8), 2, o, o, im) for (n, o, im) in wants[:-1]]
            self._check_image(env, t, after, olds, wants[-1], "C09:history", ("C09", "C11"), lambda w, k=k: sig("%s@step%d" % (w, k)))
            fs = dict(fs)
            fs[target] = list(after)

    def k_all3(self, env, cell, native):
        lines = PROGRAMS[cell.get("prog", "named")]
        combo = cell.get("combo", ("bin", "cas", "dsk"))
        args = {"filename": "prog.asm"}
        for t in combo:
            args["to_" + t] = self._target(t)
        r = run_cli(env, "assembler", args, {"prog.asm": list(lines)})
        sig = lambda w: (lambda: "asm/combined/%s/%s:%s" % ("+".join(combo), cell.get("prog", "named"), w)) if native else None
        if r.escape:
            env.fail("C13:cli-no-traceback", ("C13",), sig("escape:%s" % r.escape))
            return
        run = self._assembled(env, lines)
        for t in combo:
            after = r.fs.get(self._target(t))
            if t != "bin" and not run.name:
                # no NAM and no --name: no cassette or disk file is created -- and the raw binary asked for in the same run still is
                env.ensure("C11:no-name-no-container", after is None, ("C11",), sig("%s-file-created-without-name" % t))
                continue
            if after is None:
                env.fail("C11:saved-image", ("C11",), sig("no-%s-file" % t))
                continue
            self._check_image(env, t, after, [], self._expect_file(run, "named"), "C11:saved-image", ("C11",),
                              lambda w, t=t: sig("%s:%s" % (t, w)))

    def k_seq(self, env, cell, native):
        t = cell["t"]
        target = self._target(t)
        sig = lambda w: (lambda: "asm/sequence/%s:%s" % (t, w)) if native else None
        fs = {"a.asm": list(PROGRAMS["named"]), "b.asm": list(PROGRAMS["longname"]), "c.asm": list(PROGRAMS["noorg"])}
        wants = []
        for k, src in enumerate(("a.asm", "b.asm", "c.asm")):
            r = run_cli(env, "assembler", {"filename": src, "to_" + t: target, "append": True}, fs)
            if r.escape:
                env.fail("C13:cli-no-traceback", ("C13",), sig("escape:%s@%d" % (r.escape, k)))
                return
            run = self._assembled(env, fs[src])
            wants.append(self._expect_file(run, None))
            after = r.fs.get(target)
            if after is None:
                env.fail("C09:history", ("C09",), sig("no-file@%d" % k))
                return
            olds = [((n or "")[:8].upper().ljust(8), 2, o, o, im) for (n, o, im) in wants[:-1]]
            self._check_image(env, t, after, olds, wants[-1], "C09:history", ("C09", "C11"), lambda w, k=k: sig("%s@step%d" % (w, k)))
            fs = dict(fs)
            fs[target] = list(after)


LEMMAS = [CliAssembler()]


# =============================================================================================== file_util (C16)

FILESETS = {
    "one": [("ALPHA", "BIN", 2, 0, 0x0E00, 0x0E04, [1, 2, 3, 4, 5])],
    "two": [("ALPHA", "BIN", 2, 0, 0x0E00, 0x0E04, [1, 2, 3, 4, 5]), ("BETA", "BIN", 2, 0, 0x4000, 0x4001, [0x55, 0x3C, 0xFF] * 100)],
    "lower": [("hello", "bin", 2, 0, 0x0E00, 0x0E00, list(range(50)))],          # what assembler.py writes for `NAM hello`
    "three": [("A", "BIN", 2, 0, 0x1000, 0x1000, [9] * 300), ("LONGNAME", "BIN", 2, 0, 0x2000, 0x2002, [7] * 2299),
              ("C3", "BIN", 2, 0, 0x3000, 0x3003, [3])],
    "prefix": [("GAME", "BIN", 2, 0, 0x0E00, 0x0E10, [7] * 39), ("GAME2", "BIN", 2, 0, 0x3000, 0x3008, [1, 2, 3, 4]),
               ("LOADER", "BIN", 2, 0, 0x0600, 0x0601, [9, 8])],
    # BASIC and ASCII files; ASCII files have no length in a preamble: their length is rebuilt from the FAT (sectors in the last
    # granule + bytes in the last sector), so the sizes sit on both sides of the sector / granule boundaries
    "kinds": [("LOADER", "BIN", 2, 0, 0x0E00, 0x0E10, [(3 * i) % 256 for i in range(300)]),
              ("NOTES", "TXT", 1, 0xFF, 0, 0, [65 + i % 26 for i in range(4404)]),
              ("GAME", "BAS", 0, 0, 0, 0, [(7 * i + 1) % 256 for i in range(4404)]),
              ("README", "TXT", 1, 0xFF, 0, 0, [97 + i % 26 for i in range(2100)]),
              ("SECTOR", "TXT", 1, 0xFF, 0, 0, [48 + i % 10 for i in range(256)]),
              ("SHORT", "TXT", 1, 0xFF, 0, 0, [32 + i % 90 for i in range(1500)])],
    # every kind at the lengths where the stored stream (data + 10 / + 3 / + 0 header and trailer bytes) ends just below, at and
    # just above a granule boundary: the granule count, the sector count of the last granule and the bytes of the last sector
    "boundary": [("ML2293", "BIN", 2, 0, 0x1000, 0x1001, [(5 * i + 1) % 256 for i in range(2293)]),
                 ("ML2294", "BIN", 2, 0, 0x2000, 0x2002, [(5 * i + 2) % 256 for i in range(2294)]),
                 ("BAS2300", "BAS", 0, 0, 0, 0, [(7 * i + 3) % 256 for i in range(2300)]),
                 ("BAS2301", "BAS", 0, 0, 0, 0, [(7 * i + 4) % 256 for i in range(2301)]),
                 ("BAS2302", "BAS", 0, 0, 0, 0, [(7 * i + 5) % 256 for i in range(2302)]),
                 ("BAS4606", "BAS", 0, 0, 0, 0, [(7 * i + 6) % 256 for i in range(4606)]),
                 ("TXT2299", "TXT", 1, 0xFF, 0, 0, [65 + i % 26 for i in range(2299)]),
                 ("TXT2303", "TXT", 1, 0xFF, 0, 0, [66 + i % 25 for i in range(2303)]),
                 ("TXT4607", "TXT", 1, 0xFF, 0, 0, [67 + i % 24 for i in range(4607)])],
    # tape markers where they can mislead a reader that resynchronises by searching: $55 $3C in the load / entry address, in the
    # last header bytes, and $55 $3C $00 / $01 / $FF inside the data (also behind the first bytes of a block)
    "markers": [("SPRITES", "BIN", 2, 0, 0x553C, 0x0128, [(9 * i + 1) % 256 for i in range(64)]),
                ("ENTRY", "BIN", 2, 0, 0x1255, 0x3C01, [0x86, 0x55, 0x3C, 0xFF, 0x12, 0x39] + [0x12] * 300 + [0x55, 0x3C, 0x01, 0x02, 0x39]),
                ("EXEC", "BIN", 2, 0, 0x0E00, 0x553C, [1, 2, 0x55, 0x3C, 0x00, 3, 4] * 40),
                ("LAST", "BIN", 2, 0, 0x3C55, 0x5555, [0x55] * 255 + [0x3C] * 3)],
    # every (type, flag) combination a header or a directory entry can carry: the kind decides which header / trailer bytes
    # surround the data on a disk, and the writer and the reader must decide it the same way
    "allkinds": [("MLFF", "BIN", 2, 0xFF, 0x3F00, 0x3F02, [(11 * i + 1) % 256 for i in range(300)]),
                 ("T1BIN", "DAT", 1, 0, 0, 0, [(13 * i + 2) % 256 for i in range(40)]),
                 ("T3FF", "TXT", 3, 0xFF, 0, 0, [65 + i % 26 for i in range(2400)]),
                 ("T3BIN", "DAT", 3, 0, 0, 0, [(17 * i + 3) % 256 for i in range(2302)]),
                 ("T0FF", "BAS", 0, 0xFF, 0, 0, [48 + i % 40 for i in range(700)]),
                 ("MLFFBIG", "BIN", 2, 0xFF, 0x1000, 0x1234, [(19 * i + 4) % 256 for i in range(2295)]),
                 ("PLAINML", "BIN", 2, 0, 0x2000, 0x2001, [1, 2, 3])],
    "with-empty": [("FIRST", "BIN", 2, 0, 0x1000, 0x1000, [1, 2]), ("EMPTY", "BIN", 2, 0, 0x2000, 0x2000, []),
                   ("LAST", "BIN", 2, 0, 0x3000, 0x3000, [5])],
}


def make_image(kind, files, tool_names=True):
    if kind == "cas":
        out = []
        for (n, e, ft, dt, la, ea, d) in files:
            out += tape.tape_file(n, ft, dt, la, ea, d)
        return out
    return db.build(files)


def read_image(kind, content):
    if kind == "cas":
        return [(f["name"].strip(), f["ftype"], f["load"], f["exec"], f["data"]) for f in tape.parse_stream(content)]
    return [(f["name"].strip(), f["ftype"], f["load"], f["exec"], f["data"]) for f in db.files(content)]


class CliFileUtil:
    name = "cli_fileutil"
    props = ("C16", "C10", "C13")
    max_paths = 50

    def cells(self, tier):
        out = []
        for src in ("cas", "dsk"):
            for dst in ("cas", "dsk"):
                for fsn in FILESETS:
                    if fsn == "three" and "cas" not in (src,) and tier == "quick":
                        pass
                    out.append({"id": "fu/%s-to-%s/%s/all" % (src, dst, fsn), "k": "conv", "src": src, "dst": dst, "set": fsn, "sel": None})
                for sel in (["ALPHA"], ["alpha"], ["Beta", "ALPHA"], ["BETA"], ["NOPE"]):
                    out.append({"id": "fu/%s-to-%s/two/files=%s" % (src, dst, "+".join(sel)), "k": "conv", "src": src, "dst": dst,
                                "set": "two", "sel": sel})
                for sel in (["game2"], ["Game2", "LOADER"], ["GAME"], ["LOADER", "GAME"], ["AME"]):
                    out.append({"id": "fu/%s-to-%s/prefix/files=%s" % (src, dst, "+".join(sel)), "k": "conv", "src": src, "dst": dst,
                                "set": "prefix", "sel": sel})
                out.append({"id": "fu/%s-to-%s/lower/files=hello" % (src, dst), "k": "conv", "src": src, "dst": dst, "set": "lower",
                            "sel": ["hello"]})
                out.append({"id": "fu/%s-to-%s/lower/files=HELLO" % (src, dst), "k": "conv", "src": src, "dst": dst, "set": "lower",
                            "sel": ["HELLO"]})
            for fsn in ("one", "two", "lower"):
                out.append({"id": "fu/%s-to-bin/%s" % (src, fsn), "k": "tobin", "src": src, "set": fsn})
            # --to_bin together with --files: naming the single file of a one-file image (any letter case) writes its data;
            # a name that matches nothing writes nothing usable
            for sel in (["ALPHA"], ["alpha"], ["Alpha"], ["NOPE"]):
                out.append({"id": "fu/%s-to-bin/one/files=%s" % (src, sel[0]), "k": "tobin", "src": src, "set": "one", "sel": sel})
            out.append({"id": "fu/%s-to-bin/empty-image" % src, "k": "tobin-empty", "src": src})
            out.append({"id": "fu/chain/%s" % ("cas-dsk-cas" if src == "cas" else "dsk-cas-dsk"), "k": "chain", "src": src})
            for pre in ("cas", "dsk", "raw"):
                for ap in (False, True):
                    out.append({"id": "fu/existing-target/%s-to-%s/%s/%s" % (src, "cas" if src == "dsk" else "dsk", pre,
                                                                             "append" if ap else "noappend"),
                                "k": "existing", "src": src, "pre": pre, "append": ap})
            # the complete matrix of the property for file_util.py: every target kind x append x every kind of existing content
            for dst in ("cas", "dsk", "bin"):
                for pre in ("empty", "cas", "dsk", "raw", "arbitrary", "bigcas-ff", "dsk-frag", "dsk-blank", "dsk-killed"):
                    for ap in (False, True):
                        out.append({"id": "fu/matrix/%s-to-%s/%s/%s" % (src, dst, pre, "append" if ap else "noappend"), "k": "matrix",
                                    "src": src, "dst": dst, "pre": pre, "append": ap})
            # sequences of invocations with files at the granule / sector boundary lengths: the image written to a NEW path is
            # complete, and is afterwards recognised as what it is (refused as a cassette target, extended as a disk target)
            for fsn in ("boundary", "kinds"):
                out.append({"id": "fu/sequence/%s/%s" % (src, fsn), "k": "sequence", "src": src, "set": fsn})
            # several target switches in ONE invocation: every target gets the files as they are in the source (the same
            # CoCoFile objects are handed to each container in turn)
            for combo in (("cas", "dsk"), ("dsk", "bin"), ("cas", "bin"), ("cas", "dsk", "bin")):
                for fsn in (("one", "lower") if "bin" in combo else ("one", "kinds")):
                    out.append({"id": "fu/multi-target/%s/%s/%s" % (src, "+".join(combo), fsn), "k": "multi", "src": src, "combo": combo, "set": fsn})
        out.append({"id": "fu/missing-host", "k": "missing"})
        return out

    def run(self, env, cell):
        getattr(self, "k_" + cell["k"].replace("-", "_"))(env, cell, env.mode == "native")

    def _gate(self, env, r, sig):
        if r.escape:
            env.fail("C13:cli-no-traceback", ("C13",), sig("escape:%s" % r.escape))
            return False
        env.ensure("C13:cli-no-traceback", True, ("C13",))
        return True

    def _same_files(self, env, got, want, clause, sig, props=("C16",)):
        if len(got) != len(want):
            env.fail(clause, props, sig("file-count=%d,want=%d" % (len(got), len(want))))
            return
        for j, (g, w) in enumerate(zip(got, want)):
            # only machine-language files carry addresses on a disk (preamble / postamble); for the other kinds "no address"
            # and 0 are the same thing
            if w[1] != 2:
                g = (g[0], g[1], g[2] or 0, g[3] or 0, g[4])
                w = (w[0], w[1], w[2] or 0, w[3] or 0, w[4])
            ok = g[0].upper()[:8] == w[0].upper()[:8] and g[1:] == w[1:]
            env.ensure(clause, ok, props, sig("file@%d:name=%s,type=%s,load=%s,exec=%s,data=%s" % (
                j, g[0].upper()[:8] == w[0].upper()[:8], g[1] == w[1], g[2] == w[2], g[3] == w[3], g[4] == w[4])))

    def k_conv(self, env, cell, native):
        src, dst, fsn, sel = cell["src"], cell["dst"], cell["set"], cell["sel"]
        files = FILESETS[fsn]
        host = "host." + src
        target = "out." + dst
        args = {"host_filename": host, "to_" + dst: target}
        if sel:
            args["files"] = list(sel)
        r = run_cli(env, "file_util", args, {host: make_image(src, files)})
        sigp = "fu/%s-to-%s/%s/%s" % (src, dst, fsn, "all" if not sel else "files=" + "+".join(sel))
        sig = lambda w: (lambda: "%s:%s" % (sigp, w)) if native else None
        if not self._gate(env, r, sig):
            return
        want = [(n, ft, la, ea, d) for (n, e, ft, dt, la, ea, d) in files
                if sel is None or n.upper() in [s.upper() for s in sel]]
        after = r.fs.get(target)
        if after is None:
            if not want:
                env.ensure("C16:selection", True, ("C16",))
                return
            env.fail("C16:converted", ("C16",), sig("no-target-written:exit=%s" % r.exit))
            return
        try:
            got = read_image(dst, after)
        except (tape.TapeFormatError, db.DiskFormatError) as e:
            import re
            env.fail("C16:converted", ("C16",), sig("target-malformed:%s" % re.sub(r"\d+", "N", str(e))))
            return
        self._same_files(env, got, want, "C16:converted" if sel is None else "C16:selection", sig)

    def k_tobin(self, env, cell, native):
        src, fsn = cell["src"], cell["set"]
        files = FILESETS[fsn]
        host = "host." + src
        args = {"host_filename": host, "to_bin": "out.bin"}
        sel = cell.get("sel")
        if sel:
            args["files"] = list(sel)
        r = run_cli(env, "file_util", args, {host: make_image(src, files)})
        sig = lambda w: (lambda: "fu/%s-to-bin/%s%s:%s" % (src, fsn, ("/files=" + sel[0]) if sel else "", w)) if native else None
        if not self._gate(env, r, sig):
            return
        after = r.fs.get("out.bin")
        if sel and sel[0].upper() not in [f[0].upper() for f in files]:
            env.ensure("C16:to-bin-selection", not after, ("C16",), sig("unselected-file-written:%s" % (None if after is None else len(after))))
            return
        if len(files) > 1:
            env.ensure("C16:to-bin-refuses-many", after is None and r.exit not in (None, 0), ("C16",), sig("written-or-exit0:exit=%s" % r.exit))
        else:
            env.ensure("C16:to-bin-bytes", after == files[0][6], ("C16",), sig("bytes-differ:%s" % (None if after is None else len(after))))

    def k_tobin_empty(self, env, cell, native):
        src = cell["src"]
        host = "host." + src
        r = run_cli(env, "file_util", {"host_filename": host, "to_bin": "out.bin"}, {host: make_image(src, [])})
        sig = lambda w: (lambda: "fu/%s-to-bin/empty-image:%s" % (src, w)) if native else None
        if not self._gate(env, r, sig):
            return
        env.ensure("C16:to-bin-empty-diagnostic", r.fs.get("out.bin") is None and _told(r.stdout), ("C16", "C13"), sig("exit=%s" % r.exit))

    def k_chain(self, env, cell, native):
        a = cell["src"]
        b = "dsk" if a == "cas" else "cas"
        files = FILESETS["three"]
        sig = lambda w: (lambda: "fu/chain/%s:%s" % (a, w)) if native else None
        fs = {"h." + a: make_image(a, files)}
        r1 = run_cli(env, "file_util", {"host_filename": "h." + a, "to_" + b: "m." + b}, fs)
        if not self._gate(env, r1, sig):
            return
        mid = r1.fs.get("m." + b)
        if mid is None:
            env.fail("C16:chain", ("C16",), sig("step1-no-target"))
            return
        r2 = run_cli(env, "file_util", {"host_filename": "m." + b, "to_" + a: "back." + a}, {"m." + b: mid})
        if not self._gate(env, r2, sig):
            return
        back = r2.fs.get("back." + a)
        if back is None:
            env.fail("C16:chain", ("C16",), sig("step2-no-target"))
            return
        try:
            got = read_image(a, back)
        except (tape.TapeFormatError, db.DiskFormatError) as e:
            import re
            env.fail("C16:chain", ("C16",), sig("back-malformed:%s" % re.sub(r"\d+", "N", str(e))))
            return
        self._same_files(env, got, [(n, ft, la, ea, d) for (n, e, ft, dt, la, ea, d) in files], "C16:chain", sig)

    def k_existing(self, env, cell, native):
        src, pre, ap = cell["src"], cell["pre"], cell["append"]
        dst = "cas" if src == "dsk" else "dsk"
        target = "out." + dst
        before = PRE[pre]()
        host = "host." + src
        files = FILESETS["one"]
        r = run_cli(env, "file_util", {"host_filename": host, "to_" + dst: target, "append": ap},
                    {host: make_image(src, files), target: list(before)})
        sig = lambda w: (lambda: "fu/existing/%s-to-%s/%s/%s:%s" % (src, dst, pre, "append" if ap else "noappend", w)) if native else None
        if not self._gate(env, r, sig):
            return
        after = r.fs.get(target)
        same = (pre == dst)
        if not ap or not same:
            env.ensure("C10:unchanged", after == before, ("C10",), sig("target-modified"))
            env.ensure("C10:told-why", _told(r.stdout), ("C10",), sig("silent"))
            return
        if after == before:
            env.fail("C16:append-proceeds", ("C16",), sig("not-written"))
            return
        try:
            got = read_image(dst, after)
        except (tape.TapeFormatError, db.DiskFormatError) as e:
            import re
            env.fail("C16:appended", ("C16", "C10"), sig("malformed:%s" % re.sub(r"\d+", "N", str(e))))
            return
        want = read_image(dst, before) + [(n, ft, la, ea, d) for (n, e, ft, dt, la, ea, d) in files]
        self._same_files(env, got, want, "C16:appended", sig, ("C16", "C10"))

    def k_matrix(self, env, cell, native):
        """C10 for file_util.py: an existing target changes only when append was requested AND it is an image of the kind written"""
        src, dst, pre, ap = cell["src"], cell["dst"], cell["pre"], cell["append"]
        target = "out." + dst
        before = PRE[pre]() if callable(PRE[pre]) else PRE[pre]
        host = "host." + src
        files = FILESETS["one"]
        r = run_cli(env, "file_util", {"host_filename": host, "to_" + dst: target, "append": ap},
                    {host: make_image(src, files), target: list(before)})
        sig = lambda w: (lambda: "fu/matrix/%s-to-%s/%s/%s:%s" % (src, dst, pre, "append" if ap else "noappend", w)) if native else None
        if not self._gate(env, r, sig):
            return
        after = r.fs.get(target)
        kinds = classify(before)
        same_kind = (dst == "cas" and ("cas" in kinds or "cas-empty" in kinds)) or (dst == "dsk" and "dsk" in kinds) or \
                    (dst == "bin" and "bin" in kinds)
        ambiguous = dst == "cas" and kinds == {"cas-empty", "bin"}          # no tape header at all: empty tape or raw bytes
        changed = after != before
        if not ap:
            env.ensure("C10:unchanged-without-append", not changed, ("C10",), sig("modified-without-append"))
            env.ensure("C10:told-why", _told(r.stdout), ("C10",), sig("silent-refusal"))
            return
        if not same_kind and not ambiguous:
            env.ensure("C10:unchanged-other-kind", not changed, ("C10",), sig("modified-other-kind:%s" % sorted(kinds)))
            env.ensure("C10:told-why", _told(r.stdout), ("C10",), sig("silent-refusal"))
            return
        if not changed:
            # append onto content of the same kind may proceed or be refused with a message (raw binaries / empty tapes have no
            # defined append semantics in the properties)
            env.ensure("C10:told-why", _told(r.stdout), ("C10",), sig("silent-refusal"))
            return
        if dst == "bin" or ambiguous:
            return
        try:
            got = read_image(dst, after)
        except (tape.TapeFormatError, db.DiskFormatError) as e:
            import re
            env.fail("C10:complete-image", ("C10", "C16"), sig("malformed:%s" % re.sub(r"\d+", "N", str(e))))
            return
        want = read_image(dst, before) + [(n, ft, la, ea, d) for (n, e, ft, dt, la, ea, d) in files]
        self._same_files(env, got, want, "C10:complete-image", sig, ("C10", "C16"))

    def k_multi(self, env, cell, native):
        src, combo, fsn = cell["src"], cell["combo"], cell["set"]
        files = FILESETS[fsn]
        host = "host." + src
        args = {"host_filename": host}
        for t in combo:
            args["to_" + t] = "out." + t
        r = run_cli(env, "file_util", args, {host: make_image(src, files)})
        sig = lambda w: (lambda: "fu/multi-target/%s/%s/%s:%s" % (src, "+".join(combo), fsn, w)) if native else None
        if not self._gate(env, r, sig):
            return
        want = [(n, ft, la, ea, d) for (n, e, ft, dt, la, ea, d) in files]
        for t in combo:
            after = r.fs.get("out." + t)
            if after is None:
                env.fail("C16:converted", ("C16",), sig("%s:no-target-written:exit=%s" % (t, r.exit)))
                continue
            if t == "bin":
                env.ensure("C16:to-bin-bytes", list(after) == list(files[0][6]), ("C16",), sig("bin:bytes-differ:%d,want=%d" % (len(after), len(files[0][6]))))
                continue
            try:
                got = read_image(t, after)
            except (tape.TapeFormatError, db.DiskFormatError) as e:
                import re
                env.fail("C16:converted", ("C16",), sig("%s:target-malformed:%s" % (t, re.sub(r"\d+", "N", str(e)))))
                continue
            self._same_files(env, got, want, "C16:converted", lambda w, t=t: sig("%s:%s" % (t, w)))

    def k_sequence(self, env, cell, native):
        src, fsn = cell["src"], cell["set"]
        files = FILESETS[fsn]
        host = "host." + src
        sig = lambda w: (lambda: "fu/sequence/%s/%s:%s" % (src, fsn, w)) if native else None
        fs0 = {host: make_image(src, files)}
        # 1. conversion to a path that does not exist: the file written is a complete disk image of exactly these files
        r1 = run_cli(env, "file_util", {"host_filename": host, "to_dsk": "new.dsk"}, dict(fs0))
        if not self._gate(env, r1, sig):
            return
        img = r1.fs.get("new.dsk")
        if img is None:
            env.fail("C10:complete-image", ("C10", "C16"), sig("step1:nothing-written:exit=%s" % r1.exit))
            return
        try:
            got = read_image("dsk", img)
        except db.DiskFormatError as e:
            import re
            env.fail("C10:complete-image", ("C10", "C16"), sig("step1:malformed:%s" % re.sub(r"\d+", "N", str(e))))
            return
        want = [(n, ft, la, ea, d) for (n, e, ft, dt, la, ea, d) in files]
        self._same_files(env, got, want, "C10:complete-image", sig, ("C10", "C16"))
        # 2. that image as the target of a cassette conversion with --append: another kind, so it stays as it is and the user is told
        fs1 = dict(fs0)
        fs1["new.dsk"] = list(img)
        r2 = run_cli(env, "file_util", {"host_filename": host, "to_cas": "new.dsk", "append": True}, dict(fs1))
        if not self._gate(env, r2, sig):
            return
        env.ensure("C10:unchanged-other-kind", r2.fs.get("new.dsk") == img, ("C10",), sig("step2:disk-image-modified-by-cassette-append"))
        env.ensure("C10:told-why", _told(r2.stdout), ("C10",), sig("step2:silent-refusal"))
        # 3. the same image as the target of a disk conversion with --append: the old files stay, the new ones follow
        one = FILESETS["one"]
        fs2 = {"more." + src: make_image(src, one), "new.dsk": list(img)}
        r3 = run_cli(env, "file_util", {"host_filename": "more." + src, "to_dsk": "new.dsk", "append": True}, dict(fs2))
        if not self._gate(env, r3, sig):
            return
        try:
            got3 = read_image("dsk", r3.fs.get("new.dsk") or [])
        except db.DiskFormatError as e:
            import re
            env.fail("C10:complete-image", ("C10", "C16", "C09"), sig("step3:malformed:%s" % re.sub(r"\d+", "N", str(e))))
            return
        self._same_files(env, got3, want + [(n, ft, la, ea, d) for (n, e, ft, dt, la, ea, d) in one], "C10:complete-image", sig, ("C10", "C16", "C09"))

    def k_missing(self, env, cell, native):
        r = run_cli(env, "file_util", {"host_filename": "nothere.cas", "to_dsk": "out.dsk"}, {})
        sig = lambda w: (lambda: "fu/missing-host:%s" % w) if native else None
        if not self._gate(env, r, sig):
            return
        env.ensure("C16:missing-host-diagnostic", True, ("C16",))


LEMMAS.append(CliFileUtil())
