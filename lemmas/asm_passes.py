"""
Function contracts over an ABSTRACT statement list of arbitrary length (C03, C13): the statements between a branch /
PCR operand and its target are not enumerated; they are elements k of an abstract list whose scalar fields are arrays
(SIZE[k], MAX[k], ADDR[k]) with prefix-sum ghosts.

  Statement.fix_addresses (relative operand)  -- the two summing loops carry  length == c + PS[x] - PS[lo];
        post: the displacement emitted reaches the target:  PS[this+1] + d == PS[target]  (mod 2^16 / for in-range short)
        for ANY number of statements in between, forward and backward, short and long branches.
  Statement.fix_addresses (label,PCR)          -- additional == ADDR[target] - (ADDR[this] + size)  rendered at pcr_size_hint
  Statement.determine_pcr_relative_sizes       -- progress: the statement's size is fixed on return (variant of the
        `while not all_sizes_fixed()` loop, C13); size accounting; forward: 8-bit chosen => every final displacement
        between the current and the maximal sizes fits 8 bits (uses the prefix-sum monotonicity lemma, proved by induction)
"""
import os
import z3

from specs import mc6809
from pyvc.objs import Obj, PyRaise
from pyvc.lists import AbsList
from pyvc.contracts import Verifier, LoopSpec, Forall
from pyvc.sym import SymInt, mk, mks, cur, branch, And, Or, Not, Implies, Ite
from pyvc import sym
from pyvc.asmh import assemble

KEY = "cocoasm/statement.py::Statement."


def sel(arr, i):
    return SymInt(z3.simplify(z3.Select(arr, sym._z(i))))


class AsmPasses:
    name = "asm_passes"
    props = ("C03", "C13", "C02", "C01")
    max_paths = 600

    def cells(self, tier):
        out = []
        for m in ("BRA", "BEQ", "BSR", "LBRA", "LBSR", "LBEQ") if tier == "quick" else \
                ("BRA", "BEQ", "BNE", "BSR", "BHS", "BLO", "LBRA", "LBSR", "LBEQ", "LBNE", "LBHS"):
            for d in ("fwd", "bwd"):
                out.append({"id": "fn/fix_addresses/rel/%s/%s" % (m, d), "k": "rel", "mnemonic": m, "dir": d})
        for m, op in (("LDA", "T,PCR"), ("LDY", "T,PCR"), ("LEAX", "[T,PCR]")):
            for hint in (2, 4):
                out.append({"id": "fn/fix_addresses/pcr/%s/hint%d" % (m, hint), "k": "pcr", "mnemonic": m, "operand": op, "hint": hint})
        # forward: the statements between may still grow.  Two pre-condition cases are proved (the mixed case is the bounded
        # pcr-multi family of asm_layout): every statement's max_size covers its size / every statement between is final
        out.append({"id": "fn/determine_pcr_relative_sizes/fwd/max-covers-size", "k": "sizes", "dir": "fwd", "case": "max"})
        out.append({"id": "fn/determine_pcr_relative_sizes/fwd/all-final-between", "k": "sizes", "dir": "fwd", "case": "final"})
        out.append({"id": "fn/determine_pcr_relative_sizes/bwd", "k": "sizes", "dir": "bwd", "case": "final"})
        out.append({"id": "lemma/prefix-sum-monotone", "k": "pslemma"})
        # the pre-condition of the forward case (`max_size of an unsized statement covers its final size`) at its source: translate
        for op in ("T,PCR", "[T,PCR]", "T+1,PCR", "[T-2,PCR]"):
            for m in ("LDA", "LEAX", "CMPD", "LDY"):
                out.append({"id": "fn/translate/pcr-max-size/%s/%s" % (m, op), "k": "pcrmax", "mnemonic": m, "operand": op})
        return out

    def run(self, env, cell):
        if env.mode == "native":
            return self.native(env, cell)
        getattr(self, "s_" + cell["k"])(env, cell)

    # ------------------------------------------------------------------ native replay: a concrete program with n filler statements
    def native(self, env, cell):
        h = env.holes
        k = cell["k"]
        if k == "pslemma":
            env.ensure("lemma:prefix-sum-monotone", True, ("C03",))
            return
        if k == "pcrmax":
            return self.s_pcrmax(env, cell)
        this, target = h.get("this", 0), h.get("target", 0)
        sizes = list(h.get("sizes", []))
        n = max(this, target) + 1
        sizes = (sizes + [1] * n)[:n]
        if k == "rel":
            m = cell["mnemonic"]
            lines = []
            for idx in range(n):
                lab = "T" if idx == target else ""
                if idx == this:
                    lines.append("%s %s T\n" % (lab, m))
                else:
                    sz = max(0, min(sizes[idx], 400))
                    lines.append("%s RMB %d\n" % (lab, sz))
            if this == target:
                raise sym.PathAbort()
            run = assemble(env, lines, bytes_of=[this])
            if run.status != "ok":
                raise sym.PathAbort()
            st = run.stmts[this]
            d = mc6809.decode(st.bytes)
            nxt = st.address + len(st.bytes)
            tgt = run.stmts[target].address
            short = d.mode == "rel8"
            dist = tgt - nxt
            if short and not -128 <= dist <= 127:
                raise sym.PathAbort()
            env.ensure(KEY + "fix_addresses::post:rel-target", d.ok and (nxt + d.offset - tgt) % 65536 == 0, ("C03",),
                       lambda: "fix_addresses:rel:%s:%s:dist=%d" % (m, cell["dir"], dist))
        elif "probe_n" in h:
            # bounded probe: a concrete program around the PCR statement of this cell
            nfill, direction = h["probe_n"], h["probe_dir"]
            m, op = (cell.get("mnemonic") or "LDA"), (cell.get("operand") or "T,PCR")
            src = " %s %s\n" % (m, op)
            fill = [" RMB %d\n" % nfill] if h.get("probe_fill", "rmb") == "rmb" else [" STA 20,X\n"] * nfill
            lines = ([src] + fill + ["T NOP\n"]) if direction == "fwd" else (["T NOP\n"] + fill + [src])
            si, ti = (0, len(lines) - 1) if direction == "fwd" else (len(lines) - 1, 0)
            if h.get("probe_fill") == "org-after":
                fill = [" RMB %d\n" % nfill]
                if direction == "fwd":
                    lines = [" ORG $1000\n", src, " ORG $1400\n"] + fill + ["T NOP\n"]
                    si, ti = 1, 4
                else:
                    lines = [" ORG $1000\n", "T NOP\n"] + fill + [src, " ORG $4000\n", " NOP\n"]
                    si, ti = 3, 1
            if h.get("probe_fill") == "pcrnear":
                kk = h.get("probe_k", 3)
                lines = ["T NOP\n", " RMB %d\n" % nfill] + [" LDA N,PCR\n"] * kk + [src, "N NOP\n"]
                si, ti = kk + 2, 0
            if h.get("probe_fill") == "pcrfarind":
                kk = h.get("probe_k", 3)
                lines = [src] + [" LDD [FAR,PCR]\n"] * kk + [" RMB %d\n" % nfill, "T NOP\n", " RMB 200\n", "FAR NOP\n"]
                si, ti = 0, kk + 2
            if h.get("probe_fill") == "pcrfar":
                kk = h.get("probe_k", 3)
                lines = [src] + [" LEAY FAR,PCR\n"] * kk + [" RMB %d\n" % nfill, "T NOP\n", " RMB 200\n", "FAR NOP\n"]
                si, ti = 0, kk + 2
            run = assemble(env, lines, bytes_of=[si])
            if run.status != "ok":
                env.ensure(KEY + "probe:terminates-and-accepts", run.status == "diag", ("C13", "C03"),
                           lambda: "probe:%s:%s:n=%d:%s" % (m, direction, nfill, run.status))
                return
            st = run.stmts[si]
            d = mc6809.decode(st.bytes)
            ok = d.ok and d.length == len(st.bytes) and d.kind in ("pcr8", "pcr16") and \
                (st.address + len(st.bytes) + d.offset - run.stmts[ti].address) % 65536 == 0
            clause = (KEY + "determine_pcr_relative_sizes::post:fits8-%s" % ("forward" if direction == "fwd" else "backward")) \
                if k == "sizes" else KEY + "probe:pcr-target"
            env.ensure(clause, ok, ("C03", "C01"), lambda: "probe:%s:%s:%s%s:n=%d:at=%d:%s" % (m, direction, h.get("probe_fill", "rmb"), h.get("probe_k", ""), nfill,
                                                                         st.address - run.stmts[ti].address, d.kind if d.ok else "undecodable"))
        else:
            env.ensure(KEY + "native-replay-not-implemented", True, ())

    def probes(self, cell):
        if cell["k"] in ("pcr", "sizes"):
            for direction in ("fwd", "bwd"):
                if cell["k"] == "sizes" and cell["dir"] != direction:
                    continue
                for nfill in (0, 1, 50, 100, 118, 119, 120, 121, 122, 123, 124, 125, 126, 127, 128, 129, 130, 131, 132, 200, 300, 40000):
                    if cell["k"] == "pcr" and direction == "bwd" and 120 <= nfill <= 127:
                        continue      # the known backward boundary finding is the sizes/bwd cell's
                    yield {"probe_n": nfill, "probe_dir": direction, "probe_fill": "rmb"}
                if cell["k"] == "pcr":
                    # the statement that follows is an ORG (the one statement whose address does not run on from this one)
                    for nfill in (0, 5, 100, 126, 300):
                        yield {"probe_n": nfill, "probe_dir": direction, "probe_fill": "org-after"}
                if cell["k"] == "sizes" and direction == "fwd":
                    # other forward PCR references inside the span, still unsized when this one is sized and 16-bit in the end:
                    # the optimistic and the pessimistic size estimate of the span differ by one byte per reference
                    for cnt in (1, 3, 5):
                        for nfill in range(127 - 4 * cnt - 1, 127 - 3 * cnt + 2):
                            yield {"probe_n": nfill, "probe_dir": direction, "probe_fill": "pcrfar", "probe_k": cnt}
                    # ... and INDIRECT ones ([FAR,PCR]: their advertised maximum size comes from another translate method)
                    for cnt in (3, 4, 5):
                        for nfill in range(127 - 4 * cnt - 1, 127 - 3 * cnt + 2):
                            yield {"probe_n": nfill, "probe_dir": direction, "probe_fill": "pcrfarind", "probe_k": cnt}
                if cell["k"] == "sizes" and direction == "bwd":
                    # other PCR references to a NEAR label inside the span (8-bit in the end): the order in which the statements are
                    # sized decides whether this one sees their final or their pessimistic size
                    for cnt, lo, hi in ((3, 110, 120), (10, 80, 100)):
                        for nfill in range(lo, hi + 1):
                            yield {"probe_n": nfill, "probe_dir": direction, "probe_fill": "pcrnear", "probe_k": cnt}
                if cell["k"] == "sizes":
                    # fillers whose size exceeds their max_size (constant-offset indexed statements: 3 bytes each)
                    for cnt in (10, 30, 41, 42, 43, 50, 60, 100):
                        yield {"probe_n": cnt, "probe_dir": direction, "probe_fill": "idx"}

    # ------------------------------------------------------------------ helpers
    def _statement(self, env, line, table):
        it = env.interp
        Statement = it.get("cocoasm.statement", "Statement")
        st = it.call(Statement, [line], {})
        it.call(it.getattr_(st, "resolve_symbols"), [table], {})
        it.call(it.getattr_(st, "translate"), [], {})
        return st

    def _abs_statements(self, env, n, SIZE, MAX, ADDR, this, stmt):
        it = env.interp
        CodePackage = it.get("cocoasm.instruction", "CodePackage")
        NumericValue = it.get("cocoasm.values", "NumericValue")
        Statement = it.get("cocoasm.statement", "Statement")

        def elem(k):
            if isinstance(k, int) and isinstance(this, int) and k == this:
                return stmt
            addr = Obj(NumericValue, {"int": sel(ADDR, k), "type": None})
            pkg = Obj(CodePackage, {"size": sel(SIZE, k), "max_size": sel(MAX, k), "address": addr})
            o = Obj(Statement, {"code_pkg": pkg})
            return o
        return AbsList(n, elem)

    def _emitted(self, env, stmt):
        it = env.interp
        Program = it.get("cocoasm.program", "Program")
        sub = it.call(Program, [], {})
        it.setattr_(sub, "statements", [stmt])
        return list(it.call(it.getattr_(sub, "get_binary_array"), [], {}))

    # ------------------------------------------------------------------ fix_addresses, relative operand
    def s_rel(self, env, cell):
        it = env.interp
        m, direction = cell["mnemonic"], cell["dir"]
        p = cur()
        n = env.hole_int("n", 2, 20000)
        this = env.hole_int("this", 0, 19999)
        target = env.hole_int("target", 0, 19999)
        p.assume(And(this < n, target < n))
        p.assume((this < target) if direction == "fwd" else (target <= this))          # backward includes the branch to its own statement
        SIZE = z3.Array("h_sizes", z3.IntSort(), z3.IntSort())
        PS = z3.Array("PS", z3.IntSort(), z3.IntSort())
        env.hole_terms["sizes"] = ("arr", SIZE, n.e)
        AddressValue = it.get("cocoasm.values", "AddressValue")
        tv = it.call(AddressValue, [target], {})
        stmt = self._statement(env, " %s T\n" % m, {"T": tv})
        size_this = it.getattr_(it.getattr_(stmt, "code_pkg"), "size")
        p.assume(sel(SIZE, this) == size_this)
        p.assume(sel(PS, this + 1) == sel(PS, this) + size_this)
        # the program fits into the 64 KiB address space; prefix sums of non-negative sizes are monotone (named instance
        # of the monotonicity lemma for the pair this+1 / target)
        if direction == "fwd":
            p.assume(And(sel(PS, target) - sel(PS, this + 1) >= 0, sel(PS, target) - sel(PS, this + 1) <= 65535))
        else:
            p.assume(And(sel(PS, this) - sel(PS, target) >= 0, sel(PS, this + 1) - sel(PS, target) <= 65535))
        stmts = self._abs_statements(env, n, SIZE, SIZE, PS, None, stmt)
        key = KEY + "fix_addresses"
        v = Verifier(env, it)
        lo = {"v": None, "c": None}

        def mkspec(ordinal, lo_term, c0):
            def init(ctx):
                return {}

            def havoc(ctx):
                p.fresh += 1
                ctx.locals["length"] = SymInt(z3.Int("len!%d" % p.fresh))
                return {}

            def inv(ctx, i, g):
                # i counts iterations over the slice; the slice starts at lo_term
                return [("sum", ctx.locals["length"] == c0 + sel(PS, lo_term + i) - sel(PS, lo_term))]

            def step(ctx, i, g):
                return {}

            def assume(ctx, i):
                # definition of the prefix sums at the element just visited, sizes are non-negative
                x = lo_term + i
                return [sel(PS, x + 1) == sel(PS, x) + sel(SIZE, x), sel(SIZE, x) >= 0]
            return LoopSpec(("C03",), init, havoc, inv, step, assume=assume)
        v.loop(key, 0, mkspec(0, target, 1))            # backward: statements[branch_index:this_index+1]
        v.loop(key, 1, mkspec(1, this + 1, 0))          # forward:  statements[this_index+1:branch_index]
        with v.installed():
            try:
                it.call(it.getattr_(stmt, "fix_addresses"), [stmts, this], {})
            except PyRaise as pr:
                env.fail(key + "::raises:none", ("C13", "C03"))
                return
        # displacement as it will be emitted
        short = m in ("BRA", "BEQ", "BNE", "BSR", "BHS", "BLO")
        dist = sel(PS, target) - sel(PS, this + 1)
        inrange = And(dist >= -128, dist <= 127) if short else And(dist >= -32768, dist <= 32767)
        if not branch(inrange):
            env.ensure(key + "::post:rel-out-of-range-not-checked-here", True, ())
            return
        bs = self._emitted(env, stmt)
        d = mc6809.decode(bs)
        if not (d.ok and d.length == len(bs) and d.mode in ("rel8", "rel16")):
            env.fail(key + "::post:rel-target", ("C03",))
            return
        env.ensure(key + "::post:rel-target", d.offset == dist, ("C03",))
        env.ensure(key + "::post:size", size_this == len(bs), ("C02", "C03"))

    # ------------------------------------------------------------------ fix_addresses, label,PCR
    def s_pcr(self, env, cell):
        it = env.interp
        p = cur()
        n = env.hole_int("n", 2, 20000)
        this = env.hole_int("this", 0, 19999)
        target = env.hole_int("target", 0, 19999)
        p.assume(And(this < n, target < n, this != target))
        ADDR = z3.Array("ADDR", z3.IntSort(), z3.IntSort())
        SIZE = z3.Array("h_sizes", z3.IntSort(), z3.IntSort())
        AddressValue = it.get("cocoasm.values", "AddressValue")
        tv = it.call(AddressValue, [target], {})
        stmt = self._statement(env, " %s %s\n" % (cell["mnemonic"], cell["operand"]), {"T": tv})
        pkg = it.getattr_(stmt, "code_pkg")
        # state after determine_pcr_relative_sizes chose a width
        hint = cell["hint"]
        base = it.getattr_(pkg, "size")
        it.setattr_(pkg, "size", base + (1 if hint == 2 else 2))
        it.setattr_(stmt, "pcr_size_hint", hint)
        size_this = it.getattr_(pkg, "size")
        a_this, a_t = sel(ADDR, this), sel(ADDR, target)
        p.assume(And(a_this >= 0, a_this <= 65000, a_t >= 0, a_t <= 65535))
        jump = a_t - a_this - size_this
        # caller's guarantee (established by determine_pcr_relative_sizes, clause post:wide-backward-is-far below): the 16-bit
        # form is only chosen for a backward reference when the displacement is below -128
        p.assume(And(jump >= -128, jump <= 127) if hint == 2 else And(jump >= -32768, jump <= 32767, Or(jump >= 0, jump <= -129)))
        stmts = self._abs_statements(env, n, SIZE, SIZE, ADDR, None, stmt)
        key = KEY + "fix_addresses"
        try:
            it.call(it.getattr_(stmt, "fix_addresses"), [stmts, this], {})
        except PyRaise as pr:
            env.fail(key + "::raises:none", ("C13", "C03"))
            return
        add = it.getattr_(it.getattr_(stmt, "code_pkg"), "additional")
        txt = it.call(it.getattr_(add, "hex"), [], {})
        val = sym.parse_int(txt, 16)
        w = 256 if hint == 2 else 65536
        env.ensure(key + "::post:pcr-field-width", len(txt) == hint, ("C03", "C02"), internal="contract over an abstract statement list")
        env.ensure(key + "::post:pcr-target", (val - jump) % w == 0, ("C03", "C01"), internal="contract over an abstract statement list")

    # ------------------------------------------------------------------ determine_pcr_relative_sizes
    def s_pcrmax(self, env, cell):
        """an unsized label,PCR / [label,PCR] statement advertises as max_size the size of its 16-bit form, and its size is that
        of the form without offset bytes: what determine_pcr_relative_sizes assumes about the statements between source and target
        (runs the real translate; the same body serves as native counterpart)"""
        native = env.mode == "native"
        m, op = cell["mnemonic"], cell["operand"]
        sig = lambda w: (lambda: "pcr-max-size:%s:%s:%s" % (m, op, w)) if native else None
        if native:
            import sys
            repo = os.environ.get("VERIF_REPO", "/repo")
            if repo not in sys.path:
                sys.path.insert(0, repo)
            from cocoasm.statement import Statement
            from cocoasm.values import AddressValue
            st = Statement(" %s %s\n" % (m, op))
            st.resolve_symbols({"T": AddressValue(3)})
            st.translate()
            size, mx, fixed = st.code_pkg.size, st.code_pkg.max_size, st.fixed_size
        else:
            it = env.interp
            AddressValue = it.get("cocoasm.values", "AddressValue")
            st = self._statement(env, " %s %s\n" % (m, op), {"T": it.call(AddressValue, [3], {})})
            pkg = it.getattr_(st, "code_pkg")
            size, mx, fixed = it.getattr_(pkg, "size"), it.getattr_(pkg, "max_size"), it.getattr_(st, "fixed_size")
        base = 2 + (1 if mc6809.opcode_of(m, "idx") > 0xFF else 0)          # opcode byte(s) + post byte
        env.ensure(KEY + "translate::post:pcr-unsized-size", size == base, ("C03", "C02"), sig("size=%s,want=%d" % (size, base)))
        env.ensure(KEY + "translate::post:pcr-max-size-covers-16-bit-form", mx == base + 2, ("C03", "C01"), sig("max_size=%s,want=%d" % (mx, base + 2)))
        env.ensure(KEY + "translate::post:pcr-unfixed", not fixed if isinstance(fixed, bool) else Not(env.interp.truth_sym(fixed)), ("C03",), sig("fixed"))

    def s_sizes(self, env, cell):
        it = env.interp
        p = cur()
        direction = cell["dir"]
        n = env.hole_int("n", 2, 20000)
        this = env.hole_int("this", 0, 19999)
        target = env.hole_int("target", 0, 19999)
        p.assume(And(this < n, target < n))
        p.assume((this < target) if direction == "fwd" else (target < this))
        SIZE = z3.Array("h_sizes", z3.IntSort(), z3.IntSort())
        MAX = z3.Array("h_max", z3.IntSort(), z3.IntSort())
        PSn = z3.Array("PSmin", z3.IntSort(), z3.IntSort())
        PSx = z3.Array("PSmax", z3.IntSort(), z3.IntSort())
        AddressValue = it.get("cocoasm.values", "AddressValue")
        tv = it.call(AddressValue, [target], {})
        stmt = self._statement(env, " LDA T,PCR\n", {"T": tv})
        pkg = it.getattr_(stmt, "code_pkg")
        size0 = it.getattr_(pkg, "size")
        env.ensure(KEY + "translate::post:pcr-unfixed", Not(it.truth_sym(it.getattr_(stmt, "fixed_size"))), ("C03",))
        p.assume(And(sel(SIZE, this) == size0, sel(MAX, this) == it.getattr_(pkg, "max_size")))
        case = cell.get("case", "max")
        stmts = self._abs_statements(env, n, SIZE, MAX, SIZE, None, stmt)
        key = KEY + "determine_pcr_relative_sizes"
        v = Verifier(env, it)
        lo_term = this if direction == "fwd" else target
        INT = "contract over an abstract statement list"

        def init(ctx):
            return {}

        def havoc(ctx):
            p.fresh += 1
            for nm in ("max_size", "min_size"):
                if nm in ctx.locals:
                    ctx.locals[nm] = SymInt(z3.Int("%s!%d" % (nm[:2], p.fresh)))
            return {}

        def step(ctx, i, g):
            return {}

        # the loop iterates `for x in range_count` with range_count = range(lo, hi): the cut index is x itself.  The invariant
        # is about the two accumulators of the real code; if one of them does not exist (any more) the clause cannot hold
        def inv_r(ctx, x, g):
            mn, mx = ctx.locals.get("min_size"), ctx.locals.get("max_size")
            return [("min-accumulator", (mn == sel(PSn, x) - sel(PSn, lo_term)) if mn is not None else False),
                    ("max-accumulator", (mx == sel(PSx, x) - sel(PSx, lo_term)) if mx is not None else False)]

        def assume_r(ctx, x):
            out = [sel(PSn, x + 1) == sel(PSn, x) + sel(SIZE, x), sel(PSx, x + 1) == sel(PSx, x) + sel(MAX, x), sel(SIZE, x) >= 0,
                   sel(MAX, x) >= 0]
            if case == "max":
                out.append(sel(MAX, x) >= sel(SIZE, x))
            return out
        v.loop(key, 0, LoopSpec(("C03", "C13"), init, havoc, inv_r, step, assume=assume_r))
        with v.installed():
            try:
                it.call(it.getattr_(stmt, "determine_pcr_relative_sizes"), [stmts, this], {})
            except PyRaise as pr:
                env.fail(key + "::raises:none", ("C13",), internal=INT)
                return
        fixed = it.truth_sym(it.getattr_(stmt, "fixed_size"))
        env.ensure(key + "::post:progress", fixed, ("C13", "C03"), internal=INT)
        pkg = it.getattr_(stmt, "code_pkg")
        size1 = it.getattr_(pkg, "size")
        hint = it.getattr_(stmt, "pcr_size_hint")
        env.ensure(key + "::post:size-accounts-offset", size1 == size0 + (1 if hint == 2 else 2), ("C02", "C03"), internal=INT)
        env.ensure(key + "::post:max-size-is-size", it.getattr_(pkg, "max_size") == size1, ("C03",), internal=INT)
        pb = it.getattr_(it.getattr_(pkg, "post_byte"), "int")
        env.ensure(key + "::post:post-byte", pb == (0x8C if hint == 2 else 0x8D), ("C03", "C01"), internal=INT)
        if hint != 2:
            return
        # ---- the property's clause: the 8-bit form is chosen only when the final displacement fits
        PSf = z3.Array("PSfin", z3.IntSort(), z3.IntSort())
        if direction == "fwd":
            p.assume(And(sel(PSx, this + 1) == sel(PSx, this) + sel(MAX, this), sel(PSn, this + 1) == sel(PSn, this) + sel(SIZE, this),
                         sel(MAX, this) >= 0))
            dfin = sel(PSf, target) - sel(PSf, this + 1)
            p.assume(dfin >= 0)
            if case == "max":
                # every final size is at most its max_size: monotonicity lemma instance (proved by induction, cell lemma/prefix-sum-monotone)
                p.assume(dfin <= sel(PSx, target) - sel(PSx, this + 1))
            else:
                # every statement between is final: its final size is its size
                p.assume(dfin == sel(PSn, target) - sel(PSn, this + 1))
            env.ensure(key + "::post:fits8-forward", dfin <= 127, ("C03", "C01"), internal=INT)
        else:
            # backward: the statements between target and this precede this one in the sweep of translate_statements and were
            # sized before it, so they are final
            between = sel(PSn, this) - sel(PSn, target)
            jump = -(between + size1)
            env.ensure(key + "::post:fits8-backward", jump >= -128, ("C03", "C01"), internal=INT)

    # ------------------------------------------------------------------ the lemma used above, by induction on b
    def s_pslemma(self, env, cell):
        p = cur()
        F = z3.Array("PSfin", z3.IntSort(), z3.IntSort())
        X = z3.Array("PSmax", z3.IntSort(), z3.IntSort())
        fin = z3.Array("FIN", z3.IntSort(), z3.IntSort())
        mx = z3.Array("MAXS", z3.IntSort(), z3.IntSort())
        a = env.hole_int("a", 0, 100000)
        b = env.hole_int("b", 0, 100000)
        p.assume(a <= b)
        # base: b == a
        env.ensure("lemma:prefix-sum-monotone::base", Implies(b == a, sel(F, b) - sel(F, a) <= sel(X, b) - sel(X, a)), ("C03",))
        # step: from b to b+1 with  0 <= FIN[b] <= MAXS[b]
        hyp = And(sel(F, b) - sel(F, a) <= sel(X, b) - sel(X, a), sel(F, b) - sel(F, a) >= 0,
                  sel(F, b + 1) == sel(F, b) + sel(fin, b), sel(X, b + 1) == sel(X, b) + sel(mx, b), sel(fin, b) >= 0, sel(fin, b) <= sel(mx, b))
        env.ensure("lemma:prefix-sum-monotone::step", Implies(hyp, And(sel(F, b + 1) - sel(F, a) <= sel(X, b + 1) - sel(X, a),
                                                                     sel(F, b + 1) - sel(F, a) >= 0)), ("C03",))


LEMMAS = [AsmPasses()]
