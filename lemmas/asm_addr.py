"""
The address pass of Program.translate_statements (C02: "addresses advance by exactly the bytes each statement [reserves]",
ORG placement), unbounded in the number of statements.

    address = 0
    for index, statement in enumerate(self.statements):
        address = statement.set_address(address)
        address += statement.code_pkg.size

Abstract statement list of any length n: SIZE[k] the reserved size, HAS[k] / PRE[k] an address set before the pass (ORG).
Specification (ghost array A, by its defining recurrence):
        A[k] = PRE[k]                    if HAS[k]
        A[k] = 0                         if k == 0 and not HAS[0]
        A[k] = A[k-1] + SIZE[k-1]        otherwise
Contract of the loop (invariant at index i, ghost NEW = addresses stored so far):
        address == (0 if i == 0 else A[i-1] + SIZE[i-1]);   forall k < i. NEW[k] == A[k]
        frame: iteration i writes only to statement i's code package (and to objects it creates)
Statement.set_address is executed (not abstracted).  Pre-condition: every A[k] + SIZE[k] <= 65535 (a program that runs past
$FFFF escapes with ValueTypeError: known finding of C13, asm_layout placement cells).
The equality  reserved size == emitted bytes  is an obligation of every single-statement cell (C02:size); together they
give the image / listing agreement for any number of statements.
"""
import z3

from pyvc.objs import Obj, PyRaise
from pyvc.lists import AbsList
from pyvc.contracts import Verifier, LoopSpec, CallSpec, Forall, prove_forall
from pyvc.sym import SymInt, SymBool, mk, mks, cur, branch, And, Or, Not, Implies, Ite
from pyvc import sym
from pyvc.asmh import assemble

KEY = "cocoasm/program.py::Program."
INTERNAL = "contract over an abstract statement list"


def sel(a, i):
    return mks(z3.Select(a, sym._z(i)))


def selb(a, i):
    return SymBool(z3.Select(a, sym._z(i)))


class _Reached(Exception):
    pass


class AsmAddr:
    name = "asm_addr"
    props = ("C02", "C13")
    max_paths = 200

    def cells(self, tier):
        return [{"id": "fn/translate_statements/address-pass", "k": "addr"}, {"id": "fn/translate_statements/origin-and-name", "k": "origin"}]

    def probes(self, cell):
        if cell["k"] == "origin":
            for prog in (["O3000", "N"], ["MHELLO", "O0E00", "N", "N"], ["N", "N"], ["O8000", "MX", "R5", "N"], ["E", "O1000", "N", "MLATE"], ["O0000", "N"]):
                yield {"prog": prog}
            return
        for prog in (["N", "N", "O3000", "N", "R5", "N"], ["O0E00", "R300", "N", "N"], ["N"], ["R0", "R0", "N"], ["O1000", "N", "O2000", "N", "N"],
                     ["OFFF0", "R10", "N"], ["E", "N", "E", "R2", "N"]):
            yield {"prog": prog}

    def run(self, env, cell):
        if env.mode == "native":
            return self.native(env, cell) if cell["k"] == "addr" else self.native_origin(env, cell)
        getattr(self, "s_" + cell["k"])(env, cell)

    def native_origin(self, env, cell):
        prog = env.holes.get("prog")
        if not prog:
            raise sym.PathAbort()
        lines, org, nam = [], None, None
        for t in prog:
            if t[0] == "O":
                lines.append(" ORG $%s\n" % t[1:])
                org = int(t[1:], 16)
            elif t[0] == "M":
                lines.append(" NAM %s\n" % t[1:])
                nam = t[1:]
            elif t[0] == "R":
                lines.append(" RMB %s\n" % t[1:])
            elif t[0] == "E":
                lines.append("V%d EQU 5\n" % len(lines))
            else:
                lines.append(" NOP\n")
        if sum(1 for t in prog if t[0] == "O") > 1 or (org is not None and prog[0][0] not in "OME"):
            raise sym.PathAbort()           # second ORG / code before ORG: other (known) findings
        run = assemble(env, lines)
        if run.status != "ok":
            raise sym.PathAbort()
        env.ensure(KEY + "translate_statements::post:origin-is-org-address", run.origin == org, ("C02", "C11"),
                   lambda: "origin:%s" % ",".join(t[0] for t in prog))
        env.ensure(KEY + "translate_statements::post:name-is-nam-operand", (run.name or None) == nam, ("C11",),
                   lambda: "name:%s" % ",".join(t[0] for t in prog))

    def s_origin(self, env, cell):
        """the last loop of translate_statements over an abstract statement list: origin = address of the last ORG statement seen,
        name = operand text of the last NAM statement seen (ghost: index of the last ORG / NAM before i)"""
        it = env.interp
        p = cur()
        Statement = it.get("cocoasm.statement", "Statement")
        CodePackage = it.get("cocoasm.instruction", "CodePackage")
        Instruction = it.get("cocoasm.instruction", "Instruction")
        Operand = it.get("cocoasm.operands", "Operand")
        NumericValue = it.get("cocoasm.values", "NumericValue")
        n = env.hole_int("n", 1, 100000)
        ADDR = z3.Array("h_addrarr", z3.IntSort(), z3.IntSort())
        ISORG = z3.Array("h_isorg", z3.IntSort(), z3.BoolSort())
        ISNAM = z3.Array("h_isnam", z3.IntSort(), z3.BoolSort())
        LO = z3.Array("lastorg", z3.IntSort(), z3.IntSort())
        LN = z3.Array("lastnam", z3.IntSort(), z3.IntSort())
        key = KEY + "translate_statements"

        def gdef(k):
            return And(sel(LO, k + 1) == Ite(selb(ISORG, k), k, sel(LO, k)), sel(LN, k + 1) == Ite(selb(ISNAM, k), k, sel(LN, k)))

        def elem(k):
            o = Obj(Statement, {"code_pkg": Obj(CodePackage, {"address": Obj(NumericValue, {"int": sel(ADDR, k), "type": None}), "size": 0}),
                                "instruction": Obj(Instruction, {"is_origin": selb(ISORG, k), "is_name": selb(ISNAM, k)}),
                                "operand": Obj(Operand, {"operand_string": ("name-of", k)})})
            return o
        prog = it.call(it.get("cocoasm.program", "Program"), [], {})
        it.setattr_(prog, "statements", AbsList(n, elem))
        v = Verifier(env, it)
        st = {}

        def view():
            """(origin value or None when still unset, index tag of the name or None)"""
            o = it.getattr_(prog, "origin")
            ov = it.getattr_(o, "int") if (isinstance(o, Obj) and "int" in o.fields and o.cls.name != "NoneValue") else None
            nm = it.getattr_(prog, "name")
            return ov, (nm[1] if isinstance(nm, tuple) else None)

        def init(ctx):
            return {}

        def havoc(ctx):
            p.fresh += 1
            i_lo = SymInt(z3.Int("lo!%d" % p.fresh))
            i_ln = SymInt(z3.Int("ln!%d" % p.fresh))
            st["lo"], st["ln"] = i_lo, i_ln
            # the program's origin / name after some iterations: unset, or those of an earlier ORG / NAM statement
            if branch(i_lo >= 0):
                it.setattr_(prog, "origin", Obj(NumericValue, {"int": sel(ADDR, i_lo), "type": None}))
            if branch(i_ln >= 0):
                it.setattr_(prog, "name", ("name-of", i_ln))
            return {}

        def inv(ctx, i, g):
            ov, nk = view()
            lo = sel(LO, i)
            ln = sel(LN, i)
            c1 = (And(lo >= 0, ov == sel(ADDR, lo)) if ov is not None else (lo < 0))
            c2 = (And(ln >= 0, nk == ln) if nk is not None else (ln < 0))
            extra = []
            if "lo" in st:
                extra = [("ghost", And(st["lo"] == lo, st["ln"] == ln))] if not st.get("checked") else []
            return [("origin", c1), ("name", c2)]

        def assume(ctx, i):
            return [gdef(i), sel(LO, 0) == -1, sel(LN, 0) == -1, st["lo"] == sel(LO, i), st["ln"] == sel(LN, i)]

        def step(ctx, i, g):
            return {}

        def reached(ctx):
            raise _Reached()
        # loops in source order: 0 save_symbol, 1 resolve, 2 translate, 3 while, 4 its for, 5 address pass, 6 fix_addresses,
        # 7 symbol back-patch (empty table here), 8 origin / name
        triv = lambda: LoopSpec(("C02",), lambda ctx: {}, lambda ctx: {}, lambda ctx, i, g: [], lambda ctx, i, g: {})
        for o in (0, 1, 2, 5, 6):
            v.loop(key, o, triv())
        v.loop(key, 8, LoopSpec(("C02", "C11"), init, havoc, inv, step, assume=assume))
        v.contract(KEY + "process_mnemonics", CallSpec(lambda v_, interp, func, args: args["statements"]))
        v.contract(KEY + "save_symbol", CallSpec(lambda v_, interp, func, args: None))
        v.contract(KEY + "all_sizes_fixed", CallSpec(lambda v_, interp, func, args: True))
        for fn in ("resolve_symbols", "translate", "fix_addresses"):
            v.contract("cocoasm/statement.py::Statement." + fn, CallSpec(lambda v_, interp, func, args: None))
        v.contract("cocoasm/statement.py::Statement.set_address", CallSpec(lambda v_, interp, func, args: args["address"]))
        p.assume(And(sel(LO, 0) == -1, sel(LN, 0) == -1))
        st["lo"], st["ln"] = -1, -1
        with v.installed():
            try:
                it.call(it.getattr_(prog, "translate_statements"), [], {})
            except PyRaise as pr:
                env.fail(key + "::raises:none-in-origin-loop", ("C02", "C13"), internal=INTERNAL)
                return
        ov, nk = view()
        lo, ln = sel(LO, n), sel(LN, n)
        env.ensure(key + "::post:origin-is-last-org-address", (And(lo >= 0, ov == sel(ADDR, lo)) if ov is not None else (lo < 0)), ("C02", "C11"),
                   internal=INTERNAL)
        env.ensure(key + "::post:name-is-last-nam-operand", (And(ln >= 0, nk == ln) if nk is not None else (ln < 0)), ("C11",), internal=INTERNAL)

    def native(self, env, cell):
        prog = env.holes.get("prog")
        if not prog:
            raise sym.PathAbort()
        lines, want, a = [], [], 0
        for t in prog:
            if t[0] == "O":
                lines.append(" ORG $%s\n" % t[1:])
                a = int(t[1:], 16)
                want.append(a)
            elif t[0] == "R":
                lines.append(" RMB %s\n" % t[1:])
                want.append(a)
                a += int(t[1:])
            elif t[0] == "E":
                lines.append("V%d EQU 5\n" % len(lines))
                want.append(a)
            else:
                lines.append(" NOP\n")
                want.append(a)
                a += 1
        run = assemble(env, lines)
        if run.status != "ok":
            raise sym.PathAbort()
        got = [st.address for st in run.stmts]
        env.ensure(KEY + "translate_statements::post:addresses-advance-by-size", got == want, ("C02",),
                   lambda: "address-pass:%s" % ",".join(t[0] for t in prog))

    def s_addr(self, env, cell):
        it = env.interp
        p = cur()
        Statement = it.get("cocoasm.statement", "Statement")
        CodePackage = it.get("cocoasm.instruction", "CodePackage")
        NumericValue = it.get("cocoasm.values", "NumericValue")
        NoneValue = it.get("cocoasm.values", "NoneValue")
        n = env.hole_int("n", 1, 100000)
        SIZE = z3.Array("h_sizearr", z3.IntSort(), z3.IntSort())
        PRE = z3.Array("h_prearr", z3.IntSort(), z3.IntSort())
        HAS = z3.Array("h_hasarr", z3.IntSort(), z3.BoolSort())
        A = z3.Array("A", z3.IntSort(), z3.IntSort())
        key = KEY + "translate_statements"
        st = {"NEW": z3.K(z3.IntSort(), z3.IntVal(-1))}

        def nxt(i):
            return Ite(i == 0, 0, sel(A, i - 1) + sel(SIZE, i - 1))

        def adef(k):
            """instance k of the specification's recurrence and of the pre-condition"""
            return And(sel(A, k) == Ite(selb(HAS, k), sel(PRE, k), nxt(k)), sel(SIZE, k) >= 0, sel(PRE, k) >= 0, sel(PRE, k) <= 65535,
                       sel(A, k) + sel(SIZE, k) <= 65535, sel(A, k) >= 0)

        def elem(k):
            if branch(selb(HAS, k)):
                addr = Obj(NumericValue, {"int": sel(PRE, k), "type": None})
            else:
                addr = it.call(NoneValue, [], {})
            pkg = Obj(CodePackage, {"size": sel(SIZE, k), "address": addr})
            o = Obj(Statement, {"code_pkg": pkg})
            o.tag = ("abs-stmt", k)
            return o
        prog = it.call(it.get("cocoasm.program", "Program"), [], {})
        it.setattr_(prog, "statements", AbsList(n, elem))
        v = Verifier(env, it)
        writes = []

        def reached(ctx):
            raise _Reached()

        def init(ctx):
            st["oid0"] = Obj(Statement, {}).oid
            return {}

        def havoc(ctx):
            p.fresh += 1
            ctx.locals["address"] = SymInt(z3.Int("addr!%d" % p.fresh))
            st["NEW"] = z3.Array("new!%d" % p.fresh, z3.IntSort(), z3.IntSort())
            st["oid0"] = Obj(Statement, {}).oid
            del writes[:]
            return {}

        def inv(ctx, i, g):
            return [("address", ctx.locals["address"] == nxt(i)),
                    Forall("addr", 0, i, lambda k, NEW=st["NEW"]: sel(NEW, k) == sel(A, k))]

        def assume(ctx, i):
            return [adef(i), adef(i - 1), adef(i + 1)]

        def step(ctx, i, g):
            stmt = ctx.locals["statement"]
            pkg = stmt.fields["code_pkg"]
            a = it.getattr_(pkg.fields["address"], "int")
            st["NEW"] = z3.Store(st["NEW"], sym._z(i), sym._z(a))
            # frame: everything written during this iteration belongs to statement i (its code package) or was created by it
            ok = all((o is pkg) or (o is stmt) or (getattr(o, "oid", 0) > st["oid0"]) for o in writes)
            env.ensure(key + "::loop5::frame:writes-only-own-statement", ok, ("C02",), internal=INTERNAL)
            return {}

        # loops of translate_statements in source order: 0 save_symbol, 1 resolve_symbols, 2 translate, 3 while, 4 (inner for),
        # 5 address pass, 6 fix_addresses, ...   -> stop at the loop after the address pass
        spec = LoopSpec(("C02",), init, havoc, inv, step, assume=assume)
        v.loop(key, 5, spec)
        v.loop(key, 6, LoopSpec(("C02",), reached, havoc, inv, step))
        # the earlier phases are skipped through trivial contracts: this cell is about the address pass only
        v.contract(KEY + "process_mnemonics", CallSpec(lambda v_, interp, func, args: args["statements"]))
        v.contract(KEY + "save_symbol", CallSpec(lambda v_, interp, func, args: None))
        v.contract(KEY + "all_sizes_fixed", CallSpec(lambda v_, interp, func, args: True))
        v.contract("cocoasm/statement.py::Statement.resolve_symbols", CallSpec(lambda v_, interp, func, args: None))
        v.contract("cocoasm/statement.py::Statement.translate", CallSpec(lambda v_, interp, func, args: None))
        for o in (0, 1, 2):
            v.loop(key, o, LoopSpec(("C02",), lambda ctx: {}, lambda ctx: {}, lambda ctx, i, g: [], lambda ctx, i, g: {}))
        old_hook = it.write_hook

        def hook(interp, o, name, kind):
            writes.append(o)
        it.write_hook = hook
        try:
            with v.installed():
                try:
                    it.call(it.getattr_(prog, "translate_statements"), [], {})
                except PyRaise as pr:
                    env.fail(key + "::raises:none-in-address-pass", ("C02", "C13"), internal=INTERNAL)
                    return
                except _Reached:
                    pass
                else:
                    env.fail(key + "::engine:loop-after-address-pass-not-reached", ("C02",), internal=INTERNAL)
                    return
        finally:
            it.write_hook = old_hook
        fa = [f for f in v.facts if f.name == "addr"]
        env.ensure(key + "::post:invariant-available", len(fa) >= 1, ("C02",), internal=INTERNAL)
        NEW = st["NEW"]
        prove_forall(env, p, key + "::post:addresses-advance-by-size", Forall("addr", 0, n, lambda k: sel(NEW, k) == sel(A, k)), fa, ("C02",),
                     internal=INTERNAL)


LEMMAS = [AsmAddr()]
