"""
Cassette writer contracts (C14) and reader / round-trip lemmas (C06).

Writer, function by function (unbounded: data length and contents symbolic, z3 Seq theory):
  append_blank / append_leader / append_eof      effect on the buffer
  append_name(name)                              8 padded name bytes, returns their sum
  append_header(file)                            the 21-byte name-file block of the format spec
  append_data_blocks(raw)                        buffer' == buffer ++ blocks(raw)     (recursive spec `blocks`;
                                                 loop invariant with ghost split raw == pre ++ suf; recursion
                                                 through the function's own contract with a decreases obligation)
  add_file(f)                                    buffer' == buffer ++ 00^a 55^b NAMEFILE(f) 00^c 55^d blocks(data) EOF
  add_files([f1..fk])                            fold of add_file
Natively (counterexample replay) the clauses are evaluated with the independent, checksum-verifying
recogniser specs/tape.parse_stream, i.e. at the level of the property.
"""
import z3

from specs import tape
from pyvc.filesh import Files, Raised
from pyvc.contracts import Verifier, LoopSpec, CallSpec
from pyvc.lists import SeqList, IntSeq
from pyvc.sym import SymInt, SStr, mk, mks, cur, branch
from pyvc import sym

CAS = "cocoasm.virtualfiles.cassette"
KEY = "cocoasm/virtualfiles/cassette.py::CassetteFile."

blocksU = z3.Function("tape_blocks", IntSeq, IntSeq)
ssum = z3.Function("seq_sum", IntSeq, z3.IntSort())


def seq_of(xs):
    return SeqList.of(xs).seq


def blocks_def(raw):
    """right-hand side of the recursive format definition  blocks(raw)  (one unfolding), with the case
    (empty / last short block / full 255-byte block followed by blocks(rest)) decided on the path:
        blocks([])  = []
        blocks(r)   = 55 3C 01 len(r) r cks 55                       0 < len(r) < 255
        blocks(r)   = 55 3C 01 FF r[:255] cks 55 ++ blocks(r[255:])   len(r) >= 255
        cks = (1 + len + sum(payload)) mod 256"""
    L = z3.Length(raw)
    if branch(mk(L == 0)):
        return z3.Empty(IntSeq)
    if branch(mk(L < 255)):
        return z3.Concat(seq_of([0x55, 0x3C, 0x01]), z3.Unit(L), raw, z3.Unit((1 + L + ssum(raw)) % 256), z3.Unit(z3.IntVal(0x55)))
    # raw[:255] written element by element (the same sequence as SubSeq(raw, 0, 255) when L >= 255)
    head255 = z3.Concat(*[z3.Unit(raw[i]) for i in range(255)])
    s255 = z3.Sum([raw[i] for i in range(255)])
    return z3.Concat(seq_of([0x55, 0x3C, 0x01, 0xFF]), head255, z3.Unit((1 + 255 + s255) % 256), z3.Unit(z3.IntVal(0x55)),
                     blocksU(z3.SubSeq(raw, 255, L - 255)))


def adb_verifier(env, F):
    """Verifier with the contracts needed inside append_data_blocks"""
    v = Verifier(env, F.it)
    key = KEY + "append_data_blocks"

    def apply_adb(v_, interp, func, args):
        self_, raw = args["self"], args["raw_bytes"]
        buf = interp.getattr_(self_, "buffer")
        if not isinstance(raw, SeqList):
            raw = SeqList.of(list(raw))
        outer = v_.outer_raw
        env.ensure(key + "::decreases", raw.length() < mks(z3.Length(outer)), ("C14", "C13"))
        buf.seq = z3.Concat(buf.seq, blocksU(raw.seq))
        return None
    v.contract(key, CallSpec(apply_adb, nested_only=True))

    def init(ctx):
        buf = ctx.interp.getattr_(ctx.locals["self"], "buffer")
        ctx.saved["Bh"] = buf.seq
        ctx.saved["raw"] = ctx.locals["raw_bytes"].seq
        cur().assume(ssum(z3.Empty(IntSeq)) == 0)       # definition of seq_sum on the empty sequence
        return {"pre": z3.Empty(IntSeq), "suf": ctx.saved["raw"]}

    def havoc(ctx):
        p = cur()
        p.fresh += 1
        k = p.fresh
        buf = ctx.interp.getattr_(ctx.locals["self"], "buffer")
        buf.seq = z3.Const("buf!%d" % k, IntSeq)
        ctx.locals["checksum"] = SymInt(z3.Int("cks!%d" % k))
        return {"pre": z3.Const("pre!%d" % k, IntSeq), "suf": z3.Const("suf!%d" % k, IntSeq)}

    def inv(ctx, i, g):
        raw = ctx.saved["raw"]
        buf = ctx.interp.getattr_(ctx.locals["self"], "buffer")
        return [("split", mk(raw == z3.Concat(g["pre"], g["suf"]))),
                ("len", mk(z3.Length(g["pre"]) == sym._z(i))),
                ("buffer", mk(buf.seq == z3.Concat(ctx.saved["Bh"], g["pre"]))),
                ("checksum", mk(sym._z(ctx.locals["checksum"]) == 1 + z3.Length(raw) + ssum(g["pre"])))]

    def step(ctx, i, g):
        raw = ctx.saved["raw"]
        x = raw[sym._z(i)]
        pre2 = z3.Concat(g["pre"], z3.Unit(x))
        # definitional instance of seq_sum for this extension
        cur().assume(ssum(pre2) == ssum(g["pre"]) + x)
        return {"pre": pre2, "suf": z3.SubSeq(g["suf"], 1, z3.Length(g["suf"]) - 1)}
    v.loop(key, 0, LoopSpec(("C14",), init, havoc, inv, step))
    return v


def name_text(env, n, tag="nm"):
    chars = [env.hole_char("%s%d" % (tag, k), [(33, 126)]) for k in range(n)]
    return env.text(chars) if n else ""


def name_codes(name):
    if isinstance(name, str):
        return [ord(c) for c in name]
    return [c if isinstance(c, int) else mk(c.code) for c in name.chars]


class TapeWriter:
    name = "tape_writer"
    props = ("C14", "C13", "C16", "C09")
    strict_contract = True

    def cells(self, tier):
        out = [{"id": "fn/append_blank", "fn": "append_blank"}, {"id": "fn/append_leader", "fn": "append_leader"},
               {"id": "fn/append_eof", "fn": "append_eof"}, {"id": "fn/append_data_blocks", "fn": "append_data_blocks"}]
        for n in range(0, 13):
            out.append({"id": "fn/append_name/len%d" % n, "fn": "append_name", "n": n})
        for ak in ("numeric", "none"):
            for n in (0, 5, 8, 12):
                out.append({"id": "fn/append_header/%s/name%d" % (ak, n), "fn": "append_header", "ak": ak, "n": n})
        for n in (0, 1, 7, 8, 9, 12):
            out.append({"id": "fn/add_file/name%d" % n, "fn": "add_file", "n": n})
        for k in (0, 1, 2, 3):
            out.append({"id": "fn/add_files/%d" % k, "fn": "add_files", "k": k})
        return out

    def run(self, env, cell):
        getattr(self, "f_" + cell["fn"])(env, cell, Files(env), env.mode == "native")

    def probes(self, cell):
        """concrete inputs tried natively when an obligation of the cell stays undecided (bounded stand-in)"""
        lens = [0, 1, 2, 254, 255, 256, 509, 510, 511, 765, 1000]
        fn = cell["fn"]
        if fn == "add_files":
            yield {"data0": [1, 2, 3], "data1": [4] * 300, "data2": [], "B0": []}
            yield {"data0": [0] * 10, "data1": [0x12] * 255 + [0] * 10, "data2": [0] * 510, "B0": []}
            return
        for L in lens:
            data = [(7 * i + 3) % 256 for i in range(L)]
            if fn == "append_data_blocks":
                yield {"raw": data, "B0": []}
                yield {"raw": [0x55, 0x3C, 0xFF] * (L // 3), "B0": [1, 2, 3]}
                # contents whose VALUES could be mistaken for "nothing left": all zero, and zero from a block boundary onwards
                yield {"raw": [0] * L, "B0": []}
                yield {"raw": [0x12] * min(L, 255) + [0] * max(0, L - 255), "B0": [9]}
            elif fn in ("add_file", "append_header"):
                n = cell.get("n", 3)
                for b0 in ([], [0x00, 0x55, 0x3C, 0xFF, 0x00, 0xFF, 0x55]):        # on an empty buffer and behind an earlier file's EOF block
                    h = {"type": 2, "dtype": 0, "load": 0x0E00, "exec": 0x0E10, "data": data, "B0": list(b0)}
                    for k in range(n):
                        h["nm%d" % k] = 65 + k
                    yield h
                h = dict(h, data=[0] * L, B0=[])
                yield h

    # ---- helpers
    def _fresh_cassette(self, env, F, native):
        cas = F.new(CAS, "CassetteFile")
        if native:
            pre = list(env.holes.get("B0", []))
            F.set(cas, "buffer", list(pre))
            return cas, pre
        b0 = env.hole_seq("B0")
        F.set(cas, "buffer", SeqList(b0.seq))
        return cas, b0.seq

    def _delta_is(self, env, F, cas, B0, want, clause, native, props=("C14",)):
        buf = F.get(cas, "buffer")
        if native:
            got = list(buf)
            env.ensure(clause, got == list(B0) + list(want), props, lambda: "delta=%s" % (got[len(B0):][:24],))
        else:
            wseq = want if z3.is_expr(want) else (seq_of(want) if len(want) else z3.Empty(IntSeq))
            env.ensure(clause, mk(buf.seq == z3.Concat(B0, wseq)), props)

    def f_append_blank(self, env, cell, F, native):
        cas, B0 = self._fresh_cassette(env, F, native)
        F.method(cas, "append_blank")
        buf = F.get(cas, "buffer")
        d = self._concrete_delta(buf, B0, native)
        env.ensure(KEY + "append_blank::post:zeros", d is not None and all(x == 0 for x in d), ("C14",), lambda: "delta=%s" % (d,))

    def f_append_leader(self, env, cell, F, native):
        cas, B0 = self._fresh_cassette(env, F, native)
        F.method(cas, "append_leader")
        buf = F.get(cas, "buffer")
        d = self._concrete_delta(buf, B0, native)
        env.ensure(KEY + "append_leader::post:leader", d is not None and len(d) >= 1 and all(x == 0x55 for x in d), ("C14",),
                   lambda: "delta=%s" % (d,))

    def _concrete_delta(self, buf, B0, native):
        """the appended suffix as a concrete list (None when it is not concrete)"""
        if native:
            return list(buf)[len(B0):]
        t = z3.simplify(buf.seq)
        parts = _flatten(t)
        if not parts or not parts[0].eq(B0):
            return None
        out = []
        for u in parts[1:]:
            if u.decl().kind() == z3.Z3_OP_SEQ_UNIT and z3.is_int_value(u.arg(0)):
                out.append(u.arg(0).as_long())
            else:
                return None
        return out

    def f_append_eof(self, env, cell, F, native):
        cas, B0 = self._fresh_cassette(env, F, native)
        F.method(cas, "append_eof")
        self._delta_is(env, F, cas, B0, tape.EOF_BLOCK, KEY + "append_eof::post:eof-block", native)

    def f_append_name(self, env, cell, F, native):
        n = cell["n"]
        name = name_text(env, n)
        cas, B0 = self._fresh_cassette(env, F, native)
        r = F.method(cas, "append_name", name)
        codes = name_codes(name)[:8]
        want = codes + [0x20] * (8 - len(codes))
        self._delta_is(env, F, cas, B0, want, KEY + "append_name::post:name8", native)
        tot = 0
        for c in want:
            tot = tot + c
        env.ensure(KEY + "append_name::post:sum", r == tot, ("C14",), lambda: "returned=%s" % (r,))

    def _file(self, env, F, n, ak, native, tag=""):
        name = name_text(env, n, "nm" + tag)
        ftype = env.hole_int("type" + tag, 0, 3)
        dtype = env.hole_choice("dtype" + tag, [0x00, 0xFF])
        load = env.hole_int("load" + tag, 0, 65535)
        exe = env.hole_int("exec" + tag, 0, 65535)
        data = env.hole_seq("data" + tag)
        f = F.coco_file(name, ftype, dtype, load, exe, data, addr_kind=ak)
        if ak == "none":
            load, exe = 0, 0
        return f, name, ftype, dtype, load, exe, data

    def _namefile(self, name, ftype, dtype, load, exe):
        codes = name_codes(name)[:8]
        pay = codes + [0x20] * (8 - len(codes)) + [ftype, dtype, 0x00, _hi(load), _lo(load), _hi(exe), _lo(exe)]
        tot = 0x00 + 0x0F
        for c in pay:
            tot = tot + c
        return [0x55, 0x3C, 0x00, 0x0F] + pay + [tot % 256, 0x55]

    def f_append_header(self, env, cell, F, native):
        f, name, ftype, dtype, load, exe, data = self._file(env, F, cell["n"], cell["ak"], native)
        cas, B0 = self._fresh_cassette(env, F, native)
        F.method(cas, "append_header", f)
        self._delta_is(env, F, cas, B0, self._namefile(name, ftype, dtype, load, exe), KEY + "append_header::post:namefile-block", native)

    def f_append_data_blocks(self, env, cell, F, native):
        raw = env.hole_seq("raw")
        cas, B0 = self._fresh_cassette(env, F, native)
        if native:
            F.method(cas, "append_data_blocks", list(raw))
            got = list(F.get(cas, "buffer"))[len(B0):]
            ok = True
            why = ""
            try:
                # property-level oracle: the appended bytes are data blocks (<= 255 payload bytes each, framed, checksummed)
                # whose payloads concatenate to raw
                p, payload = 0, []
                while p < len(got):
                    r = tape._read_block(got, p)
                    if r is None:
                        break
                    bt, pl, p = r
                    if bt != 1:
                        raise tape.TapeFormatError("block type %d" % bt)
                    payload += pl
                if payload != list(raw):
                    ok, why = False, "payload-mismatch"
            except tape.TapeFormatError as e:
                ok, why = False, "malformed:%s" % e
            env.ensure(KEY + "append_data_blocks::post:blocks", ok, ("C14",), lambda: "len=%d:%s" % (len(raw), why))
            return
        v = adb_verifier(env, F)
        v.outer_raw = raw.seq
        with v.installed():
            F.method(cas, "append_data_blocks", raw)
        buf = F.get(cas, "buffer")
        env.ensure(KEY + "append_data_blocks::post:blocks", mk(buf.seq == z3.Concat(B0, blocks_def(raw.seq))), ("C14",))

    def _add_file_verifier(self, env, F):
        v = Verifier(env, F.it)

        def apply_adb(v_, interp, func, args):
            self_, raw = args["self"], args["raw_bytes"]
            buf = interp.getattr_(self_, "buffer")
            if not isinstance(raw, SeqList):
                raw = SeqList.of(list(raw))
            buf.seq = z3.Concat(buf.seq, blocksU(raw.seq))
            return None
        v.contract(KEY + "append_data_blocks", CallSpec(apply_adb))
        return v

    def _want_file(self, name, ftype, dtype, load, exe, data, gap, leader):
        return z3.Concat(seq_of([0] * gap + [0x55] * leader + self._namefile(name, ftype, dtype, load, exe) + [0] * gap + [0x55] * leader),
                         blocksU(data.seq), seq_of(tape.EOF_BLOCK))

    def _measure(self, env, F):
        """lengths appended by append_blank / append_leader (their own contracts say: zeros only / 0x55 only, >= 1)"""
        c = F.new(CAS, "CassetteFile")
        F.method(c, "append_blank")
        g = len(F.get(c, "buffer"))
        F.method(c, "append_leader")
        return g, len(F.get(c, "buffer")) - g

    def _native_files_check(self, env, cas_buf, B0, files, clause, props=("C14",)):
        got = list(cas_buf)[len(B0):]
        try:
            parsed = tape.parse_stream(got)
            why = None
            if len(parsed) != len(files):
                why = "file-count=%d,want=%d" % (len(parsed), len(files))
            else:
                for pf, (name, ftype, dtype, load, exe, data) in zip(parsed, files):
                    if pf["name"] != (name[:8]).ljust(8, " ") or pf["ftype"] != ftype or pf["dtype"] != dtype or pf["load"] != load \
                            or pf["exec"] != exe or pf["data"] != list(data) or any(b > 255 for b in pf["blocks"]):
                        why = "field-mismatch"
        except tape.TapeFormatError as e:
            why = "malformed:%s" % e
        env.ensure(clause, why is None, props, lambda: why)

    def f_add_file(self, env, cell, F, native):
        f, name, ftype, dtype, load, exe, data = self._file(env, F, cell["n"], "numeric", native)
        cas, B0 = self._fresh_cassette(env, F, native)
        if native:
            before = list(data)
            F.method(cas, "add_file", f)
            self._native_files_check(env, F.get(cas, "buffer"), B0, [(name, ftype, dtype, load, exe, data)], KEY + "add_file::post:tape-file")
            env.ensure(KEY + "add_file::post:frame:file-data-unchanged", list(F.get(f, "data")) == before, ("C16", "C09", "C14"),
                       lambda: "add_file:file-data-modified:%d->%d" % (len(before), len(list(F.get(f, "data")))))
            return
        gap, leader = self._measure(env, F)
        v = self._add_file_verifier(env, F)
        seq0 = data.seq
        with v.installed():
            F.method(cas, "add_file", f)
        buf = F.get(cas, "buffer")
        env.ensure(KEY + "add_file::post:tape-file",
                   mk(buf.seq == z3.Concat(B0, self._want_file(name, ftype, dtype, load, exe, data, gap, leader))), ("C14",))
        # the CoCoFile is outside the frame: its data list is the same object with the same contents (it goes to other containers)
        d2 = F.get(f, "data")
        env.ensure(KEY + "add_file::post:frame:file-data-unchanged", (d2 is data) and z3.eq(d2.seq, seq0), ("C16", "C09", "C14"))

    def f_add_files(self, env, cell, F, native):
        """add_files is the fold of add_file over the list, in list order (add_file through its contract)"""
        k = cell["k"]
        if native:
            files = [self._file(env, F, 3, "numeric", native, tag=str(j)) for j in range(k)]
            cas, B0 = self._fresh_cassette(env, F, native)
            F.method(cas, "add_files", [f[0] for f in files])
            self._native_files_check(env, F.get(cas, "buffer"), B0, [f[1:] for f in files], KEY + "add_files::post:fold")
            if k == 2:
                # the SAME CoCoFile twice in one list (a safety copy on one tape), and a renamed copy that shares its data list:
                # the fold is over the list, each occurrence is a complete file
                data = [(7 * i + 3) % 256 for i in range(600)]
                f1 = F.coco_file("GAME", 2, 0, 0x0E00, 0x0E10, data)
                f2 = F.coco_file("BACKUP", 2, 0, 0x0E00, 0x0E10, data)
                want = ("GAME", 2, 0, 0x0E00, 0x0E10, list(data))
                cas2, B2 = self._fresh_cassette(env, F, native)
                F.method(cas2, "add_files", [f1, f1, f2])
                self._native_files_check(env, F.get(cas2, "buffer"), B2, [want, want, ("BACKUP",) + want[1:]], KEY + "add_files::post:fold")
            return
        files = [F.coco_file("F%d" % j, 2, 0, 0, 0, [j]) for j in range(k)]
        cas, B0 = self._fresh_cassette(env, F, native)
        v = Verifier(env, F.it)
        fileU = {f.oid: z3.Const("tape_file!%d" % j, IntSeq) for j, f in enumerate(files)}

        def apply_add_file(v_, interp, func, args):
            buf = interp.getattr_(args["self"], "buffer")
            buf.seq = z3.Concat(buf.seq, fileU[args["coco_file"].oid])
            return None
        v.contract(KEY + "add_file", CallSpec(apply_add_file))
        with v.installed():
            F.method(cas, "add_files", files)
        buf = F.get(cas, "buffer")
        want = [B0] + [fileU[f.oid] for f in files]
        env.ensure(KEY + "add_files::post:fold", mk(buf.seq == (z3.Concat(*want) if len(want) > 1 else B0)), ("C14",))


def _hi(v):
    if isinstance(v, int):
        return v >> 8
    return mks(v.e / 256)


def _lo(v):
    if isinstance(v, int):
        return v & 255
    return mks(v.e % 256)


def _flatten(t):
    if z3.is_app(t) and t.decl().kind() == z3.Z3_OP_SEQ_CONCAT:
        out = []
        for c in t.children():
            out.extend(_flatten(c))
        return out
    return [t]


LEMMAS = [TapeWriter()]


# =============================================================================================== C06

LENS_QUICK = [0, 1, 2, 254, 255, 256, 509, 510, 511, 765]


def _upper8(name):
    return (name[:8]).ljust(8, " ").upper()


class TapeRoundTrip:
    """
    C06 composed round trip  list_files(add_files(L)) == L  and the reader on foreign well-formed streams.
    BOUNDED stand-in (never counted as proved): file count <= 3 and data lengths enumerated (every boundary length in
    the quick tier, every length 0..765 in the thorough tier); file CONTENTS, addresses and name characters are symbolic,
    so each cell covers all contents of that shape, including the marker bytes 55 3C 00/01/FF.
    """
    name = "tape_roundtrip"
    props = ("C06", "C13")

    def cells(self, tier):
        out = []
        lens = LENS_QUICK if tier == "quick" else list(range(0, 766))
        for L in lens:
            out.append({"id": "rt/1file/len%d" % L, "kind": "rt", "lens": [L], "names": [5], "bounded": "1 file, data length %d" % L})
        for nl in (0, 1, 8, 9, 12):
            out.append({"id": "rt/1file/name%d" % nl, "kind": "rt", "lens": [3], "names": [nl], "bounded": "1 file, name length %d" % nl})
        pairs = [(1, 255), (255, 1), (256, 256), (0, 5), (5, 0), (510, 3)] if tier == "quick" else \
            [(a, b) for a in (0, 1, 255, 256, 510) for b in (0, 1, 255, 256, 511)]
        for a, b in pairs:
            out.append({"id": "rt/2files/%d,%d" % (a, b), "kind": "rt", "lens": [a, b], "names": [3, 8],
                        "bounded": "2 files, lengths %d,%d" % (a, b)})
        for tr in ([1, 2, 3], [255, 0, 1], [256, 255, 254]):
            out.append({"id": "rt/3files/%s" % ",".join(map(str, tr)), "kind": "rt", "lens": tr, "names": [1, 8, 12],
                        "bounded": "3 files, lengths %s" % tr})
        out.append({"id": "rt/0files", "kind": "rt", "lens": [], "names": [], "bounded": "empty list"})
        for shape in ("leader1", "leader500", "gaps-between-blocks", "no-gap", "two-files-short-leaders", "short-blocks-in-the-middle"):
            for L in (1, 255, 256, 600):
                out.append({"id": "foreign/%s/len%d" % (shape, L), "kind": "foreign", "shape": shape, "len": L,
                            "bounded": "foreign stream %s, data length %d" % (shape, L)})
        return out

    max_paths = 400

    def probes(self, cell):
        """concrete contents tried natively when the symbolic exploration of a cell does not finish"""
        pats = [[0x55, 0x3C, 0x00], [0x55, 0x3C, 0x01, 0x05], [0x55, 0x3C, 0xFF, 0x00, 0xFF, 0x55], [0x00], [0x55], [0xFF, 0x55, 0x3C]]
        if cell["kind"] == "rt":
            for pat in pats:
                h = {"f0type": 2, "f0dtype": 0, "f0load": 0x553C, "f0exec": 0x0055}
                for j, (L, nl) in enumerate(zip(cell["lens"], cell["names"])):
                    h["f%ddata" % j] = [pat[i % len(pat)] for i in range(L)]
                    for k in range(nl):
                        h["f%dn%d" % (j, k)] = 65 + (j + k) % 26
                yield h
        else:
            for pat in pats:
                yield {"data": [pat[i % len(pat)] for i in range(cell["len"])], "load": 0x553C, "exec": 0x3C00}

    def run(self, env, cell):
        F = Files(env)
        native = env.mode == "native"
        if cell["kind"] == "rt":
            self.k_rt(env, cell, F, native)
        else:
            self.k_foreign(env, cell, F, native)

    def _mkfile(self, env, F, j, L, nl):
        name = name_text(env, nl, "f%dn" % j)
        if L <= 8 and j == 0:
            # header fields symbolic (all types, all 16-bit addresses) for the short files ...
            ftype = env.hole_int("f%dtype" % j, 0, 3)
            dtype = env.hole_choice("f%ddtype" % j, [0x00, 0xFF])
            load = env.hole_int("f%dload" % j, 0, 65535)
            exe = env.hole_int("f%dexec" % j, 0, 65535)
        else:
            # ... and concrete for the long ones (the header is independent of the data; its contract is proved
            # unboundedly in tape_writer), keeping one path per cell
            ftype, dtype = (2, 0x00) if L % 2 else (0, 0xFF)
            load, exe = (0x0E00 + L) % 65536, (0xFF00 + 3 * L) % 65536
        data = env.hole_bytes("f%ddata" % j, L)
        return F.coco_file(name, ftype, dtype, load, exe, list(data)), (name, ftype, dtype, load, exe, data)

    def _compare(self, env, F, got, want, clause, native, sigpfx):
        def sig(what):
            return (lambda: "%s:%s" % (sigpfx, what)) if native else None
        if len(got) != len(want):
            env.fail(clause, ("C06",), sig("file-count=%d,want=%d" % (len(got), len(want))))
            return
        for j, (g, w) in enumerate(zip(got, want)):
            name, ftype, dtype, load, exe, data = w
            gname = F.get(g, "name")
            wn = name if isinstance(name, str) else None
            if native:
                ok_name = _upper8(gname) == _upper8(name)
            else:
                from pyvc import strmodel
                gu = strmodel.s_upper(SStr.of(gname)) if not isinstance(gname, str) else gname.upper()
                wu = SStr.of(name).chars[:8] if not isinstance(name, str) else [ord(c) for c in name[:8]]
                wu = strmodel.s_upper(SStr(wu + [0x20] * (8 - len(wu))))
                ok_name = SStr.of(gu).eq(wu)
            env.ensure(clause + ":name", ok_name, ("C06",), sig("name@%d" % j))
            ok = (F.intval(F.get(g, "type")) == ftype) & (F.intval(F.get(g, "data_type")) == dtype) & \
                 (F.intval(F.get(g, "load_addr")) == load) & (F.intval(F.get(g, "exec_addr")) == exe)
            env.ensure(clause + ":fields", ok, ("C06",), sig("fields@%d" % j))
            gd = list(F.get(g, "data"))
            if len(gd) != len(data):
                env.fail(clause + ":data", ("C06",), sig("data-length=%d,want=%d@%d" % (len(gd), len(data), j)))
                continue
            okd = True
            for x, y in zip(gd, data):
                okd = okd & (x == y)
            env.ensure(clause + ":data", okd, ("C06",), sig("data@%d" % j))

    def k_rt(self, env, cell, F, native):
        files = [self._mkfile(env, F, j, L, nl) for j, (L, nl) in enumerate(zip(cell["lens"], cell["names"]))]
        sigpfx = "rt/lens=%s" % ",".join(str(x) for x in cell["lens"])
        cas = F.new(CAS, "CassetteFile")
        try:
            F.method(cas, "add_files", [f[0] for f in files])
            buf = list(F.get(cas, "buffer"))
            rd = F.new(CAS, "CassetteFile", buffer=list(buf))
            got = F.method(rd, "list_files")
        except Raised as e:
            env.fail("C13:no-internal-error" if e.cls != "VirtualFileValidationError" else "C06:listing",
                     ("C13",) if e.cls != "VirtualFileValidationError" else ("C06",),
                     (lambda: "%s:raised:%s" % (sigpfx, e.cls)) if native else None)
            return
        self._compare(env, F, list(got), [f[1] for f in files], "C06:roundtrip", native, sigpfx)

    def k_foreign(self, env, cell, F, native):
        L = cell["len"]
        shape = cell["shape"]
        data = env.hole_bytes("data", L)
        load = env.hole_int("load", 0, 65535)
        exe = env.hole_int("exec", 0, 65535)
        want = []

        def one(name, gap, leader, between, sizes=(255,)):
            nf = tape.namefile_payload(name, 2, 0, 0xFF if between else 0, 0, 0)
            nf[11:15] = [_hi(load), _lo(load), _hi(exe), _lo(exe)]
            out = [0] * gap + [0x55] * leader + _sym_block(0, nf) + [0] * gap + [0x55] * leader
            d = list(data)
            first = True
            k = 0
            while d:
                if between and not first:
                    out += [0] * 16 + [0x55] * 32
                sz = sizes[k % len(sizes)]
                k += 1
                out += _sym_block(1, d[:sz])
                d = d[sz:]
                first = False
            out += tape.EOF_BLOCK
            want.append((name, 2, 0, load, exe, data))
            return out
        if shape == "leader1":
            buf = one("FOREIGN", 0, 1, False)
        elif shape == "leader500":
            buf = one("FOREIGN", 300, 500, False)
        elif shape == "gaps-between-blocks":
            buf = one("GAPPY", 128, 128, True)
        elif shape == "no-gap":
            buf = one("NOGAP", 0, 128, False)
        elif shape == "short-blocks-in-the-middle":
            buf = one("SHORTMID", 0, 2, False, sizes=(10, 255, 3, 1, 128))
        else:
            buf = one("A", 0, 2, False) + one("B", 1, 3, False)
        sigpfx = "foreign/%s/len%d" % (shape, L)
        try:
            rd = F.new(CAS, "CassetteFile", buffer=list(buf))
            got = F.method(rd, "list_files")
        except Raised as e:
            env.fail("C06:foreign-listing", ("C06",), (lambda: "%s:raised:%s" % (sigpfx, e.cls)) if native else None)
            return
        self._compare(env, F, list(got), want, "C06:foreign", native, sigpfx)


def _sym_block(btype, payload):
    tot = btype + len(payload)
    for x in payload:
        tot = tot + x
    return [0x55, 0x3C, btype, len(payload)] + list(payload) + [tot % 256, 0x55]


LEMMAS.append(TapeRoundTrip())


# =============================================================================================== reader functions (unbounded)

from pyvc.lists import ArrList
from pyvc.contracts import Forall, prove_forall
from pyvc.sym import Implies, And as SAnd, Or as SOr, Not as SNot


class TapeReaderFns:
    """
    Unbounded contracts on the cassette reader's leaf functions (buffer = z3 array of ANY length and content):
      skip_to_sequence(seq, start)   returns the LEAST p >= start with buffer[p:p+k] == seq (k = 2, 3), -1 iff there is none;
                                     never raises (loop invariant "no match in [start, pointer)", early return inside the cut loop)
      read_word(p)                   == 256*buffer[p] + buffer[p+1];  VirtualFileValidationError iff fewer than 2 bytes are left
      read_coco_file_name(p)         the 8 bytes at p as characters, pointer + 8
    """
    name = "tape_reader_fns"
    props = ("C06", "C13")

    def cells(self, tier):
        return [{"id": "fn/skip_to_sequence/hdr", "fn": "skip", "seq": [0x55, 0x3C, 0x00]},
                {"id": "fn/skip_to_sequence/blk", "fn": "skip", "seq": [0x55, 0x3C]},
                {"id": "fn/read_word", "fn": "word"}, {"id": "fn/read_coco_file_name", "fn": "name"}]

    def probes(self, cell):
        if cell["fn"] == "skip":
            seq = cell["seq"]
            for buf, start in (([0, 0x55] + seq + [1, 2], 0), (seq, 0), ([0x55] * 5 + seq, 2), ([0x55, 0x3C], 0), ([], 0),
                               (seq + seq, 1), ([0x55] + seq[:-1], 0)):
                yield {"buf": buf, "start": start}
        elif cell["fn"] == "word":
            for buf, p in (([1, 2, 3], 0), ([1, 2, 3], 1), ([1, 2, 3], 2), ([255, 255], 0), ([], 0)):
                yield {"buf": buf, "p": p}

    def run(self, env, cell):
        if env.mode == "native":
            return self.native(env, cell)
        getattr(self, "s_" + cell["fn"])(env, cell, Files(env))

    def native(self, env, cell):
        F = Files(env)
        h = env.holes
        buf = list(h.get("buf", []))
        c = F.new(CAS, "CassetteFile", buffer=list(buf)) if buf else F.new(CAS, "CassetteFile")
        if cell["fn"] == "skip":
            seq, start = cell["seq"], h.get("start", 0)
            k = len(seq)
            try:
                r = F.method(c, "skip_to_sequence", list(seq), start=start)
            except Raised as e:
                env.fail(KEY + "skip_to_sequence::raises:none", ("C06", "C13"), lambda: "raised:%s" % e.cls)
                return
            want = -1
            for p in range(start, len(buf) - k + 1):
                if buf[p:p + k] == seq:
                    want = p
                    break
            env.ensure(KEY + "skip_to_sequence::post:least-match", r == want, ("C06",), lambda: "returned=%s,least=%s" % (r, want))
        elif cell["fn"] == "word":
            p = h.get("p", 0)
            try:
                r = F.method(c, "read_word", p)
            except Raised as e:
                env.ensure(KEY + "read_word::raises:only-short", e.cls == "VirtualFileValidationError" and p + 2 > len(buf), ("C06", "C13"),
                           lambda: "raised:%s" % e.cls)
                return
            env.ensure(KEY + "read_word::post:value", p + 2 <= len(buf) and F.intval(r) == buf[p] * 256 + buf[p + 1], ("C06",),
                       lambda: "value")
        elif cell["fn"] == "name":
            n, pnt = min(h.get("n", 64), 5000), h.get("p", 3)
            pnt = min(pnt, max(0, n - 8))
            img = [32 + (7 * i + 5) % 95 for i in range(n)]
            c = F.new(CAS, "CassetteFile", buffer=list(img))
            key = KEY + "read_coco_file_name"
            try:
                r = F.method(c, "read_coco_file_name", pnt)
            except Raised as e:
                env.fail(key + "::raises:none-for-ascii", ("C06", "C13"), lambda: "read_coco_file_name:raised:%s" % e.cls)
                return
            env.ensure(key + "::post:pointer", r[1] == pnt + 8, ("C06",), lambda: "read_coco_file_name:pointer=%s" % (r[1],))
            env.ensure(key + "::post:name-bytes", [ord(ch) for ch in str(r[0])] == img[pnt:pnt + 8], ("C06",), lambda: "read_coco_file_name:bytes")
        else:
            env.ensure(KEY + "native-replay-not-implemented", True, ())

    def _cassette(self, env, F, n):
        c = F.new(CAS, "CassetteFile")
        A = z3.Array("h_bufarr", z3.IntSort(), z3.IntSort())
        buf = ArrList(A, n)
        F.set(c, "buffer", buf)
        env.hole_terms["buf"] = ("arr", A, n.e if isinstance(n, SymInt) else z3.IntVal(n))
        return c, buf, A

    def s_skip(self, env, cell, F):
        seq = cell["seq"]
        k = len(seq)
        n = env.hole_int("n", 0, 400000)
        start = env.hole_int("start", 0, 400000)
        c, buf, A = self._cassette(env, F, n)
        key = KEY + "skip_to_sequence"

        def match(q):
            conj = [q + k <= n] + [mk(z3.Select(A, sym._z(q + j)) == seq[j]) for j in range(k)]
            return SAnd(*conj)
        v = Verifier(env, F.it)

        def init(ctx):
            return {}

        def havoc(ctx):
            return {}

        def inv(ctx, i, g):
            return [Forall("nomatch", start, i, lambda q: SNot(match(q)))]

        def step(ctx, i, g):
            return {}
        v.loop(key, 0, LoopSpec(("C06",), init, havoc, inv, step))
        with v.installed():
            try:
                r = F.method(c, "skip_to_sequence", list(seq), start=start)
            except Raised as e:
                env.fail(key + "::raises:none", ("C06", "C13"))
                return
        p = cur()
        facts = [f for f in v.facts if f.name == "nomatch"]
        hi = start + n - k + 1
        if isinstance(r, int) and r == -1:
            # no position at all matches: inside the scanned range by the invariant, beyond it because q + k > n
            goal = Forall("nomatch", start, start + n + 1, lambda q: SNot(match(q)))
            prove_forall(env, p, key + "::post:minus-one-means-no-match", goal, facts, ("C06",))
            return
        env.ensure(key + "::post:is-match", match(r), ("C06",))
        env.ensure(key + "::post:at-or-after-start", r >= start, ("C06",))
        prove_forall(env, p, key + "::post:least", Forall("nomatch", start, r, lambda q: SNot(match(q))), facts, ("C06",))

    def s_word(self, env, cell, F):
        n = env.hole_int("n", 0, 400000)
        pnt = env.hole_int("p", 0, 400000)
        c, buf, A = self._cassette(env, F, n)
        b0 = SymInt(z3.Select(A, sym._z(pnt)))
        b1 = SymInt(z3.Select(A, sym._z(pnt + 1)))
        for b in (b0, b1):
            env.assume(b >= 0)
            env.assume(b <= 255)
        key = KEY.replace("cassette.py::CassetteFile.", "virtual_file_container.py::VirtualFileContainer.") + "read_word"
        try:
            r = F.method(c, "read_word", pnt)
        except Raised as e:
            env.ensure(key + "::raises:only-short", (e.cls == "VirtualFileValidationError") and bool(pnt + 2 > n), ("C06", "C13"))
            return
        env.ensure(key + "::post:in-range", pnt + 2 <= n, ("C06",))
        env.ensure(key + "::post:value", F.intval(r) == b0 * 256 + b1, ("C06",))

    def s_name(self, env, cell, F):
        n = env.hole_int("n", 8, 400000)
        pnt = env.hole_int("p", 0, 400000)
        env.assume(pnt + 8 <= n)
        c, buf, A = self._cassette(env, F, n)
        bs = []
        for j in range(8):
            b = SymInt(z3.Select(A, sym._z(pnt + j)))
            env.assume(b >= 32)
            env.assume(b <= 126)
            bs.append(b)
        key = KEY + "read_coco_file_name"
        try:
            r = F.method(c, "read_coco_file_name", pnt)
        except Raised as e:
            env.fail(key + "::raises:none-for-ascii", ("C06", "C13"))
            return
        nm, p2 = r[0], r[1]
        env.ensure(key + "::post:pointer", p2 == pnt + 8, ("C06",))
        chars = SStr.of(nm).chars
        ok = len(chars) == 8
        if ok:
            for ch, b in zip(chars, bs):
                ok = ok & ((ch if isinstance(ch, int) else mk(ch.code)) == b)
        env.ensure(key + "::post:name-bytes", ok, ("C06",))


LEMMAS.append(TapeReaderFns())
