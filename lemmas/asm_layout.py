"""
Multi-statement layout lemmas (C02 chain / symbols / origin, C03 branch and PCR displacements,
C13 termination of the size fix-point, label operands of C01/C04).

Template (forward):              (backward):
      [ORG  {org}]                     [ORG  {org}]
      {source statement -> T}    T     NOP
      RMB  {n}                         RMB  {n}
T     NOP                              {source statement -> T}
      NOP                              NOP

{org} and {n} have symbolic digits, so every origin and every distance is covered by one cell.
The oracle computes addresses from the bytes actually emitted (image semantics), never from the
tool's own address fields.
"""
from specs import mc6809
from pyvc.asmh import assemble
from lemmas.common import literal
from lemmas.asm_forms import vclass, dsum

SHORT = ["BRA", "BRN", "BHI", "BLS", "BCC", "BHS", "BCS", "BLO", "BNE", "BEQ", "BVC", "BVS", "BPL", "BMI", "BGE", "BLT", "BGT",
         "BLE", "BSR"]
LONG = ["L" + m for m in SHORT]

# source statement kinds: id -> (mnemonic, operand template using {T}, class)
PCR_SRC = {
    "pcr/LDA": ("LDA", "{T},PCR"), "pcr/LDX": ("LDX", "{T},PCR"), "pcr/LDY": ("LDY", "{T},PCR"), "pcr/LEAX": ("LEAX", "{T},PCR"),
    "[pcr]/LDA": ("LDA", "[{T},PCR]"), "[pcr]/JMP": ("JMP", "[{T},PCR]"),
    "pcr+c/LDA": ("LDA", "{T}+{c},PCR"), "pcr-c/LEAX": ("LEAX", "{T}-{c},PCR"),
}
ABS_SRC = {
    "abs/JMP": ("JMP", "{T}", "mem"), "abs/JSR": ("JSR", "{T}", "mem"), "abs/LDA": ("LDA", "{T}", "mem"), "abs/STX": ("STX", "{T}", "mem"),
    "abs/LDX#": ("LDX", "#{T}", "imm16"), "abs/LDA[]": ("LDA", "[{T}]", "extind"), "abs/LDA,X": ("LDA", "{T},X", "idx"),
    "abs/LDA>": ("LDA", ">{T}", "ext"), "abs/LDD#": ("LDD", "#{T}", "imm16"), "abs/CMPS": ("CMPS", "{T}", "mem"),
}


TAIL_ORG = 0xFE00


class AsmLayout:
    name = "asm_layout"
    props = ("C02", "C03", "C13", "C01", "C04", "C17")

    def cells(self, tier):
        out = []
        short = SHORT if tier == "thorough" else ["BRA", "BEQ", "BSR", "BHS"]
        long_ = LONG if tier == "thorough" else ["LBRA", "LBEQ", "LBSR"]
        # a branch / PCR operand whose target is its OWN statement (distance -length): every branch mnemonic (cheap, concrete shape)
        for m in SHORT + LONG:
            for org in ("noorg", "org"):
                out.append({"id": "relself/%s/%s" % (m, org), "kind": "relself", "mnemonic": m, "org": org})
        for m, tmpl in (("LDA", "T,PCR"), ("LEAX", "T,PCR"), ("LDY", "[T,PCR]")):
            out.append({"id": "pcrself/%s/%s" % (m, "ind" if tmpl.startswith("[") else "dir"), "kind": "relself", "mnemonic": m, "org": "org",
                        "operand": tmpl})
        for direction in ("fwd", "bwd"):
            for org in ("noorg", "org"):
                for m in short:
                    out.append({"id": "rel8/%s/%s/%s" % (m, direction, org), "kind": "rel", "mnemonic": m, "dir": direction, "org": org,
                                "nspell": "dec3"})
                for m in long_:
                    for nsp in ("dec3", "dec5"):
                        out.append({"id": "rel16/%s/%s/%s/%s" % (m, direction, org, nsp), "kind": "rel", "mnemonic": m, "dir": direction,
                                    "org": org, "nspell": nsp})
                for k in PCR_SRC:
                    for nsp in ("dec3", "dec5"):
                        out.append({"id": "%s/%s/%s/%s" % (k, direction, org, nsp), "kind": "pcr", "src": k, "dir": direction, "org": org,
                                    "nspell": nsp})
                for k in ABS_SRC:
                    out.append({"id": "%s/%s/%s" % (k, direction, org), "kind": "abs", "src": k, "dir": direction, "org": org,
                                "nspell": "dec3"})
        for k in PCR_SRC:
            out.append({"id": "%s/bwd/org/dec3/org-after" % k, "kind": "pcr", "src": k, "dir": "bwd", "org": "org", "nspell": "dec3",
                        "tail": "org"})
        # several mutually dependent PCR statements (bounded: 2 and 3 statements)
        for shape in ("2fwd", "2cross", "2bwd", "3mix"):
            out.append({"id": "pcr-multi/%s" % shape, "kind": "multi", "shape": shape,
                        "bounded": "%s PCR statements with symbolic gaps" % shape[0]})
        # placement: code before ORG, second ORG  (C02 third sentence)
        for shape in ("code-before-org", "second-org", "org-only", "org-low"):
            out.append({"id": "placement/%s" % shape, "kind": "placement", "shape": shape})
        for shape in ("duplicate-label", "undefined-symbol", "undefined-branch", "equ-value"):
            out.append({"id": "symbols/%s" % shape, "kind": "symbols", "shape": shape})
        # a name defined twice, by every pair of defining statement kinds, adjacent / one / three statements apart, used or not
        for k1 in DEF_KINDS:
            for k2 in DEF_KINDS:
                for gap in (0, 1, 3):
                    for used in (False, True):
                        if tier != "thorough" and not (gap == 1 and not used) and (k1, k2, gap, used) not in (
                                ("ins", "ins", 0, False), ("ins", "ins", 3, True), ("ins", "equ", 3, True), ("equ", "ins", 0, False),
                                ("equ", "equ", 3, False), ("data", "equ", 0, True)):
                            continue
                        out.append({"id": "symbols/dup/%s-%s/gap%d%s" % (k1, k2, gap, "/used" if used else ""), "kind": "symbols",
                                    "shape": "dup", "k1": k1, "k2": k2, "gap": gap, "used": used, "bounded": "concrete program shape"})
        # a name that is never defined, in every operand position that takes a symbol
        for pos in UNDEF_POS:
            for others in (False, True):
                out.append({"id": "symbols/undef/%s%s" % (pos, "/other-symbols" if others else ""), "kind": "symbols", "shape": "undef",
                            "pos": pos, "others": others, "bounded": "concrete program shape"})
        return out

    # ------------------------------------------------------------------
    def run(self, env, cell):
        getattr(self, "k_" + cell["kind"])(env, cell, env.mode == "native")

    def _gate(self, env, run, sig, split=None):
        if run.status == "hang":
            env.fail("C13:terminates", ("C13", "C03"), sig("hang"), split=split)
            return False
        env.ensure("C13:terminates", True, ("C13",))
        if run.status == "escape":
            env.fail("C13:no-internal-error", ("C13",), sig("escape:%s" % run.exc_class), split=split)
            return False
        env.ensure("C13:no-internal-error", True, ("C13",))
        return True

    def _program(self, env, cell, src_line):
        head = []
        org = 0
        if cell["org"] == "org":
            otxt, org = literal(env, "hex4", "org")
            head.append(env.text(" ORG ", otxt, "\n"))
        ntxt, n = literal(env, cell["nspell"], "n")
        gap = env.text(" RMB ", ntxt, "\n")
        if cell["dir"] == "fwd":
            body = [src_line, gap, "T NOP\n", " NOP\n"]
            si, ti, gi = len(head), len(head) + 2, len(head) + 1
        else:
            body = ["T NOP\n", gap, src_line, " NOP\n"]
            si, ti, gi = len(head) + 2, len(head), len(head) + 1
            if cell.get("tail") == "org":
                # the statement that follows the source statement is an ORG: the one statement whose address does not run on
                body = ["T NOP\n", gap, src_line, " ORG $%04X\n" % TAIL_ORG, " NOP\n"]
        return head + body, org, n, si, ti, gi

    def _layout(self, env, run, org, n, gi, sig, has_org, split=None):
        """C02 chain against image semantics; returns spec addresses (list) or None"""
        addrs = []
        a = org
        ok_chain = True
        for k, st in enumerate(run.stmts):
            if st.is_org:
                if k > 0 and has_org:
                    a = TAIL_ORG
                    addrs.append(TAIL_ORG)
                    continue
                addrs.append(org)
                continue
            addrs.append(a)
            ln = n if k == gi else len(st.bytes)
            a = a + ln
        for k, st in enumerate(run.stmts):
            if st.address is None:
                env.fail("C02:chain", ("C02",), sig("statement-without-address"), split=split)
                return None
            ok_chain = ok_chain & (st.address == addrs[k])
        env.ensure("C02:chain", ok_chain, ("C02",), sig("listing-address!=image-offset"), split=split)
        for k, st in enumerate(run.stmts):
            if k != gi and not st.is_org:
                env.ensure("C02:size", st.size == len(st.bytes), ("C02",), sig("size=%s,len=%d@%d" % (st.size, len(st.bytes), k)), split=split)
        env.ensure("C02:rmb-size", run.stmts[gi].size == n, ("C02", "C05"), sig("rmb-size"), split=split)
        return addrs

    def k_rel(self, env, cell, native):
        m = cell["mnemonic"]
        lines, org, n, si, ti, gi = self._program(env, cell, " %s T\n" % m)
        env.assume(org + n <= 65000)
        env.info["lines"] = lines
        skip = [k for k in range(len(lines)) if k != gi]
        run = assemble(env, lines, bytes_of=skip)
        env.info["run"] = repr(run)
        short = m in SHORT
        width = 2 if short else (3 if m in ("LBRA", "LBSR") else 4)
        # true displacement if the statement is emitted with its data-sheet length
        dist = (n + 0) if cell["dir"] == "fwd" else -(n + 1 + width)

        def sig(what):
            return (lambda: "rel:%s:%s:%s:dist=%s" % (m, cell["dir"], what, _dclass(dist))) if native else None
        sp = csplit(dist, DCLASSES)
        if not self._gate(env, run, sig, sp):
            return
        in_range = bool((dist >= -128) & (dist <= 127)) if short else True
        if run.status == "diag":
            if in_range:
                env.fail("C03:accepted", ("C03", "C01"), sig("rejected:%s" % run.exc_class), split=sp)
            else:
                env.ensure("C03:short-range-rejected", True, ("C03",))
            return
        if not in_range:
            env.fail("C03:short-range-rejected", ("C03", "C12"), sig("out-of-range-accepted"), split=sp)
            return
        addrs = self._layout(env, run, org, n, gi, sig, cell["org"] == "org", split=sp)
        if addrs is None:
            return
        st = run.stmts[si]
        d = mc6809.decode(st.bytes)
        if not (d.ok and d.length == len(st.bytes) and m in mc6809.names_of(d.op) and d.mode in ("rel8", "rel16")):
            env.fail("C03:target", ("C03", "C01"), sig("undecodable:%s" % (d.why or dsum(d))), split=sp)
            return
        env.ensure("C03:target", (addrs[si] + len(st.bytes) + d.offset - addrs[ti]) % 65536 == 0, ("C03", "C01"),
                   sig("wrong-target"), split=sp)
        self._symbols(env, run, addrs, ti, org, cell, sig, split=sp)

    def k_relself(self, env, cell, native):
        """`T <branch> T` / `T LDA T,PCR`: the displacement must lead back to the statement's own address"""
        m = cell["mnemonic"]
        head, org = [], 0
        if cell["org"] == "org":
            otxt, org = literal(env, "hex4", "org")
            env.assume(org <= 65000)
            head.append(env.text(" ORG ", otxt, "\n"))
        lines = head + [" NOP\n", "T %s %s\n" % (m, cell.get("operand", "T")), " NOP\n"]
        si = len(head) + 1
        env.info["lines"] = lines
        run = assemble(env, lines)
        sig = lambda what: (lambda: "relself:%s:%s:%s" % (m, cell["org"], what)) if native else None
        if not self._gate(env, run, sig):
            return
        if run.status == "diag":
            env.fail("C03:accepted", ("C03", "C01"), sig("rejected:%s" % run.exc_class))
            return
        st = run.stmts[si]
        d = mc6809.decode(st.bytes)
        if not (d.ok and d.length == len(st.bytes) and m in mc6809.names_of(d.op)):
            env.fail("C03:target", ("C03", "C01"), sig("undecodable:%s" % (d.why or dsum(d))))
            return
        env.ensure("C02:size", st.size == len(st.bytes), ("C02",), sig("size=%s,len=%d" % (st.size, len(st.bytes))))
        env.ensure("C03:target", (len(st.bytes) + d.offset) % 65536 == 0, ("C03", "C01"), sig("wrong-target"))

    def _symbols(self, env, run, addrs, ti, org, cell, sig, split=None):
        tv = run.symbols.get("T")
        if tv is None:
            env.fail("C02:symbol-value", ("C02",), sig("symbol-T-missing"), split=split)
        else:
            env.ensure("C02:symbol-value", tv == addrs[ti], ("C02",), sig("symbol!=listing-address"), split=split)
        if cell["org"] == "org" and not cell.get("tail"):       # (what the origin is with two ORGs: placement/second-org)
            if run.origin is None:
                env.fail("C02:origin", ("C02", "C11"), sig("origin-missing"), split=split)
            else:
                env.ensure("C02:origin", run.origin == org, ("C02", "C11"), sig("origin-mismatch"), split=split)

    def k_pcr(self, env, cell, native):
        m, tmpl = PCR_SRC[cell["src"]]
        c = 0
        ctext = None
        if "{c}" in tmpl:
            cd = env.hole_char("c", [(49, 57)])
            c = (int(cd) if native else _dv(cd))
            if "-{c}" in tmpl:
                c = -c
            ctext = cd
        parts = []
        for piece in _split(tmpl):
            parts.append("T" if piece == "{T}" else (ctext if piece == "{c}" else piece))
        lines, org, n, si, ti, gi = self._program(env, cell, env.text(" ", m, " ", parts, "\n"))
        env.assume(org + n <= 65000)
        env.info["lines"] = lines
        skip = [k for k in range(len(lines)) if k != gi]
        run = assemble(env, lines, bytes_of=skip)
        env.info["run"] = repr(run)

        def sig(what):
            return (lambda: "%s:%s:%s:n=%s" % (cell["src"], cell["dir"], what, _nclass(n))) if native else None
        sp = csplit(n, NCLASSES)
        if not self._gate(env, run, sig, sp):
            return
        if run.status == "diag":
            env.fail("C03:accepted", ("C03", "C01"), sig("rejected:%s" % run.exc_class), split=sp)
            return
        addrs = self._layout(env, run, org, n, gi, sig, cell["org"] == "org", split=sp)
        if addrs is None:
            return
        st = run.stmts[si]
        d = mc6809.decode(st.bytes)
        indirect = tmpl.startswith("[")
        if not (d.ok and d.length == len(st.bytes) and m in mc6809.names_of(d.op) and d.mode == "idx"
                and d.kind in ("pcr8", "pcr16") and d.indirect == indirect):
            env.fail("C03:target", ("C03", "C01"), sig("undecodable:%s" % (d.why or dsum(d))), split=sp)
            return
        env.ensure("C03:target", (addrs[si] + len(st.bytes) + d.offset - (addrs[ti] + c)) % 65536 == 0, ("C03", "C01", "C04"),
                   sig("wrong-target:%s" % d.kind), split=sp)
        self._symbols(env, run, addrs, ti, org, cell, sig, split=sp)

    def k_abs(self, env, cell, native):
        m, tmpl, field = ABS_SRC[cell["src"]]
        lines, org, n, si, ti, gi = self._program(env, cell, " %s %s\n" % (m, tmpl.replace("{T}", "T")))
        env.assume(org + n <= 65000)
        env.info["lines"] = lines
        skip = [k for k in range(len(lines)) if k != gi]
        run = assemble(env, lines, bytes_of=skip)
        env.info["run"] = repr(run)

        # root-cause feature of this family: is the label's (listing) address below $100 ?
        ta = run.stmts[ti].address if run.status == "ok" and len(run.stmts) > ti else None

        def tcls():
            return "?" if ta is None else ("<256" if ta < 256 else ">=256")

        def sig(what):
            return (lambda: "%s:%s:%s:%s:T=%s" % (cell["src"], cell["dir"], cell["org"], what, tcls())) if native else None
        sp = None if (native or ta is None or isinstance(ta, int)) else [("<256", ta < 256), (">=256", ta >= 256)]
        if not self._gate(env, run, sig, sp):
            return
        if run.status == "diag":
            env.fail("C01:accepted", ("C01", "C04"), sig("rejected:%s" % run.exc_class), split=sp)
            return
        addrs = self._layout(env, run, org, n, gi, sig, cell["org"] == "org", split=sp)
        if addrs is None:
            return
        st = run.stmts[si]
        d = mc6809.decode(st.bytes)
        T = addrs[ti]

        tsig = sig
        if not (d.ok and d.length == len(st.bytes) and m in mc6809.names_of(d.op)):
            env.fail("C01:label-operand", ("C01", "C04", "C12"), tsig("undecodable:%s" % (d.why or "length")), split=sp)
            return
        if field == "mem":
            ok = (d.mode in ("dir", "ext")) and bool(d.value == T) if d.mode in ("dir", "ext") else False
        elif field == "ext":
            ok = d.mode == "ext" and bool(d.value == T)
        elif field == "imm16":
            ok = d.mode == "imm16" and bool(d.value == T)
        elif field == "extind":
            ok = d.mode == "idx" and d.kind == "extind" and bool(d.value == T)
        else:
            ok = d.mode == "idx" and d.kind in ("off0", "off5", "off8", "off16") and d.reg == "X" and not d.indirect and \
                bool((d.offset - T) % 65536 == 0)
        env.ensure("C01:label-operand", ok, ("C01", "C04"), tsig("meaning:%s" % dsum(d)), split=sp)
        self._symbols(env, run, addrs, ti, org, cell, sig, split=sp)

    def k_multi(self, env, cell, native):
        shape = cell["shape"]
        n1t, n1 = literal(env, "dec3", "n1")
        n2t, n2 = literal(env, "dec3", "n2")
        g1 = env.text(" RMB ", n1t, "\n")
        g2 = env.text(" RMB ", n2t, "\n")
        if shape == "2fwd":
            lines = ["P1 LDA T1,PCR\n", g1, "P2 LEAX T2,PCR\n", g2, "T1 NOP\n", "T2 NOP\n"]
            refs = {0: (4, False), 2: (5, False)}
        elif shape == "2cross":
            lines = ["T1 NOP\n", g1, "P1 LDA T2,PCR\n", "P2 LDA T1,PCR\n", g2, "T2 NOP\n"]
            refs = {2: (5, False), 3: (0, False)}
        elif shape == "2bwd":
            lines = ["T1 NOP\n", "T2 NOP\n", g1, "P1 LDA [T1,PCR]\n", g2, "P2 LDY T2,PCR\n"]
            refs = {3: (0, True), 5: (1, False)}
        else:
            lines = ["P1 LDA T2,PCR\n", g1, "T1 NOP\n", "P2 LDX P1,PCR\n", g2, "P3 LEAY T1,PCR\n", "T2 NOP\n"]
            refs = {0: (6, False), 3: (0, False), 5: (2, False)}
        gaps = {k: v for k, v in enumerate(lines) if not isinstance(v, str) or " RMB " in v}
        gis = sorted(gaps)
        env.info["lines"] = lines
        run = assemble(env, lines, bytes_of=[k for k in range(len(lines)) if k not in gis])
        env.info["run"] = repr(run)

        def sig(what):
            return (lambda: "pcr-multi/%s:%s:n1=%s,n2=%s" % (shape, what, _nclass(n1), _nclass(n2))) if native else None
        from lemmas.asm_data import product_split
        sp = None if native else product_split([csplit(n1, NCLASSES), csplit(n2, NCLASSES)])
        if not self._gate(env, run, sig, sp):
            return
        if run.status == "diag":
            env.fail("C03:accepted", ("C03",), sig("rejected:%s" % run.exc_class), split=sp)
            return
        addrs = []
        a = 0
        for k, st in enumerate(run.stmts):
            addrs.append(a)
            a = a + ((n1 if k == gis[0] else n2) if k in gis else len(st.bytes))
        ok_chain = True
        for k, st in enumerate(run.stmts):
            ok_chain = ok_chain & (st.address == addrs[k])
            if k not in gis:
                env.ensure("C02:size", st.size == len(st.bytes), ("C02",), sig("size!=len@%d" % k), split=sp)
        env.ensure("C02:chain", ok_chain, ("C02",), sig("listing-address!=image-offset"), split=sp)
        for si, (ti, indirect) in refs.items():
            st = run.stmts[si]
            d = mc6809.decode(st.bytes)
            if not (d.ok and d.length == len(st.bytes) and d.mode == "idx" and d.kind in ("pcr8", "pcr16") and d.indirect == indirect):
                env.fail("C03:target", ("C03",), sig("undecodable@%d:%s" % (si, d.why or dsum(d))), split=sp)
                continue
            env.ensure("C03:target", (addrs[si] + len(st.bytes) + d.offset - addrs[ti]) % 65536 == 0, ("C03",),
                       sig("wrong-target@%d:%s" % (si, d.kind)), split=sp)

    def k_placement(self, env, cell, native):
        shape = cell["shape"]
        otxt, org = literal(env, "hex4", "org")
        if shape == "code-before-org":
            lines = [" NOP\n", env.text(" ORG ", otxt, "\n"), "T NOP\n", " JMP T\n"]
        elif shape == "second-org":
            o2t, org2 = literal(env, "hex4", "org2")
            lines = [env.text(" ORG ", otxt, "\n"), " NOP\n", env.text(" ORG ", o2t, "\n"), "T NOP\n", " JMP T\n"]
        elif shape == "org-only":
            lines = [env.text(" ORG ", otxt, "\n"), "T NOP\n", " JMP T\n"]
        else:
            d1 = env.hole_char("lo", [(48, 57)])
            org = int(d1) if native else _dv(d1)
            lines = [env.text(" ORG ", d1, "\n"), "T NOP\n", " LDX #T\n", " JMP T\n"]
        env.info["lines"] = lines
        run = assemble(env, lines)
        env.info["run"] = repr(run)
        sig = lambda what: (lambda: "placement/%s:%s" % (shape, what)) if native else None
        if not self._gate(env, run, sig):
            return
        if run.status == "diag":
            if shape in ("org-only", "org-low"):
                env.fail("C02:accepted", ("C02",), sig("rejected:%s" % run.exc_class))
            else:
                env.ensure("C02:rejected-or-contiguous", True, ("C02",))
            return
        # accepted: loading the image at the reported origin must put every statement at its listing address
        if run.origin is None:
            env.fail("C02:rejected-or-contiguous", ("C02",), sig("no-origin"))
            return
        a = run.origin
        ok = True
        for st in run.stmts:
            if st.is_org:
                continue
            ok = ok & (st.address == a)
            a = a + len(st.bytes)
        env.ensure("C02:rejected-or-contiguous", ok, ("C02",), sig("image-offset!=listing-address"))

    def k_symbols(self, env, cell, native):
        shape = cell["shape"]
        sig = lambda what: (lambda: "symbols/%s:%s" % (shape, what)) if native else None
        if shape == "dup":
            sig = lambda what: (lambda: "symbols/dup/%s-%s:%s" % (cell["k1"], cell["k2"], what)) if native else None
            lines = [" ORG $3000\n", "DUP " + DEF_KINDS[cell["k1"]] + "\n"]
            if cell["used"]:
                lines.append(" JMP DUP\n")
            lines += [" NOP\n"] * cell["gap"]
            lines += ["DUP " + DEF_KINDS[cell["k2"]].replace("$4000", "$4100") + "\n", " RTS\n"]
        elif shape == "undef":
            sig = lambda what: (lambda: "symbols/undef/%s:%s" % (cell["pos"], what)) if native else None
            lines = ["KON EQU $1234\n", " ORG $3000\n", "LBL NOP\n"]
            if cell["others"]:
                lines += ["UNDE EQU $10\n", "UNDEFX NOP\n"]
            lines += [UNDEF_POS[cell["pos"]] + "\n", "FWD RTS\n"]
        elif shape == "duplicate-label":
            lines = ["A NOP\n", "B NOP\n", "A NOP\n"]
        elif shape == "undefined-symbol":
            lines = [" LDA UNDEF\n", " NOP\n"]
        elif shape == "undefined-branch":
            lines = [" BRA UNDEF\n", " NOP\n"]
        else:
            vt, v = literal(env, "hex4", "v")
            lines = [env.text("V EQU ", vt, "\n"), " NOP\n"]
        env.info["lines"] = lines
        run = assemble(env, lines)
        env.info["run"] = repr(run)
        if not self._gate(env, run, sig):
            return
        if shape == "equ-value":
            if run.status != "ok":
                env.fail("C02:accepted", ("C02",), sig("rejected"))
                return
            sv = run.symbols.get("V")
            env.ensure("C02:equ-value", (sv is not None) and bool(sv == v), ("C02", "C04"), sig("equ-value"))
        else:
            env.ensure("C02:rejected", run.status == "diag", ("C02",), sig("accepted"))


DEF_KINDS = {"ins": "LDA #$01", "equ": "EQU $4000", "data": "FCB 1", "rmb": "RMB 2"}
UNDEF_POS = {"ext": " LDA UNDEF", "jmp": " JMP UNDEF", "imm8": " LDA #UNDEF", "imm16": " LDX #UNDEF", "dir": " LDA <UNDEF", "extf": " LDA >UNDEF",
             "idx": " LDA UNDEF,X", "ind": " LDA [UNDEF]", "indidx": " LDA [UNDEF,Y]", "pcr": " LDA UNDEF,PCR", "indpcr": " LDX [UNDEF,PCR]",
             "bra": " BRA UNDEF", "lbra": " LBRA UNDEF", "bsr": " BSR UNDEF", "expr-l": " LDA UNDEF+1", "expr-r": " LDA 1+UNDEF",
             "fdb": " FDB UNDEF", "fcb": " FCB UNDEF", "equ": "V EQU UNDEF", "rmb": " RMB UNDEF", "org": " ORG UNDEF",
             # an undefined name next to a DEFINED label / EQU constant in a two-term expression
             "lbl+u": " LDA LBL+UNDEF", "lbl-u": " LDX #LBL-UNDEF", "u+lbl": " JMP UNDEF+LBL", "fwd+u": " STA FWD+UNDEF", "lbl+u,pcr": " LEAX LBL+UNDEF,PCR",
             "equ+u": " LDX #KON+UNDEF", "u*equ": " LDD #UNDEF*KON", ">lbl+u": " LDA >LBL+UNDEF"}


def _split(t):
    out, cur = [], ""
    i = 0
    while i < len(t):
        if t.startswith("{T}", i) or t.startswith("{c}", i):
            if cur:
                out.append(cur)
                cur = ""
            out.append(t[i:i + 3])
            i += 3
        else:
            cur += t[i]
            i += 1
    if cur:
        out.append(cur)
    return out


DCLASSES = ((-10 ** 9, -32769), (-32768, -137), (-136, -129), (-128, -121), (-120, -1), (0, 119), (120, 127), (128, 135),
            (136, 32767), (32768, 10 ** 9))
NCLASSES = ((0, 100), (101, 119), (120, 124), (125, 127), (128, 130), (131, 255), (256, 32000), (32001, 33000), (33001, 10 ** 9))


def csplit(v, classes):
    """input classes of a symbolic quantity (see asm_forms.vsplit)"""
    if v is None or isinstance(v, int):
        return None
    return [("%d..%d" % (lo, hi), (v >= lo) & (v <= hi)) for lo, hi in classes]


def _dv(c):
    from pyvc.sym import mk
    return mk(c.code - 48)


def _dclass(d):
    for lo, hi in DCLASSES:
        if lo <= d <= hi:
            return "%d..%d" % (lo, hi)


def _nclass(n):
    for lo, hi in NCLASSES:
        if lo <= n <= hi:
            return "%d..%d" % (lo, hi)


LEMMAS = [AsmLayout()]
