"""Shared pieces of the assembler lemmas: literal spellings with symbolic digits, row classes."""
from specs import mc6809

DEC = [(48, 57)]
HEX = [(48, 57), (65, 70), (97, 102)]
BIN = [(48, 49)]
# CHAR_REGEX class of the README ('c): letters, digits and the listed punctuation
CHR = [(97, 122), (65, 90), (48, 57), (33, 47), (58, 63), (94, 94)]
# The README grammar does not enumerate the punctuation a character literal may hold; letters and digits
# are certainly valid, so the hole ranges over those (leniency A5: punctuation literals are not demanded).
CHR = [(97, 122), (65, 90), (48, 57)]

SPELLINGS = ["dec1", "dec2", "dec3", "dec4", "dec5", "hex1", "hex2", "hex3", "hex4", "bin8", "bin16", "chr",
             "neg1", "neg2", "neg3", "neg5"]
QUICK_SPELLINGS = ["dec2", "dec3", "dec5", "hex2", "hex4", "bin8", "chr", "neg1", "neg3", "neg5"]


def _digitval(c, base):
    """numeric value of one digit hole (str char natively, SymChar symbolically) -- defined here from the
    character code, not through the repo's parser"""
    from pyvc.sym import SymChar, mk
    import z3
    if isinstance(c, str):
        return int(c, base)
    code = c.code
    if base == 16:
        return mk(z3.If(code <= 57, code - 48, z3.If(code <= 70, code - 55, code - 87)))
    return mk(code - 48)


def literal(env, spelling, tag="v"):
    """-> (text parts list, signed value, info) for a numeric literal with symbolic digits"""
    kind, n = spelling.rstrip("0123456789"), spelling[len(spelling.rstrip("0123456789")):]
    n = int(n) if n else 0
    if kind in ("dec", "neg"):
        ds = [env.hole_char("%s_d%d" % (tag, k), DEC) for k in range(n)]
        val = 0
        for d in ds:
            val = val * 10 + _digitval(d, 10)
        if kind == "neg":
            env.assume(val >= 1)        # the properties quantify over -32768..-1; "-0" is not demanded
            return ["-"] + ds, -val
        return ds, val
    if kind == "hex":
        ds = [env.hole_char("%s_h%d" % (tag, k), HEX) for k in range(n)]
        val = 0
        for d in ds:
            val = val * 16 + _digitval(d, 16)
        return ["$"] + ds, val
    if kind == "bin":
        ds = [env.hole_char("%s_b%d" % (tag, k), BIN) for k in range(n)]
        val = 0
        for d in ds:
            val = val * 2 + _digitval(d, 2)
        return ["%"] + ds, val
    if kind == "chr":
        c = env.hole_char("%s_c" % tag, CHR)
        from pyvc.sym import SymChar, mk
        return ["'", c], (ord(c) if isinstance(c, str) else mk(c.code))
    raise ValueError(spelling)


def literal_in_range(spelling):
    """(lo, hi) of the values a spelling can denote (signed)"""
    kind, n = spelling.rstrip("0123456789"), spelling[len(spelling.rstrip("0123456789")):]
    n = int(n) if n else 0
    if kind == "dec":
        return 0, 10 ** n - 1
    if kind == "neg":
        return -(10 ** n - 1), 0
    if kind == "hex":
        return 0, 16 ** n - 1
    if kind == "bin":
        return 0, 2 ** n - 1
    return 33, 122


# ---------------------------------------------------------------------------- instruction rows

MACHINE = [m for m in mc6809.ALL_MNEMONICS]


def row_class(m):
    """class of an instruction row by (modes present, page, operand width)"""
    modes = tuple(md for md in ("inh", "imm", "dir", "idx", "ext", "rel") if mc6809.opcode_of(m, md) is not None)
    op = next(mc6809.opcode_of(m, md) for md in modes)
    page = op >> 8
    return (modes, page, mc6809.imm_width(m), m in ("PSHS", "PSHU", "PULS", "PULU"), m in ("TFR", "EXG"),
            m in ("LBRA", "LBSR"), m.startswith("LEA"), m in ("SWI", "SYNC"), m == "NEG")


def representatives():
    seen = {}
    for m in MACHINE:
        seen.setdefault(row_class(m), m)
    return sorted(seen.values())
