"""
C13 on statement TEXTS that no grammar family produces: every combination of a label field, a mnemonic and an operand text drawn
from fragments of the operand grammar (lone prefixes, unbalanced brackets, doubled separators, dangling operators, over-long
numbers, a non-ASCII letter ...), assembled inside a small valid program.  BOUNDED (7,320 concrete lines in the thorough tier, 3,660 in the quick tier); the clauses are the
property's: the assembler terminates, and what leaves Program.process is a diagnostic (ParseError / TranslationError), never an
internal error.  Failure signatures name the exception class, the phase of Program.process in which it was raised (its outermost
public method: stable under extraction of helpers) and the exact input (label index, operand index); the known findings list,
per mnemonic and root cause, exactly the inputs that fail on the tree (tools/mktextknown.py -> known_text_inputs.json), so
any other input that starts to fail is a new violation and a restructured implementation that fails on the same inputs is not.
"""
from pyvc.asmh import assemble

LABELS = ["", "L", "L1", "1L", "L:", "@L"]
MNEMONICS = ["LDA", "lda", "NOP", "FCB", "FDB", "FCC", "ORG", "EQU", "END", "RMB", "BRA", "LBRA", "PSHS", "TFR", "LEAX", "JMP", "XYZ", "SETDP",
             "NAM", "INCLUDE"]
OPERANDS = ["", "#", "#$", "$", "%", "'", ",", ",X", "X", "[", "]", "[]", "[,]", "#'", "1,", ",1", "1,,2", "++", "-", "A,", "$G", "%2", "1 2",
            "\"", "\"abc", "/a", "<", ">", "<>", "#<", "1+", "+1", "1++2", "T+", "*", "$10000000000", "99999999999999999999", "--X", "X+++",
            ",-", "[,X", ",X]", "A,B,C", ",PCR", "T,PCR,", "ż", "#-", "#--1", "1-", "[T", "T]", "#T,X", "<T,X", "A,X,Y", "D,D", "PC", "CC,",
            "S,U", "$,X", "%,X", "',X"]


class AsmText:
    name = "asm_text"
    props = ("C13",)

    def cells(self, tier):
        out = []
        for li, lb in enumerate(LABELS):
            if tier == "quick" and li not in (0, 1, 3):
                continue          # quick: no label, a plain label, a label that starts with a digit; thorough: all six label fields
            for mn in MNEMONICS:
                out.append({"id": "text/%d/%s" % (li, mn), "label": lb, "mn": mn, "bounded": "label field %r, mnemonic %s, %d operand texts" % (lb, mn, len(OPERANDS))})
        return out

    def run(self, env, cell):
        native = env.mode == "native"
        lb, mn = cell["label"], cell["mn"]
        for k, op in enumerate(OPERANDS):
            line = "%s %s %s\n" % (lb, mn, op)
            run = assemble(env, [" ORG $1000\n", "T NOP\n", line, " NOP\n"], want_listing=True, fs={})
            li = LABELS.index(lb)
            sig = lambda what, k=k, run=run: (lambda: "text:%s:%s:%s@%s:L%d:O%d" % (mn, what, run.exc_class, run.exc_phase, li, k)) if native else None
            # (one clause per input, so that the native replay of a failure reports THAT input and not the first failing one)
            env.ensure("C13:terminates#%d" % k, run.status != "hang", ("C13",), sig("hang"))
            env.ensure("C13:no-internal-error#%d" % k, run.status != "escape", ("C13",), sig("escape"))


LEMMAS = [AsmText()]
