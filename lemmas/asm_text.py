"""
C13 on statement TEXTS that no grammar family produces: every combination of a label field, a mnemonic and an operand text drawn
from fragments of the operand grammar (lone prefixes, unbalanced brackets, doubled separators, dangling operators, over-long
numbers, a non-ASCII letter ...), assembled inside a small valid program.  BOUNDED (7,320 concrete lines in the thorough tier, 3,660 in the quick tier); the clauses are the
property's: the assembler terminates, and what leaves Program.process is a diagnostic (ParseError / TranslationError), never an
internal error.  Failure signatures name the exception class, the phase of Program.process in which it was raised (its outermost
public method: stable under extraction of helpers) and the exact input (label index, operand index); the known findings list,
per mnemonic and root cause, exactly the inputs that fail on the tree (tools/mktextknown.py -> known_text_inputs.json), so
any other input that starts to fail is a new violation and a restructured implementation that fails on the same inputs is not.
"""
from pyvc.asmh import assemble

LABELS = ["", "L", "L1", "1L", "L:", "@L"]
MNEMONICS = ["LDA", "lda", "NOP", "FCB", "FDB", "FCC", "ORG", "EQU", "END", "RMB", "BRA", "LBRA", "PSHS", "TFR", "LEAX", "JMP", "XYZ", "SETDP",
             "NAM", "INCLUDE"]
OPERANDS = ["", "#", "#$", "$", "%", "'", ",", ",X", "X", "[", "]", "[]", "[,]", "#'", "1,", ",1", "1,,2", "++", "-", "A,", "$G", "%2", "1 2",
            "\"", "\"abc", "/a", "<", ">", "<>", "#<", "1+", "+1", "1++2", "T+", "*", "$10000000000", "99999999999999999999", "--X", "X+++",
            ",-", "[,X", ",X]", "A,B,C", ",PCR", "T,PCR,", "ż", "#-", "#--1", "1-", "[T", "T]", "#T,X", "<T,X", "A,X,Y", "D,D", "PC", "CC,",
            "S,U", "$,X", "%,X", "',X"]


# EQU symbols that name other symbols: chains, a self reference, cycles of two and three -- each used in the operand positions
ALIAS_DEFS = {
    "chain": ["FIRST   EQU SECOND\n", "SECOND  EQU $10\n"],
    "chain3": ["FIRST   EQU SECOND\n", "SECOND  EQU THIRD\n", "THIRD   EQU $1234\n"],
    "self": ["ALIAS   EQU ALIAS\n"],
    "pair": ["FIRST   EQU SECOND\n", "SECOND  EQU FIRST\n"],
    "triple": ["FIRST   EQU SECOND\n", "SECOND  EQU THIRD\n", "THIRD   EQU FIRST\n"],
    "to-label": ["FIRST   EQU START\n"],
    "to-undefined": ["FIRST   EQU NOWHERE\n"],
}
ALIAS_USES = [" LDA %s\n", " STA %s\n", " LDX #%s\n", " LDA #%s\n", " JMP %s\n", " LDA %s,X\n", " LDA [%s]\n", " LDA %s+1\n", " BRA %s\n",
              " LEAX %s,PCR\n", " FDB %s\n", " FCB %s\n"]


class AsmText:
    name = "asm_text"
    props = ("C13",)

    def cells(self, tier):
        out = []
        for li, lb in enumerate(LABELS):
            if tier == "quick" and li not in (0, 1, 3):
                continue          # quick: no label, a plain label, a label that starts with a digit; thorough: all six label fields
            for mn in MNEMONICS:
                out.append({"id": "text/%d/%s" % (li, mn), "label": lb, "mn": mn, "bounded": "label field %r, mnemonic %s, %d operand texts" % (lb, mn, len(OPERANDS))})
        for k in ALIAS_DEFS:
            out.append({"id": "alias/%s" % k, "alias": k, "bounded": "EQU alias shape %s in %d operand positions" % (k, len(ALIAS_USES))})
        return out

    def run_alias(self, env, cell, native):
        k = cell["alias"]
        name = "ALIAS" if k == "self" else "FIRST"
        for u, use in enumerate(ALIAS_USES):
            for where in ("before", "after"):
                lines = [" ORG $1000\n", "START NOP\n"] + (ALIAS_DEFS[k] if where == "before" else []) + [use % name, " RTS\n"] + \
                    (ALIAS_DEFS[k] if where == "after" else [])
                run = assemble(env, lines, want_listing=True)
                tag = "%d%s" % (u, where[0])
                sig = lambda what, run=run, tag=tag: (lambda: "alias/%s:%s:%s:%s@%s" % (k, tag, what, run.exc_class, run.exc_phase)) if native else None
                env.ensure("C13:terminates#%s" % tag, run.status != "hang", ("C13",), sig("hang"))
                env.ensure("C13:no-internal-error#%s" % tag, run.status != "escape", ("C13",), sig("escape"))

    def run(self, env, cell):
        native = env.mode == "native"
        if "alias" in cell:
            return self.run_alias(env, cell, native)
        lb, mn = cell["label"], cell["mn"]
        for k, op in enumerate(OPERANDS):
            line = "%s %s %s\n" % (lb, mn, op)
            run = assemble(env, [" ORG $1000\n", "T NOP\n", line, " NOP\n"], want_listing=True, fs={})
            li = LABELS.index(lb)
            sig = lambda what, k=k, run=run: (lambda: "text:%s:%s:%s@%s:L%d:O%d" % (mn, what, run.exc_class, run.exc_phase, li, k)) if native else None
            # (one clause per input, so that the native replay of a failure reports THAT input and not the first failing one)
            env.ensure("C13:terminates#%d" % k, run.status != "hang", ("C13",), sig("hang"))
            env.ensure("C13:no-internal-error#%d" % k, run.status != "escape", ("C13",), sig("escape"))


LEMMAS = [AsmText()]
