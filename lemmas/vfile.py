"""
VirtualFile histories (C09): open / add / save / re-open sequences on the ghost filesystem, and container-kind
recognition of images the tool wrote itself (any size).  BOUNDED stand-in for the history quantifier: histories of
up to 4 additions with boundary data lengths and symbolic contents; the per-step contracts are the writer / reader
contracts of C14, C06, C07/C08.
"""
from specs import tape, diskbasic as db
from pyvc.filesh import Files, Raised
from pyvc.clih import READ_KEY, WRITE_KEY
from pyvc.objs import PyRaise

VF = "cocoasm.virtualfiles.virtual_file"
SF = "cocoasm.virtualfiles.source_file"


class VFileHistory:
    name = "vfile_history"
    props = ("C09", "C10", "C13")
    max_paths = 200

    def cells(self, tier):
        out = []
        seqs = {"cas": [[5, 300], [0, 5], [255, 256, 1], [510, 3, 255, 2]],
                "dsk": [[5, 300], [2299, 5], [4603, 10], [0, 5], [2304, 2294, 7],
                        # an odd number of granules in use, then files whose header + data (+ trailer) exceed one granule by 1..4
                        # bytes: their two granules are then not physically adjacent (33 -> 34, 35 -> 30, 31 -> 36 ...)
                        [100, 2296, 50], [100, 100, 100, 2297, 9], [100, 100, 100, 100, 100, 2295, 2298, 7]]}
        for kind in ("cas", "dsk"):
            for lens in seqs[kind] if tier == "quick" else seqs[kind] + [[1, 1, 1, 1], [2295, 2295], [765, 766]]:
                out.append({"id": "history/%s/%s" % (kind, ",".join(map(str, lens))), "k": "history", "kind": kind, "lens": lens,
                            "bounded": "%s history, additions of %s bytes with save/re-open after each" % (kind, lens)})
            out.append({"id": "history/%s/same-names" % kind, "k": "history", "kind": kind, "lens": [3, 4, 5, 6], "names": ["AA", "BB", "AA", "BB"],
                        "bounded": "%s history re-using file names" % kind})
            # files of every kind (binary, tokenised BASIC, ASCII BASIC, data): an image is rebuilt from what the reader returned
            # on every append, so a field the reader gets wrong is lost on the SECOND save
            out.append({"id": "history/%s/kinds" % kind, "k": "history", "kind": kind, "lens": [300, 40, 255, 10, 2],
                        "kinds": [(2, 0), (0, 0xFF), (2, 0), (1, 0xFF), (0, 0)], "bounded": "%s history with BASIC / ASCII / data files" % kind})
        for shape in ("cas-small", "cas-161280", "cas-big-zero", "cas-big-ff", "cas-big-mixed", "cas-big-ff-at-dir", "dsk-one", "dsk-empty"):
            out.append({"id": "sniff/%s" % shape, "k": "sniff", "shape": shape, "bounded": "one concrete image"})
        return out

    def run(self, env, cell):
        getattr(self, "k_" + cell["k"])(env, cell, Files(env), env.mode == "native")

    # one invocation of "open, add, save(append)" as the CLIs do it, on a ghost fs held in `store`
    def _session(self, env, F, store, path, kind, newfile, native):
        vft = F.get(F.cls(VF, "VirtualFileType"), "CASSETTE" if kind == "cas" else "DISK")
        sft = F.get(F.cls(SF, "SourceFileType"), "BINARY")
        if native:
            import os, tempfile, shutil
            work = os.path.join(os.path.dirname(os.path.dirname(os.path.abspath(__file__))), ".work")
            os.makedirs(work, exist_ok=True)
            tmpd = tempfile.mkdtemp(dir=work)
            full = os.path.join(tmpd, path)
            try:
                if path in store:
                    with open(full, "wb") as f:
                        f.write(bytes(store[path]))
                sf = F.new(SF, "SourceFile", full, file_type=sft)
                vf = F.new(VF, "VirtualFile", sf, vft)
                F.method(vf, "open_virtual_file")
                F.method(vf, "add_coco_file", newfile)
                F.method(vf, "save_virtual_file", append_mode=True)
                if os.path.exists(full):
                    with open(full, "rb") as f:
                        store[path] = list(f.read())
            finally:
                shutil.rmtree(tmpd, ignore_errors=True)
            return
        it = F.it
        it.fs = {k: list(v) for k, v in store.items()}
        old = it.call_hook

        def hook(interp, func, bound):
            if func.key == READ_KEY:
                p = bound["filename"]
                if p not in interp.fs:
                    raise PyRaise(interp.mk_exc("FileNotFoundError", p))
                return True, list(interp.fs[p])
            if func.key == WRITE_KEY:
                interp.fs[bound["filename"]] = list(interp.iterate(bound["buffer"]))
                return True, None
            return (old(interp, func, bound) if old else (False, None))
        it.call_hook = hook
        try:
            sf = F.new(SF, "SourceFile", path, file_type=sft)
            vf = F.new(VF, "VirtualFile", sf, vft)
            F.method(vf, "open_virtual_file")
            F.method(vf, "add_coco_file", newfile)
            F.method(vf, "save_virtual_file", append_mode=True)
        finally:
            it.call_hook = old
        store.clear()
        store.update({k: list(v) for k, v in it.fs.items()})

    def k_history(self, env, cell, F, native):
        kind, lens = cell["kind"], cell["lens"]
        path = "img." + kind
        store = {}
        wants = []
        sigp = "history/%s/%s" % (kind, ",".join(map(str, lens)))
        sig = lambda w: (lambda: "%s:%s" % (sigp, w)) if native else None
        for j, L in enumerate(lens):
            if L <= 16 or kind == "cas":
                data = env.hole_bytes("d%d" % j, L)
            else:
                # long disk files: concrete contents (a failing disk reader makes the tool scan the whole image with the
                # cassette reader, which forks on every symbolic byte); contents of long files are covered by disk_layout
                data = [(11 * i + 3 * j + (i >> 8)) % 256 for i in range(L)]
            name = cell["names"][j] if cell.get("names") else "FILE%d" % j
            load, exe = 0x1000 + j, 0x2000 + j
            ftype, dtype = cell["kinds"][j] if cell.get("kinds") else (2, 0)
            if ftype != 2 and kind == "dsk":
                load, exe = 0, 0                # a disk keeps addresses for binary files only
            f = F.coco_file(name, ftype, dtype, load, exe, list(data), extension="BIN")
            try:
                self._session(env, F, store, path, kind, f, native)
            except Raised as e:
                if e.cls == "Hang":
                    env.fail("C13:terminates", ("C13", "C09"), sig("step%d-hang" % j))
                    return
                env.fail("C09:addition-succeeds" if e.cls in ("VirtualFileValidationError", "FileExistsError") else "C13:no-internal-error",
                         ("C09",) if e.cls in ("VirtualFileValidationError", "FileExistsError") else ("C13", "C09"),
                         sig("step%d-raised:%s" % (j, e.cls)))
                return
            wants.append((name, ftype, load, exe, data, dtype))
            img = store.get(path)
            if img is None:
                env.fail("C09:history", ("C09",), sig("step%d-no-file" % j))
                return
            # structure bytes are concrete (lengths concrete); contents symbolic
            try:
                if kind == "cas":
                    got = [(x["name"].strip(), x["ftype"], x["load"], x["exec"], x["data"], x["dtype"]) for x in tape.parse_stream(img)]
                else:
                    got = [(x["name"].strip(), x["ftype"], x["load"] or 0, x["exec"] or 0, x["data"], x["ascii"]) for x in db.files(img)]
            except (tape.TapeFormatError, db.DiskFormatError) as e:
                import re
                env.fail("C09:history", ("C09",), sig("step%d-image-malformed:%s" % (j, re.sub(r"\d+", "N", str(e)))))
                return
            if len(got) != len(wants):
                env.fail("C09:history", ("C09",), sig("step%d-file-count=%d,want=%d" % (j, len(got), len(wants))))
                return
            ok = True
            for g, w in zip(got, wants):
                if g[0].upper() != w[0].upper() or g[1] != w[1] or len(g[4]) != len(w[4]) or g[5] != w[5]:
                    ok = False
                    break
                ok = ok & (g[2] == w[2]) & (g[3] == w[3])
                for x, y in zip(g[4], w[4]):
                    if x is not y:
                        ok = ok & (x == y)
            env.ensure("C09:history", ok, ("C09",), sig("step%d-earlier-file-changed" % j))

    def k_sniff(self, env, cell, F, native):
        shape = cell["shape"]
        if shape == "cas-small":
            img, kind = tape.tape_file("S", 2, 0, 1, 2, [1, 2, 3]), "cas"
        elif shape == "cas-161280":
            base = tape.tape_file("EXACT", 2, 0, 1, 2, [])
            one = tape.tape_file("EXACT", 2, 0, 1, 2, [7] * 1000)
            n = (161280 - len(base))
            # choose the data length so that the image is exactly the size of a disk image
            per255 = 261
            dl = 0
            while len(tape.tape_file("EXACT", 2, 0, 1, 2, [7] * dl)) < 161280:
                dl += 1 if len(tape.tape_file("EXACT", 2, 0, 1, 2, [7] * dl)) > 161270 else 250
            img, kind = tape.tape_file("EXACT", 2, 0, 1, 2, [7] * dl), "cas"
        elif shape == "cas-big-zero":
            img, kind = tape.tape_file("BIG", 2, 0, 1, 2, [0] * 170000), "cas"
        elif shape == "cas-big-ff":
            img, kind = tape.tape_file("BIG", 2, 0, 1, 2, [0xFF] * 170000), "cas"
        elif shape == "cas-big-mixed":
            img, kind = tape.tape_file("BIG", 2, 0, 1, 2, [(i * 7) % 256 for i in range(170000)]), "cas"
        elif shape == "cas-big-ff-at-dir":
            # a long tape whose byte at the offset of the first directory entry of a disk image ($FF = never used) is followed
            # by ordinary data where the later entries would be
            data = [0x41] * 170000
            data[76511] = 0xFF            # image offset 533 + 261 * (i // 255) + 4 + i % 255 == 78848
            img, kind = tape.tape_file("BIG", 2, 0, 1, 2, data), "cas"
            assert img[db.DIR_OFFSET] == 0xFF and img[db.DIR_OFFSET + 32] == 0x41
        elif shape == "dsk-one":
            img, kind = db.build([("D", "BIN", 2, 0, 1, 2, [1, 2, 3])]), "dsk"
        else:
            img, kind = db.build([]), "dsk"
        sig = lambda w: (lambda: "sniff/%s:%s" % (shape, w)) if native else None
        sft = F.get(F.cls(SF, "SourceFileType"), "BINARY")
        sf = F.new(SF, "SourceFile", "x", file_type=sft)
        F.method(sf, "set_buffer", list(img))
        vf = F.new(VF, "VirtualFile", sf)
        try:
            res = F.method(vf, "get_coco_files")
        except Raised as e:
            env.fail("C09:kind-recognised", ("C09", "C13"), sig("raised:%s" % e.cls))
            return
        files, vt = res[0], res[1]
        vname = F.get(vt, "name")
        env.ensure("C09:kind-recognised", vname == ("CASSETTE" if kind == "cas" else "DISK"), ("C09",), sig("recognised-as:%s" % vname))


LEMMAS = [VFileHistory()]
