"""
Cassette READER contracts, unbounded (C06): read_blocks, read_file, list_files on ANY well-formed tape stream.

The buffer is a z3 array of any length and content.  Well-formedness is stated with ghost functions (not with the
writer's output), so the contracts cover foreign streams: any leader / gap lengths (also between the blocks of one
file), any number of data blocks, each of any payload length 0..255 (short blocks anywhere), any number of files.

  WFblocks(A, n, p0, K, S, OFF, SD)                                       [ghost: K blocks, block j starts at S[j]]
     forall j < K :  PREV(j) <= S[j],  A[S[j]..] = 55 3C 01 LN(j) <payload> <cks> 55,  0 <= LN(j) <= 255,  END(j) <= n
                     bytes PREV(j) .. S[j]-1 are filler (00 or 55)
     EOF block   :   PREV(K) <= S[K],  A[S[K]..] = 55 3C FF ..,  S[K] + 6 <= n,  filler before it
     PREV(0) = p0,  PREV(j+1) = END(j) = S[j] + 4 + LN(j) + 2
     OFF[0] = 0, OFF[j+1] = OFF[j] + LN(j);   SD[OFF[j] + t] = A[S[j] + 4 + t]   (the concatenated payloads)
  (check-sum bytes are unconstrained: a superset of the well-formed streams.)

  read_blocks(p0)   returns (data, S[K] + 6) with len(data) = OFF[K] and data[t] = SD[t]; raises nothing
        outer `while True` cut with ghost iteration j: pointer == PREV(j), len(data) == OFF[j], data == SD on [0, OFF[j]);
        variant K - j; inner `for` cut: len(data) == OFF[j] + i, data == SD on [0, OFF[j] + i)
        skip_to_sequence through its contract (least match, proved in tape_reader_fns), instantiated at S[j]
  read_file(p)      header at the least H >= p (filler before it), fields from the name-file payload, data through
                    read_blocks' contract, pointer = end of the EOF block.  The empty-data file is the separate clause
                    `post:empty-file-is-returned` (refuted on the tree: known finding, `if not data: return None`).
  list_files()      fold of read_file over M files (ghost per-file positions), stops after the last one; files in order.

Natively the clauses are evaluated with an independent mini-parser of the format (no ghosts needed).
"""
import z3

from pyvc.filesh import Files, Raised
from pyvc.contracts import Verifier, LoopSpec, CallSpec, Forall, prove_forall
from pyvc.lists import ArrList, AbsList
from pyvc.sym import SymInt, SStr, mk, mks, cur, branch, And, Or, Not, Implies, Ite
from pyvc import sym

CAS = "cocoasm.virtualfiles.cassette"
KEY = "cocoasm/virtualfiles/cassette.py::CassetteFile."
INTERNAL = "contract over a stream of any length (ghost block positions)"
IA = z3.ArraySort(z3.IntSort(), z3.IntSort())


def sel(a, i):
    return mks(z3.Select(a, sym._z(i)))


# ------------------------------------------------------------------------------------------- independent mini-parser
class NotWellFormed(Exception):
    pass


def spec_blocks(buf, p):
    """(payload bytes, end pointer, block lengths) of the data blocks + EOF block that start (after filler) at p"""
    data, lens = [], []
    n = len(buf)
    while True:
        q = p
        while q < n and buf[q] in (0x00, 0x55) and not (buf[q] == 0x55 and q + 1 < n and buf[q + 1] == 0x3C):
            q += 1
        if q + 3 > n or buf[q] != 0x55 or buf[q + 1] != 0x3C:
            raise NotWellFormed("no block sync at %d" % q)
        bt = buf[q + 2]
        if bt == 0xFF:
            if q + 6 > n:
                raise NotWellFormed("short EOF block")
            return data, q + 6, lens
        if bt != 0x01:
            raise NotWellFormed("block type %d" % bt)
        if q + 4 > n:
            raise NotWellFormed("short block")
        ln = buf[q + 3]
        if q + 4 + ln + 2 > n:
            raise NotWellFormed("short block")
        data += buf[q + 4:q + 4 + ln]
        lens.append(ln)
        p = q + 4 + ln + 2


def spec_file(buf, p):
    """the next file at or after p: None when only filler is left"""
    n = len(buf)
    q = p
    while q < n and buf[q] in (0x00, 0x55) and not (buf[q] == 0x55 and q + 1 < n and buf[q + 1] == 0x3C):
        q += 1
    if q >= n:
        return None
    if q + 21 > n or buf[q:q + 3] != [0x55, 0x3C, 0x00]:
        raise NotWellFormed("no name-file block at %d" % q)
    pay = buf[q + 4:q + 19]
    if any(not (32 <= c <= 126) for c in pay[:8]):
        raise NotWellFormed("name")
    data, end, lens = spec_blocks(buf, q + 21)
    return {"name": "".join(chr(c) for c in pay[:8]), "type": pay[8], "dtype": pay[9], "gaps": pay[10],
            "load": pay[11] * 256 + pay[12], "exec": pay[13] * 256 + pay[14], "data": data, "end": end, "lens": lens}


def block(bt, payload):
    return [0x55, 0x3C, bt, len(payload)] + list(payload) + [(bt + len(payload) + sum(payload)) % 256, 0x55]


def mk_stream(files):
    """files: [(gap, leader, name, ftype, dtype, load, exe, [(filler, payload), ...])]"""
    out = []
    for gap, leader, name, ft, dt, load, exe, blocks in files:
        pay = [ord(c) for c in name.ljust(8)[:8]] + [ft, dt, 0, load >> 8, load & 255, exe >> 8, exe & 255]
        out += [0] * gap + [0x55] * leader + block(0, pay)
        for filler, payload in blocks:
            out += list(filler) + block(1, payload)
        out += [0x55, 0x3C, 0xFF, 0x00, 0xFF, 0x55]
    return out


PROBE_STREAMS = [
    [(128, 128, "A", 2, 0, 0x0E00, 0x0E10, [([0] * 128 + [0x55] * 128, list(range(255))), ([], [1, 2, 3])])],
    [(0, 1, "SHORTMID", 2, 0, 1, 2, [([0x55], list(range(10))), ([], [7] * 255), ([0, 0x55], [1, 2, 3])])],
    [(0, 1, "TINY", 0, 0xFF, 0, 0, [([], [1]), ([], [2]), ([], [3])])],
    [(0, 2, "A", 2, 0, 0x553C, 0x3C00, [([0x55, 0x55], [0x55, 0x3C, 0xFF, 0, 0xFF, 0x55])]),
     (1, 3, "B", 0, 0, 0, 0, [([], [0x55, 0x3C, 0x00] * 20), ([0x55] * 9, [])])],
    [(3, 3, "E128", 1, 0, 0, 0, [([], [5] * 128), ([0] * 4 + [0x55] * 4, [6] * 128), ([], [7] * 128), ([], [8] * 128)])],
    [(0, 1, "ONE", 2, 0, 0x1234, 0x5678, [([], [9])])],
    [(0, 1, "EMPTY", 2, 0, 0x1234, 0x5678, [])],
    [(4, 4, "EMPTYBLK", 0, 0, 0, 0, [([], [])])],
    [(2, 2, "F1", 2, 0, 1, 2, [([], [1, 2])]), (2, 2, "F2", 2, 0, 3, 4, [([], [3] * 255), ([], [4] * 255)]), (0, 1, "F3", 0, 0, 0, 0, [([], [5])])],
]


class TapeReaderContracts:
    name = "tape_reader_contracts"
    props = ("C06", "C13")
    max_paths = 400

    def cells(self, tier):
        return [{"id": "fn/read_blocks", "fn": "read_blocks"}, {"id": "fn/read_file", "fn": "read_file"},
                {"id": "fn/read_file/no-more-files", "fn": "read_file_none"}, {"id": "fn/list_files", "fn": "list_files"}]

    def probes(self, cell):
        for s in PROBE_STREAMS:
            buf = mk_stream(s)
            if cell["fn"] == "read_file_none":
                yield {"buf": buf + [0] * 7 + [0x55] * 9, "p0": len(buf)}
                yield {"buf": [0x55, 0x55], "p0": 0}
                yield {"buf": [], "p0": 0}
            elif cell["fn"] == "read_blocks":
                # start right after the name-file block of the first file
                h = next(i for i in range(len(buf)) if buf[i:i + 3] == [0x55, 0x3C, 0x00])
                yield {"buf": buf, "p0": h + 21}
            else:
                yield {"buf": buf, "p0": 0}

    def run(self, env, cell):
        if env.mode == "native":
            return getattr(self, "n_" + cell["fn"])(env, cell, Files(env))
        return getattr(self, "s_" + cell["fn"])(env, cell, Files(env))

    # =========================================================================================== native oracles
    def n_read_blocks(self, env, cell, F):
        buf = list(env.holes.get("buf", []))
        p0 = env.holes.get("p0", 0)
        try:
            want, end, lens = spec_blocks(buf, p0)
        except NotWellFormed:
            raise sym.PathAbort()
        c = F.new(CAS, "CassetteFile", buffer=list(buf))
        key = KEY + "read_blocks"
        sig = "blocks=%s" % ",".join("short" if x < 255 else "255" for x in lens[:6])
        try:
            r = F.method(c, "read_blocks", p0)
        except Raised as e:
            env.fail(key + "::raises:none-on-well-formed", ("C06", "C13"), lambda: "%s:raised:%s" % (sig, e.cls))
            return
        env.ensure(key + "::post:data", list(r[0]) == want, ("C06",), lambda: "%s:data-length=%d,want=%d" % (sig, len(r[0]), len(want)))
        env.ensure(key + "::post:pointer", r[1] == end, ("C06",), lambda: "%s:pointer" % sig)

    def _n_cmp(self, F, got, w):
        if got is None:
            return "not-listed"
        if F.get(got, "name") != w["name"]:
            return "name"
        if (F.intval(F.get(got, "type")), F.intval(F.get(got, "data_type")), F.intval(F.get(got, "load_addr")),
                F.intval(F.get(got, "exec_addr"))) != (w["type"], w["dtype"], w["load"], w["exec"]):
            return "fields"
        if list(F.get(got, "data")) != w["data"]:
            return "data-length=%d,want=%d" % (len(F.get(got, "data")), len(w["data"]))
        return None

    def n_read_file(self, env, cell, F):
        buf = list(env.holes.get("buf", []))
        p0 = env.holes.get("p0", 0)
        try:
            w = spec_file(buf, p0)
        except NotWellFormed:
            raise sym.PathAbort()
        if w is None:
            raise sym.PathAbort()
        c = F.new(CAS, "CassetteFile", buffer=list(buf))
        key = KEY + "read_file"
        sig = "blocks=%s" % ",".join("short" if x < 255 else "255" for x in w["lens"][:6])
        try:
            r = F.method(c, "read_file", p0)
        except Raised as e:
            env.fail(key + "::raises:none-on-well-formed", ("C06", "C13"), lambda: "%s:raised:%s" % (sig, e.cls))
            return
        if not w["data"]:
            env.ensure(key + "::post:empty-file-is-returned", r[0] is not None, ("C06",), lambda: "empty-data-file:not-listed")
            return
        why = self._n_cmp(F, r[0], w)
        env.ensure(key + "::post:file", why is None, ("C06",), lambda: "%s:%s" % (sig, why))
        env.ensure(key + "::post:pointer", r[1] == w["end"], ("C06",), lambda: "%s:pointer" % sig)

    def n_read_file_none(self, env, cell, F):
        buf = list(env.holes.get("buf", []))
        p0 = env.holes.get("p0", 0)
        if any(b not in (0x00, 0x55) for b in buf[p0:]):
            raise sym.PathAbort()
        c = F.new(CAS, "CassetteFile", buffer=list(buf)) if buf else F.new(CAS, "CassetteFile")
        key = KEY + "read_file"
        try:
            r = F.method(c, "read_file", p0)
        except Raised as e:
            env.fail(key + "::raises:none-after-last-file", ("C06", "C13"), lambda: "raised:%s" % e.cls)
            return
        env.ensure(key + "::post:no-file-after-last", r[0] is None, ("C06",), lambda: "file-invented")

    def n_list_files(self, env, cell, F):
        buf = list(env.holes.get("buf", []))
        want = []
        p = 0
        try:
            while True:
                w = spec_file(buf, p)
                if w is None:
                    break
                want.append(w)
                p = w["end"]
        except NotWellFormed:
            raise sym.PathAbort()
        if any(not w["data"] for w in want):
            raise sym.PathAbort()            # the empty-data file is read_file's own clause
        c = F.new(CAS, "CassetteFile", buffer=list(buf))
        key = KEY + "list_files"
        try:
            got = list(F.method(c, "list_files"))
        except Raised as e:
            env.fail(key + "::raises:none-on-well-formed", ("C06", "C13"), lambda: "raised:%s" % e.cls)
            return
        env.ensure(key + "::post:count", len(got) == len(want), ("C06",), lambda: "file-count=%d,want=%d" % (len(got), len(want)))
        for j, (g, w) in enumerate(zip(got, want)):
            why = self._n_cmp(F, g, w)
            env.ensure(key + "::post:files-in-order", why is None, ("C06",), lambda: "file@%d:%s" % (j, why))

    # =========================================================================================== symbolic side
    def _setup(self, env, F):
        p = cur()
        n = env.hole_int("n", 0, 400000)
        A = z3.Array("h_bufarr", z3.IntSort(), z3.IntSort())
        buf = ArrList(A, n)
        c = F.new(CAS, "CassetteFile")
        F.set(c, "buffer", buf)
        env.hole_terms["buf"] = ("arr", A, n.e if isinstance(n, SymInt) else z3.IntVal(n))
        return p, n, A, buf, c

    class WF:
        """the ghost description of K data blocks + EOF that follow position p0 (see module docstring)"""

        def __init__(self, A, n, p0, K, tag="", S=None, OFF=None, SD=None):
            """S, OFF, SD: ghost functions (callables); by default uninterpreted arrays (the reader's contracts quantify over
            them), the writer bridge passes the closed forms of the tool's own layout"""
            self.A, self.n, self.p0, self.K = A, n, p0, K
            self.S = z3.Array("S" + tag, z3.IntSort(), z3.IntSort())
            self.OFF = z3.Array("OFF" + tag, z3.IntSort(), z3.IntSort())
            self.SD = z3.Array("SD" + tag, z3.IntSort(), z3.IntSort())
            self.Sf = S or (lambda j: sel(self.S, j))
            self.OFFf = OFF or (lambda j: sel(self.OFF, j))
            self.SDf = SD or (lambda t: sel(self.SD, t))

        def LN(self, j):
            return sel(self.A, self.Sf(j) + 3)

        def END(self, j):
            return self.Sf(j) + 4 + self.LN(j) + 2

        def PREV(self, j):
            return Ite(j == 0, self.p0, self.END(j - 1))

        def blockhdr(self, j):
            """instance of the precondition at block j (0 <= j <= K)"""
            A = self.A
            s = self.Sf(j)
            data = And(sel(A, s) == 0x55, sel(A, s + 1) == 0x3C, sel(A, s + 2) == 0x01, self.LN(j) >= 0, self.LN(j) <= 255,
                       self.PREV(j) <= s, self.END(j) <= self.n, self.OFFf(j + 1) == self.OFFf(j) + self.LN(j))
            eof = And(sel(A, s) == 0x55, sel(A, s + 1) == 0x3C, sel(A, s + 2) == 0xFF, self.PREV(j) <= s, s + 6 <= self.n)
            return And(Implies(And(j >= 0, j < self.K), data), Implies(j == self.K, eof), Implies(And(j >= 0, j <= self.K), s >= 0))

        def base(self):
            return And(self.K >= 0, self.p0 >= 0, self.OFFf(0) == 0)

        def filler(self, j, q):
            """instance (j, q): a byte between the previous block and block j is 00 or 55"""
            return Implies(And(j >= 0, j <= self.K, self.PREV(j) <= q, q < self.Sf(j)), Or(sel(self.A, q) == 0x00, sel(self.A, q) == 0x55))

        def payload(self, j, t):
            """instance (j, t): SD is the concatenation of the payloads"""
            return Implies(And(j >= 0, j < self.K, t >= 0, t < self.LN(j)),
                           self.SDf(self.OFFf(j) + t) == sel(self.A, self.Sf(j) + 4 + t))

    def _skip_contract(self, env, v, p, st):
        """skip_to_sequence through the contract proved in tape_reader_fns: least match at or after start, or -1 iff none"""
        def apply_skip(v_, interp, func, args):
            seq = list(args["sequence"])
            start = args.get("start", 0)
            b = interp.getattr_(args["self"], "buffer")
            A, n = b.arr, b.len
            k = len(seq)

            def match(q):
                return And(q + k <= n, *[sel(A, q + j) == seq[j] for j in range(k)])
            p.fresh += 1
            r = SymInt(z3.Int("skip!%d" % p.fresh))
            least = Forall("least", start, r, lambda q: Not(match(q)))
            none = Forall("least", start, start + n + 1, lambda q: Not(match(q)))
            # the contract's post-condition, with the named instances of its quantified parts (at the position the stream
            # description expects) and of the stream's filler pre-condition (at the byte after the returned position)
            found_case = And(r >= start, match(r), *([least.instance(t) for t in st["expect"]()] + list(st["at_result"](r))))
            none_case = And(r == -1, *[none.instance(t) for t in st["expect"]()])
            p.assume(Or(found_case, none_case))
            if p.decide((r == -1).e):
                v.facts.append(none)
                return -1
            v.facts.append(least)
            return r
        v.contract(KEY + "skip_to_sequence", CallSpec(apply_skip))

    # ------------------------------------------------------------------------------------------- read_blocks
    def s_read_blocks(self, env, cell, F):
        p, n, A, buf, c = self._setup(env, F)
        p0 = env.hole_int("p0", 0, 400000)
        K = env.hole_int("K", 0, 400000)
        wf = self.WF(A, n, p0, K)
        p.assume(wf.base())
        key = KEY + "read_blocks"
        v = Verifier(env, F.it)
        st = {"j": 0}
        st["expect"] = lambda: [sel(wf.S, st["j"])]
        st["at_result"] = lambda r: [wf.filler(st["j"], r + 1)]
        self._skip_contract(env, v, p, st)
        self._read_blocks_loops(env, v, p, wf, st, key)
        with v.installed():
            try:
                r = F.method(c, "read_blocks", p0)
            except Raised as e:
                env.fail(key + "::raises:none-on-well-formed", ("C06", "C13"), internal=INTERNAL)
                return
        data, ptr = r[0], r[1]
        env.ensure(key + "::post:pointer", ptr == sel(wf.S, K) + 6, ("C06",), internal=INTERNAL)
        dl = data.length() if isinstance(data, ArrList) else len(data)
        env.ensure(key + "::post:data-length", dl == sel(wf.OFF, K), ("C06",), internal=INTERNAL)
        if isinstance(data, ArrList):
            D = data.arr
            prove_forall(env, p, key + "::post:data", Forall("data", 0, sel(wf.OFF, K), lambda t: sel(D, t) == sel(wf.SD, t)),
                         [f for f in v.facts if f.name == "data"], ("C06",), internal=INTERNAL)

    def _read_blocks_loops(self, env, v, p, wf, st, key):
        K = wf.K

        def dlen(d):
            return d.length() if isinstance(d, ArrList) else len(d)

        def darr(d):
            return d.arr if isinstance(d, ArrList) else z3.K(z3.IntSort(), z3.IntVal(0))

        # ---- outer while loop: ghost iteration j
        def init(ctx):
            st["j"] = 0
            return {}

        def havoc(ctx):
            p.fresh += 1
            k = p.fresh
            j = SymInt(z3.Int("j!%d" % k))
            st["j"] = j
            ctx.locals["pointer"] = SymInt(z3.Int("ptr!%d" % k))
            ctx.locals["data"] = ArrList(z3.Array("D!%d" % k, z3.IntSort(), z3.IntSort()), SymInt(z3.Int("dl!%d" % k)))
            return {}

        def index(ctx):
            return st["j"]

        def inv(ctx, j, g):
            d = ctx.locals["data"]
            D = darr(d)
            return [("block-index", And(j >= 0, j <= K)),
                    ("pointer", ctx.locals["pointer"] == wf.PREV(j)),
                    ("data-length", dlen(d) == sel(wf.OFF, j)),
                    Forall("data", 0, sel(wf.OFF, j), lambda t, D=D: sel(D, t) == sel(wf.SD, t))]

        def assume(ctx, j):
            # instances of the (universally quantified) precondition at the current and the previous block
            return [wf.blockhdr(j), wf.blockhdr(j - 1), wf.blockhdr(j + 1)]

        def step(ctx, j, g):
            st["j"] = j + 1
            return {}

        def hyps(ctx, j, q):
            # facts established by the inner loop on this path
            return [f.instance(q) for f in v.facts if f.name == "data"]
        v.loop(key, 0, LoopSpec(("C06",), init, havoc, inv, step, index=index, variant=lambda ctx: K - st["j"], assume=assume, hyps=hyps))

        # ---- inner for loop over the payload of block j
        def init2(ctx):
            st["D0"] = darr(ctx.locals["data"])
            return {}

        def havoc2(ctx):
            p.fresh += 1
            k = p.fresh
            ctx.locals["data"] = ArrList(z3.Array("Di!%d" % k, z3.IntSort(), z3.IntSort()), SymInt(z3.Int("dli!%d" % k)))
            return {}

        def inv2(ctx, i, g):
            j = st["j"]
            d = ctx.locals["data"]
            D = darr(d)
            return [("data-length", dlen(d) == sel(wf.OFF, j) + i),
                    Forall("data", 0, sel(wf.OFF, j) + i, lambda t, D=D: sel(D, t) == sel(wf.SD, t))]

        def step2(ctx, i, g):
            return {}

        def hyps2(ctx, i, q):
            j = st["j"]
            return [wf.payload(j, q - sel(wf.OFF, j))] + [f.instance(q) for f in v.facts if f.name == "data"]
        v.loop(key, 1, LoopSpec(("C06",), init2, havoc2, inv2, step2, hyps=hyps2))


    # ------------------------------------------------------------------------------------------- read_file
    @staticmethod
    def rf_ground(A, n, p0, H, wf):
        """read_file's pre-condition, ground part: the name-file block at H (first 55 3C 00 at or after p0), printable name bytes,
        byte-valued fields, a non-negative total length"""
        out = [p0 <= H, H + 21 <= n, sel(A, H) == 0x55, sel(A, H + 1) == 0x3C, sel(A, H + 2) == 0x00]
        for k in range(8):
            out.append(And(sel(A, H + 4 + k) >= 32, sel(A, H + 4 + k) <= 126))
        for k in range(8, 15):
            out.append(And(sel(A, H + 4 + k) >= 0, sel(A, H + 4 + k) <= 255))
        out.append(wf.OFFf(wf.K) >= 0)         # a length (sum of the block lengths)
        return And(*out)

    @staticmethod
    def rf_filler(A, p0, H, q):
        """read_file's pre-condition, instance q: a byte between the pointer and the name-file block is 00 or 55"""
        return Implies(And(p0 <= q, q < H), Or(sel(A, q) == 0x00, sel(A, q) == 0x55))

    def s_read_file(self, env, cell, F):
        p, n, A, buf, c = self._setup(env, F)
        p0 = env.hole_int("p0", 0, 400000)
        H = env.hole_int("H", 0, 400000)
        K = env.hole_int("K", 0, 400000)
        wf = self.WF(A, n, H + 21, K)
        key = KEY + "read_file"
        p.assume(wf.base())
        p.assume(self.rf_ground(A, n, p0, H, wf))
        v = Verifier(env, F.it)
        st = {}
        st["expect"] = lambda: [H]
        st["at_result"] = lambda r: [self.rf_filler(A, p0, H, r + 1)]
        self._skip_contract(env, v, p, st)

        def apply_rb(v_, interp, func, args):
            env.ensure(KEY + "read_blocks::pre@call:pointer-after-name-file-block", args["pointer"] == H + 21, ("C06",), internal=INTERNAL)
            st["rb"] = True
            return (ArrList(wf.SD, sel(wf.OFF, K)), sel(wf.S, K) + 6)
        v.contract(KEY + "read_blocks", CallSpec(apply_rb))
        with v.installed():
            try:
                r = F.method(c, "read_file", p0)
            except Raised as e:
                env.fail(key + "::raises:none-on-well-formed", ("C06", "C13"), internal=INTERNAL)
                return
        f, ptr = r[0], r[1]
        if branch(sel(wf.OFF, K) == 0):
            env.ensure(key + "::post:empty-file-is-returned", f is not None, ("C06",), internal=INTERNAL)
            return
        if f is None:
            env.fail(key + "::post:file", ("C06",), internal=INTERNAL)
            return
        env.ensure(key + "::post:pointer", ptr == sel(wf.S, K) + 6, ("C06",), internal=INTERNAL)
        chars = SStr.of(F.get(f, "name")).chars
        ok = len(chars) == 8
        if ok:
            for k, ch in enumerate(chars):
                ok = ok & ((ch if isinstance(ch, int) else mk(ch.code)) == sel(A, H + 4 + k))
        env.ensure(key + "::post:file:name", ok, ("C06",), internal=INTERNAL)
        flds = And(F.intval(F.get(f, "type")) == sel(A, H + 12), F.intval(F.get(f, "data_type")) == sel(A, H + 13),
                   F.intval(F.get(f, "load_addr")) == sel(A, H + 15) * 256 + sel(A, H + 16),
                   F.intval(F.get(f, "exec_addr")) == sel(A, H + 17) * 256 + sel(A, H + 18))
        env.ensure(key + "::post:file:fields", flds, ("C06",), internal=INTERNAL)
        d = F.get(f, "data")
        okd = isinstance(d, ArrList) and d.arr is wf.SD and isinstance(d.off, int) and d.off == 0
        env.ensure(key + "::post:file:data", And(okd, d.length() == sel(wf.OFF, K)) if okd else False, ("C06",), internal=INTERNAL)

    def s_read_file_none(self, env, cell, F):
        """after the last file only filler is left: read_file reports no file"""
        p, n, A, buf, c = self._setup(env, F)
        p0 = env.hole_int("p0", 0, 400000)
        key = KEY + "read_file"
        v = Verifier(env, F.it)
        st = {"expect": lambda: [], "at_result": lambda r: [Implies(And(p0 <= r + 1, r + 1 < n), Or(sel(A, r + 1) == 0x00, sel(A, r + 1) == 0x55))]}
        self._skip_contract(env, v, p, st)
        with v.installed():
            try:
                r = F.method(c, "read_file", p0)
            except Raised as e:
                env.fail(key + "::raises:none-after-last-file", ("C06", "C13"), internal=INTERNAL)
                return
        env.ensure(key + "::post:no-file-after-last", r[0] is None, ("C06",), internal=INTERNAL)

    # ------------------------------------------------------------------------------------------- list_files
    def s_list_files(self, env, cell, F):
        """fold of read_file (through the contract proved by the two cells above) over M files at ghost positions"""
        p, n, A, buf, c = self._setup(env, F)
        M = env.hole_int("M", 0, 400000)
        FE = z3.Array("FE", z3.IntSort(), z3.IntSort())            # FE[m]: end of file m (after its EOF block)
        key = KEY + "list_files"

        def PREVF(m):
            return Ite(m == 0, 0, sel(FE, m - 1))
        ghost_files = {}
        v = Verifier(env, F.it)
        st = {"m": 0}

        def apply_rf(v_, interp, func, args):
            m = st["m"]
            env.ensure(KEY + "read_file::pre@call:pointer-at-end-of-previous-file", args["pointer"] == PREVF(m), ("C06",), internal=INTERNAL)
            if branch(m < M):
                # file m is well-formed and not empty (pre-condition of list_files): read_file's contract gives its CoCoFile
                obj = F.coco_file("GHOST", 0, 0, 0, 0, [])
                ghost_files[id(obj)] = m
                st["last"] = obj
                return (obj, sel(FE, m))
            return (None, -1)
        v.contract(KEY + "read_file", CallSpec(apply_rf))

        def on_append(lst, x):
            m = ghost_files.get(id(x))
            env.ensure(key + "::loop0::append-is-file-m", (m is not None) and (m == lst.len), ("C06",), internal=INTERNAL)

        def init(ctx):
            st["m"] = 0
            return {}

        def havoc(ctx):
            p.fresh += 1
            m = SymInt(z3.Int("m!%d" % p.fresh))
            st["m"] = m
            ctx.locals["pointer"] = SymInt(z3.Int("fptr!%d" % p.fresh))
            al = AbsList(m, lambda idx: None)
            al.on_append = on_append
            ctx.locals["files"] = al
            return {}

        def inv(ctx, m, g):
            fl = ctx.locals["files"]
            ln = fl.length() if isinstance(fl, AbsList) else len(fl)
            return [("file-index", And(m >= 0, m <= M)), ("pointer", ctx.locals["pointer"] == PREVF(m)), ("files-so-far", ln == m)]

        def step(ctx, m, g):
            st["m"] = m + 1
            return {}
        v.loop(key, 0, LoopSpec(("C06",), init, havoc, inv, step, index=lambda ctx: st["m"], variant=lambda ctx: M - st["m"]))
        with v.installed():
            try:
                r = F.method(c, "list_files")
            except Raised as e:
                env.fail(key + "::raises:none-on-well-formed", ("C06", "C13"), internal=INTERNAL)
                return
        ln = r.length() if isinstance(r, AbsList) else len(r)
        env.ensure(key + "::post:count", ln == M, ("C06",), internal=INTERNAL)


LEMMAS = [TapeReaderContracts()]
