"""
Data directives (C05, with C04 for symbol elements, C02 size agreement, C13 escapes).
FCB / FDB value lists with symbolic digits, FCC strings with symbolic characters, RMB n,
and the directives that must emit nothing.
"""
from pyvc.asmh import assemble
from lemmas.common import literal
from lemmas.asm_forms import vclass, vsplit

PRINTABLE = [(32, 126)]


def product_split(per_elem, limit=130):
    """input classes of several symbolic values: the full product of the per-value classes while it is small, otherwise the
    classes of each value on its own"""
    per_elem = [p for p in per_elem if p]
    if not per_elem:
        return None
    n = 1
    for p in per_elem:
        n *= len(p)
    if n <= limit:
        out = [("", True)]
        for p in per_elem:
            out = [(a + "," + lab, (ca & c) if ca is not True else c) for a, ca in out for lab, c in p]
        return out
    return [x for p in per_elem for x in p]


def tc(v, width):
    """two's complement of v at `width` bytes as unsigned value (v in range)"""
    mod = 256 ** width
    return v % mod


class AsmData:
    name = "asm_data"
    props = ("C05", "C02", "C04", "C13", "C17")

    def cells(self, tier):
        out = []
        one = ["dec1", "dec2", "dec3", "dec5", "hex1", "hex2", "hex3", "hex4", "bin8", "bin16", "chr", "neg1", "neg3", "neg5"]
        few = ["dec3", "hex2", "neg3", "hex4"]
        for d in ("FCB", "FDB"):
            for sp in one:
                out.append({"id": "%s/1/%s" % (d, sp), "kind": "list", "dir": d, "spell": [sp]})
                out.append({"id": "%s/1/%s/equ" % (d, sp), "kind": "list", "dir": d, "spell": [sp], "via": "equ"})
            for a in few:
                for b in few:
                    out.append({"id": "%s/2/%s,%s" % (d, a, b), "kind": "list", "dir": d, "spell": [a, b]})
            ks = (3, 4) if tier == "thorough" else (3,)
            for k in ks:
                for sp in (few if tier == "thorough" else ["dec3", "neg3"]):
                    out.append({"id": "%s/%d/%s" % (d, k, sp), "kind": "list", "dir": d, "spell": [sp] * k,
                                "bounded": "list length %d" % k if k > 3 else None})
            # character literals, binary and short spellings inside lists (the list parser has its own path for every element)
            for combo in (["chr", "chr"], ["chr", "hex2"], ["dec1", "chr"], ["bin8", "hex1"], ["chr", "chr", "chr"]):
                out.append({"id": "%s/%d/%s" % (d, len(combo), ",".join(combo)), "kind": "list", "dir": d, "spell": combo})
            out.append({"id": "%s/2/equ,lit" % d, "kind": "list", "dir": d, "spell": ["dec3", "dec3"], "via": "equ-first"})
            out.append({"id": "%s/64/concrete" % d, "kind": "concrete-list", "dir": d, "bounded": "one concrete list of 64 values"})
            out.append({"id": "%s/8/one-symbolic" % d, "kind": "list8", "dir": d, "bounded": "list of 8 values, one symbolic element at each position"})
        for sp in ("dec1", "dec3", "dec5", "hex2", "hex4"):
            out.append({"id": "RMB/size/%s" % sp, "kind": "rmb-size", "spell": sp})
        ns = [0, 1, 2, 3, 255, 256, 257, 1000, 4096, 65535] if tier == "thorough" else [0, 1, 2, 255, 256, 1000]
        for n in ns:
            out.append({"id": "RMB/emit/%d" % n, "kind": "rmb-emit", "n": n, "bounded": "concrete n=%d" % n})
        maxlen = 4 if tier == "thorough" else 3
        for delim in ('"', "/", "'"):
            for L in range(0, maxlen + 1):
                out.append({"id": "FCC/%s/len%d" % ({'"': "dq", "/": "slash", "'": "sq"}[delim], L), "kind": "fcc", "delim": delim,
                            "len": L, "bounded": "string length %d, symbolic printable characters" % L})
            out.append({"id": "FCC/%s/comment" % {'"': "dq", "/": "slash", "'": "sq"}[delim], "kind": "fcc-comment", "delim": delim,
                        "bounded": "2 symbolic characters + trailing comment"})
            out.append({"id": "FCC/%s/comment-with-delimiters" % {'"': "dq", "/": "slash", "'": "sq"}[delim], "kind": "fcc-comment", "delim": delim,
                        "comment": "  ; don't \"quote\" 5/8 of it", "bounded": "2 symbolic characters + trailing comment holding every delimiter"})
        for i in range(len(FCC_STRINGS)):
            out.append({"id": "FCC/concrete/%d" % i, "kind": "fcc-concrete", "i": i, "bounded": "one concrete string"})
        # every delimiter choice: each punctuation character of printable ASCII as the delimiter, a few bodies each
        for code in range(33, 127):
            if not chr(code).isalnum():
                out.append({"id": "FCC/delim/%d" % code, "kind": "fcc-delim", "code": code, "bounded": "delimiter %r, 6 bodies" % chr(code)})
        for k in ("EQU", "ORG", "SETDP", "NAM", "END", "END-op", "INCLUDE", "SET"):
            out.append({"id": "silent/%s" % k, "kind": "silent", "dir": k})
        for d in ("FCB", "FDB", "FCC", "RMB", "ORG", "EQU"):
            out.append({"id": "empty/%s" % d, "kind": "empty", "dir": d})
        return out

    # ------------------------------------------------------------------
    def run(self, env, cell):
        k = cell["kind"]
        native = env.mode == "native"
        getattr(self, "k_" + k.replace("-", "_"))(env, cell, native)

    def _common(self, env, run, sig, sp=None):
        if run.status == "hang":
            env.fail("C13:terminates", ("C13",), sig("hang"), split=sp)
            return False
        if run.status == "escape":
            env.fail("C13:no-internal-error", ("C13",), sig("escape:%s" % run.exc_class), split=sp)
            return False
        env.ensure("C13:no-internal-error", True, ("C13",))
        return True

    def k_list(self, env, cell, native):
        d = cell["dir"]
        width = 1 if d == "FCB" else 2
        lo, hi = (-128, 255) if width == 1 else (-32768, 65535)
        lines = []
        vals = []
        texts = []
        for i, sp in enumerate(cell["spell"]):
            txt, v = literal(env, sp, tag="e%d" % i)
            via = cell.get("via")
            if via == "equ" or (via == "equ-first" and i == 0):
                lines.append(env.text("V%d EQU " % i, txt, "\n"))
                txt = ["V%d" % i]
            vals.append(v)
            texts.append(txt)
        parts = []
        for i, t in enumerate(texts):
            if i:
                parts.append(",")
            parts.extend(t)
        lines.append(env.text(" ", d, " ", parts, "\n"))
        env.info["lines"] = lines
        run = assemble(env, lines)
        env.info["run"] = repr(run)

        def sig(what):
            return (lambda: "%s/%d%s:%s:vals=%s" % (d, len(vals), "/" + cell["via"] if cell.get("via") else "", what,
                                                    ",".join(vclass(v) for v in vals))) if native else None
        sp = product_split([vsplit(v) for v in vals])
        if not self._common(env, run, sig, sp):
            return
        fits = True
        for v in vals:
            fits = fits & ((v >= lo) & (v <= hi)) if not isinstance(v, int) else (fits and lo <= v <= hi)
        fits = bool(fits)
        tags = ("C05", "C04") if cell.get("via") else ("C05",)
        if run.status == "diag":
            if fits:
                env.fail("C05:accepted", tags, sig("rejected:%s" % run.exc_class), split=sp)
            else:
                env.ensure("C05:rejects-unfit", True, ("C05",))
            return
        st = run.stmts[-1]
        if not fits:
            def how():
                # root cause feature: does the statement occupy more bytes than the list has elements (unfit elements are rendered
                # with all their hex digits: FCB 1,256 -> 01 01 00), or exactly as many (the value is cut to the width)
                w = 1 if d == "FCB" else 2
                e = len(st.bytes)
                return "truncated" if e == w * len(vals) else "longer" if e > w * len(vals) else "shorter"
            env.fail("C05:rejects-unfit", ("C05",), sig("accepted-unfit:%s:emitted=%d" % (how() if native else "-", len(st.bytes))), split=sp)
            return
        env.ensure("C02:size", st.size == len(st.bytes), ("C02",), sig("size=%s,len=%d" % (st.size, len(st.bytes))), split=sp)
        if len(st.bytes) != width * len(vals):
            env.fail("C05:bytes", tags, sig("count=%d,want=%d" % (len(st.bytes), width * len(vals))), split=sp)
            return
        ok = True
        for i, v in enumerate(vals):
            got = st.bytes[i] if width == 1 else st.bytes[2 * i] * 256 + st.bytes[2 * i + 1]
            ok = ok & (got == tc(v, width))
        env.ensure("C05:bytes", ok, tags, sig("value-mismatch"), split=sp)

    def k_list8(self, env, cell, native):
        """8-element lists: seven concrete in-range values and ONE symbolic element whose position is enumerated"""
        d = cell["dir"]
        width = 1 if d == "FCB" else 2
        pos = env.hole_choice("pos", list(range(8)))
        txt, v = literal(env, "dec3" if width == 1 else "hex4", tag="e")
        lo, hi = (0, 255) if width == 1 else (0, 65535)
        env.assume(v <= hi)
        consts = [17, 3, 200, 0, 99, 128, 255, 1]
        parts, vals = [], []
        for i in range(8):
            if i:
                parts.append(",")
            if i == pos:
                parts.extend(txt)
                vals.append(v)
            else:
                parts.append(str(consts[i]))
                vals.append(consts[i])
        lines = [env.text(" ", d, " ", parts, "\n")]
        env.info["lines"] = lines
        run = assemble(env, lines)
        sig = lambda what: (lambda: "%s/8:%s:pos=%d" % (d, what, pos)) if native else None
        if not self._common(env, run, sig):
            return
        if run.status != "ok":
            env.fail("C05:accepted", ("C05",), sig("rejected:%s" % run.exc_class))
            return
        st = run.stmts[0]
        env.ensure("C02:size", st.size == len(st.bytes), ("C02",), sig("size=%s,len=%d" % (st.size, len(st.bytes))))
        if len(st.bytes) != 8 * width:
            env.fail("C05:bytes", ("C05",), sig("count=%d,want=%d" % (len(st.bytes), 8 * width)))
            return
        ok = True
        for i, x in enumerate(vals):
            got = st.bytes[i] if width == 1 else st.bytes[2 * i] * 256 + st.bytes[2 * i + 1]
            ok = ok & (got == x)
        env.ensure("C05:bytes", ok, ("C05",), sig("value-mismatch"))

    def k_concrete_list(self, env, cell, native):
        d = cell["dir"]
        width = 1 if d == "FCB" else 2
        vals = [(i * 37 + 11) % (250 if width == 1 else 65000) for i in range(64)]
        text = ",".join(("$%X" % v) if i % 3 == 0 else str(v) for i, v in enumerate(vals))
        lines = [" %s %s\n" % (d, text)]
        env.info["lines"] = lines
        run = assemble(env, lines)
        sig = lambda what: (lambda: "%s/64:%s" % (d, what)) if native else None
        if not self._common(env, run, sig):
            return
        if run.status != "ok":
            env.fail("C05:accepted", ("C05",), sig("rejected"))
            return
        want = []
        for v in vals:
            want += [v] if width == 1 else [v >> 8, v & 255]
        env.ensure("C05:bytes", run.stmts[0].bytes == want, ("C05",), sig("mismatch"))

    def k_rmb_size(self, env, cell, native):
        txt, n = literal(env, cell["spell"])
        lines = [env.text(" RMB ", txt, "\n"), " NOP\n"]
        env.info["lines"] = lines
        run = assemble(env, lines, bytes_of=[1])
        sig = lambda what: (lambda: "RMB:%s:n=%s" % (what, vclass(n))) if native else None
        if not self._common(env, run, sig):
            return
        if run.status != "ok":
            env.fail("C05:accepted", ("C05",), sig("rejected:%s" % run.exc_class))
            return
        env.ensure("C05:rmb-reserves-n", run.stmts[0].size == n, ("C05", "C02"), sig("size=%s" % run.stmts[0].size))
        env.ensure("C02:next-address", run.stmts[1].address == n, ("C02",), sig("next=%s" % run.stmts[1].address))

    def k_rmb_emit(self, env, cell, native):
        n = cell["n"]
        lines = [" RMB %d\n" % n]
        env.info["lines"] = lines
        run = assemble(env, lines)
        sig = lambda what: (lambda: "RMB-emit:%s:n=%d" % (what, n)) if native else None
        if not self._common(env, run, sig):
            return
        if run.status != "ok":
            env.fail("C05:accepted", ("C05",), sig("rejected"))
            return
        env.ensure("C05:rmb-zero-bytes", run.stmts[0].bytes == [0] * n, ("C05",), sig("emitted=%d" % len(run.stmts[0].bytes)))

    def k_fcc(self, env, cell, native):
        delim, L = cell["delim"], cell["len"]
        chars = [env.hole_char("s%d" % i, PRINTABLE) for i in range(L)]
        for c in chars:
            env.assume((c != delim) if native else _neq(c, delim))
        lines = [env.text(" FCC ", delim, chars, delim, "\n")]
        env.info["lines"] = lines
        run = assemble(env, lines)
        self._fcc_check(env, run, chars, native, "FCC/%s/len%d" % (delim, L))

    def k_fcc_comment(self, env, cell, native):
        delim = cell["delim"]
        chars = [env.hole_char("s%d" % i, PRINTABLE) for i in range(2)]
        for c in chars:
            env.assume((c != delim) if native else _neq(c, delim))
        lines = [env.text(" FCC ", delim, chars, delim, cell.get("comment", "  ; a comment"), "\n")]
        env.info["lines"] = lines
        run = assemble(env, lines)
        self._fcc_check(env, run, chars, native, "FCC/%s/%s" % (delim, "comment-with-delimiters" if cell.get("comment") else "comment"))

    def _fcc_check(self, env, run, chars, native, tag):
        def cls(c):
            c = ord(c)
            if c == 32:
                return "space"
            if c == 59:
                return "semicolon"
            if chr(c).isalnum():
                return "alnum"
            if c < 16:
                return "ctl"
            return "punct"

        def sig(what):
            return (lambda: "%s:%s:chars=%s" % (tag, what, ",".join(cls(c) for c in chars))) if native else None
        sp = None if native else product_split([_csplit(c) for c in chars])
        if not self._common(env, run, sig, sp):
            return
        if run.status != "ok":
            env.fail("C05:accepted", ("C05",), sig("rejected:%s" % run.exc_class), split=sp)
            return
        st = run.stmts[0]
        env.ensure("C02:size", st.size == len(st.bytes), ("C02",), sig("size=%s,len=%d" % (st.size, len(st.bytes))), split=sp)
        if len(st.bytes) != len(chars):
            env.fail("C05:fcc-bytes", ("C05",), sig("count=%d,want=%d" % (len(st.bytes), len(chars))), split=sp)
            return
        ok = True
        for b, c in zip(st.bytes, chars):
            ok = ok & (b == (ord(c) if native else _code(c)))
        env.ensure("C05:fcc-bytes", ok, ("C05",), sig("value-mismatch"), split=sp)

    def k_fcc_delim(self, env, cell, native):
        d = chr(cell["code"])
        for body in ("HELLO", "A,B", "X Y", "", "1+2", "a", "two  gaps"):
            if d in body:
                continue
            lines = [" FCB $AA\n", " FCC %s%s%s\n" % (d, body, d), " FCB $55\n"]
            run = assemble(env, lines)
            sig = lambda what, body=body: (lambda: "FCC-delim:%d:%s:%r" % (cell["code"], what, body)) if native else None
            if not self._common(env, run, sig):
                continue
            if run.status != "ok":
                env.fail("C05:accepted", ("C05",), sig("rejected:%s" % run.exc_class))
                continue
            env.ensure("C05:fcc-bytes", list(run.image) == [0xAA] + [ord(c) for c in body] + [0x55], ("C05",), sig("mismatch"))

    def k_fcc_concrete(self, env, cell, native):
        for s in [FCC_STRINGS[cell["i"]]]:
            delim = '"' if '"' not in s else "/"
            lines = [" FCC %s%s%s\n" % (delim, s, delim)]
            run = assemble(env, lines)
            sig = lambda what: (lambda: "FCC-concrete:%s:%r" % (what, s[:12])) if native else None
            if not self._common(env, run, sig):
                continue
            if run.status != "ok":
                env.fail("C05:accepted", ("C05",), sig("rejected"))
                continue
            env.ensure("C05:fcc-bytes", run.stmts[0].bytes == [ord(c) for c in s], ("C05",), sig("mismatch"))

    def k_silent(self, env, cell, native):
        d = cell["dir"]
        fs = None
        if d == "EQU":
            lines = ["V EQU $1234\n", " NOP\n"]
            idx = 0
        elif d == "SET":
            lines = ["V SET 5\n", " NOP\n"]
            idx = 0
        elif d == "ORG":
            lines = [" ORG $0E00\n", " NOP\n"]
            idx = 0
        elif d == "SETDP":
            lines = [" SETDP $0E00\n", " NOP\n"]
            idx = 0
        elif d == "NAM":
            lines = [" NAM hello\n", " NOP\n"]
            idx = 0
        elif d == "END":
            lines = [" NOP\n", " END\n"]
            idx = 1
        elif d == "END-op":
            lines = ["S NOP\n", " END S\n"]
            idx = 1
        else:
            lines = [" INCLUDE inc.asm\n", " NOP\n"]
            fs = {"inc.asm": [" NOP\n"]}
            idx = None
        env.info["lines"] = lines
        run = assemble(env, lines, fs=fs)
        sig = lambda what: (lambda: "silent/%s:%s" % (d, what)) if native else None
        if not self._common(env, run, sig):
            return
        if run.status != "ok":
            env.fail("C05:accepted", ("C05",), sig("rejected:%s" % run.exc_class))
            return
        env.ensure("C05:emits-nothing", run.image == [0x12] * (2 if d == "INCLUDE" else 1), ("C05",), sig("image=%s" % (run.image,)))
        if idx is not None:
            env.ensure("C02:size", run.stmts[idx].size == 0, ("C02",), sig("size=%s" % run.stmts[idx].size))

    def k_empty(self, env, cell, native):
        """a directive without operand must give a diagnostic or a sane result, not a traceback (C13)"""
        d = cell["dir"]
        lines = ["L %s\n" % d] if d == "EQU" else [" %s\n" % d]
        env.info["lines"] = lines
        run = assemble(env, lines)
        sig = lambda what: (lambda: "empty/%s:%s" % (d, what)) if native else None
        self._common(env, run, sig)


FCC_STRINGS = ["HELLO WORLD", "A" * 255, "a b  c   d", "x;y", "tab\there", "1,2,3", "[brackets]", "it's", "100%", "~|{}", "A", "9", "X Y Z",
               "ABCDEFGHIJKLMNOPQRSTUVWXYZ0123456789", "lower case only", "PCR", "A,X", "a  0", "two   gaps  here"]


def _csplit(c):
    """character classes of a symbolic printable character (the classes of _fcc_check.cls)"""
    from pyvc.sym import mk, SymChar, And, Or, Not
    if not isinstance(c, SymChar):
        return None
    code = mk(c.code)
    alnum = Or(And(code >= 48, code <= 57), And(code >= 65, code <= 90), And(code >= 97, code <= 122))
    return [("space", code == 32), ("semicolon", code == 59), ("alnum", alnum), ("punct", And(Not(alnum), code != 32, code != 59))]


def _neq(c, ch):
    from pyvc.sym import mk
    return mk(c.code != ord(ch))


def _code(c):
    from pyvc.sym import mk, SymChar
    return mk(c.code) if isinstance(c, SymChar) else ord(c)


LEMMAS = [AsmData()]
