"""
Layer-2 composition lemma: ONE instruction statement of every operand form of the README grammar,
every mnemonic, every literal spelling with symbolic digits, assembled by the real pipeline
(Statement.parse_line -> Operand.create_from_str -> resolve_symbols -> translate -> address
passes -> get_binary_array, all inlined), checked against the MC6809 decoder spec.

Clauses (tagged with the property they carry):
  C13:terminates            the pipeline returns or raises within the step budget
  C13:no-internal-error     only ParseError / TranslationError may leave Program.process
  C01:accepted              a statement valid under the grammar + data-sheet mode table is accepted
  C01:decodes               the emitted bytes decode to the operation / mode / register / value written
  C02:size                  bytes emitted == size reserved (listing address advance)
  C12:rejected              an invalid mode / unrepresentable value is rejected with a diagnostic
  C12:wellformed            if accepted anyway: bytes are exactly one instruction of that mnemonic and
                            size matches
"""
from specs import mc6809
from pyvc.asmh import assemble
from lemmas.common import literal, SPELLINGS, QUICK_SPELLINGS, MACHINE, representatives, CHR

REGS = ["X", "Y", "U", "S"]

# form id -> (operand template, needs literal?, mode needed)
#   template pieces: "{n}" literal text, "{R}" register
FORMS = {
    "inh":      ("", False, "inh"),
    "imm":      ("#{n}", True, "imm"),
    "mem":      ("{n}", True, "mem"),
    "mem<":     ("<{n}", True, "dir"),
    "mem>":     (">{n}", True, "ext"),
    "ind[]":    ("[{n}]", True, "idx"),
    "idx0":     (",{R}", False, "idx"),
    "idx0bare": ("{R}", False, "idx"),
    "idxc":     ("{n},{R}", True, "idx"),
    "idxA":     ("A,{R}", False, "idx"),
    "idxB":     ("B,{R}", False, "idx"),
    "idxD":     ("D,{R}", False, "idx"),
    "inc1":     (",{R}+", False, "idx"),
    "inc2":     (",{R}++", False, "idx"),
    "dec1":     (",-{R}", False, "idx"),
    "dec2":     (",--{R}", False, "idx"),
    "[idx0]":   ("[,{R}]", False, "idx"),
    "[idxc]":   ("[{n},{R}]", True, "idx"),
    "[idxA]":   ("[A,{R}]", False, "idx"),
    "[idxB]":   ("[B,{R}]", False, "idx"),
    "[idxD]":   ("[D,{R}]", False, "idx"),
    "[inc2]":   ("[,{R}++]", False, "idx"),
    "[dec2]":   ("[,--{R}]", False, "idx"),
    "[inc1]":   ("[,{R}+]", False, None),       # illegal on the CPU: must be rejected
    "[dec1]":   ("[,-{R}]", False, None),
    "pcr":      ("{n},PCR", True, "idx"),
    "[pcr]":    ("[{n},PCR]", True, "idx"),
}

# operand texts that are NOT in the grammar (unknown / missing index register, too many + or -): must be rejected with a
# diagnostic (C12) and must not raise an internal error (C13)
BAD_FORMS = {
    "bad/n,Z":    ("{n},Z", True, None),
    "bad/n,PC":   ("{n},PC", True, None),
    "bad/n,":     ("{n},", True, None),
    "bad/[n,Z]":  ("[{n},Z]", True, None),
    "bad/,W":     (",W", False, None),
    "bad/,":      (",", False, None),
    "bad/,X+++":  (",X+++", False, None),
    "bad/,---X":  (",---X", False, None),
    "bad/,-X+":   (",-X+", False, None),
    "bad/A,":     ("A,", False, None),
    "bad/B,Q":    ("B,Q", False, None),
    "bad/[,W]":   ("[,W]", False, None),
    "bad/[A,]":   ("[A,]", False, None),
}
FORMS.update(BAD_FORMS)

KIND_OF = {"idx0": "off0", "idx0bare": "off0", "idxA": "A", "idxB": "B", "idxD": "D", "inc1": "inc1", "inc2": "inc2",
           "dec1": "dec1", "dec2": "dec2", "[idx0]": "off0", "[idxA]": "A", "[idxB]": "B", "[idxD]": "D",
           "[inc2]": "inc2", "[dec2]": "dec2"}


def has_mode(m, mode):
    return mc6809.opcode_of(m, mode) is not None


EQU_NAMES = ["V", "AB", "VAL", "BD", "ABD", "XS", "V", "DPC", "UY", "PCX"]

# quick tier: row classes that get every spelling also through an EQU symbol (values outside -32768..65535 included)
EQU_ALL_SPELLINGS = ("ADCA", "ADDD", "ASL", "BCC", "ABX", "LEAS")


class AsmForms:
    name = "asm_forms"
    props = ("C01", "C02", "C12", "C13", "C17")

    def cells(self, tier):
        rows = MACHINE if tier == "thorough" else representatives()
        spell = SPELLINGS if tier == "thorough" else QUICK_SPELLINGS
        out = []
        for m in rows:
            for f, (tmpl, lit, mode) in FORMS.items():
                regs = REGS if "{R}" in tmpl else [None]
                if tier != "thorough" and "{R}" in tmpl:
                    # quick: all four registers only for one spelling, else X and S
                    pass
                if m in ("PSHS", "PSHU", "PULS", "PULU", "TFR", "EXG") and f in ("idx0bare", "idxA", "idxB", "idxD"):
                    continue      # these operand texts are register lists / pairs for the stack and transfer instructions (asm_special)
                for r in regs:
                    sps = spell if lit else [None]
                    if f in BAD_FORMS and lit:
                        sps = ["dec2"] if tier != "thorough" else ["dec2", "hex4", "neg1"]
                    for sp in sps:
                        for via in ((None, "equ") if (lit and f not in BAD_FORMS) else (None,)):
                            if via == "equ" and tier != "thorough" and sp not in ("dec2", "hex4", "neg1", "hex2") and m not in EQU_ALL_SPELLINGS:
                                continue          # quick: the remaining spellings through an EQU on a few row classes only
                            if tier != "thorough" and r in ("Y", "U") and sp not in (None, "dec2"):
                                continue
                            cid = "%s/%s/%s/%s%s" % (f, r or "-", sp or "-", m, "/equ" if via else "")
                            out.append({"id": cid, "form": f, "reg": r, "spelling": sp, "mnemonic": m, "via": via})
        if tier != "thorough":
            # the quick tier runs the full form x spelling matrix on one mnemonic per row class only; every OTHER row of the
            # instruction table still gets each addressing mode once (one spelling, register X), so that a slip in a single
            # row (a wrong opcode or size for one mnemonic in one mode) is seen on every change
            reps = set(rows)
            one = {"inh": None, "imm": "dec2", "mem<": "hex2", "mem>": "hex4", "ind[]": "hex4", "idx0": None, "idxc": "dec2", "[idxc]": "dec3",
                   "inc2": None, "[idxD]": None}
            for m in MACHINE:
                if m in reps:
                    continue
                for f, sp in one.items():
                    if m in ("PSHS", "PSHU", "PULS", "PULU", "TFR", "EXG") and f != "inh":
                        continue
                    r = "X" if "{R}" in FORMS[f][0] else None
                    out.append({"id": "%s/%s/%s/%s" % (f, r or "-", sp or "-", m), "form": f, "reg": r, "spelling": sp, "mnemonic": m, "via": None})
        return out

    # ------------------------------------------------------------------
    def run(self, env, cell):
        m, f, r, sp, via = cell["mnemonic"], cell["form"], cell["reg"], cell["spelling"], cell.get("via")
        tmpl, lit, mode = FORMS[f]
        val = None
        parts = []
        lines = []
        if lit:
            txt, val = literal(env, sp)
            if via == "equ":
                # the symbol's NAME must not matter: rotate (by cell) through names built from register letters that are no
                # register names, besides the plain one
                nm = EQU_NAMES[sum(ord(c) for c in cell["id"]) % len(EQU_NAMES)]
                lines.append(env.text(nm + " EQU ", txt, "\n"))
                txt = [nm]
        for piece in _split(tmpl):
            if piece == "{n}":
                parts.extend(txt)
            elif piece == "{R}":
                parts.append(r)
            else:
                parts.append(piece)
        lines.append(env.text(" ", m, " ", parts, "\n"))
        env.info["lines"] = lines
        run = assemble(env, lines)
        env.info["run"] = repr(run)
        idx = len(lines) - 1
        check_statement(env, run, idx, m, f, r, val)


def _split(t):
    out, cur = [], ""
    i = 0
    while i < len(t):
        if t.startswith("{n}", i) or t.startswith("{R}", i):
            if cur:
                out.append(cur)
                cur = ""
            out.append(t[i:i + 3])
            i += 3
        else:
            cur += t[i]
            i += 1
    if cur:
        out.append(cur)
    return out


VCLASSES = ((-32768, -129), (-128, -17), (-16, -1), (0, 0), (1, 15), (16, 127), (128, 255), (256, 32767),
            (32768, 65535), (65536, 10 ** 9), (-10 ** 9, -32769))


def vclass(v):
    """value class label used in failure signatures (native mode only)"""
    if v is None:
        return "-"
    for lo, hi in VCLASSES:
        if lo <= v <= hi:
            return "%d..%d" % (lo, hi)
    return "?"


def vsplit(v):
    """the value classes as input classes of a symbolic value: a refuted obligation is reported once per class in which it
    can fail, so the failure signatures (and the known-finding patterns over them) are independent of the solver's model"""
    if v is None or isinstance(v, int):
        return None
    return [("%d..%d" % (lo, hi), (v >= lo) & (v <= hi)) for lo, hi in VCLASSES]


def validity(m, f, val):
    """(valid: bool|SymBool, mode) per grammar + data sheet.  `valid` may depend on the value."""
    tmpl, lit, mode = FORMS[f]
    if mode is None:
        return False, None
    if mode == "inh":
        return has_mode(m, "inh"), "inh"
    if mode == "imm":
        w = mc6809.imm_width(m)
        if w is None:
            return False, "imm"
        lo, hi = (-128, 255) if w == 1 else (-32768, 65535)
        return (val >= lo) & (val <= hi) if not isinstance(val, int) else (lo <= val <= hi), "imm"
    if mode == "mem":
        ok_d, ok_e = has_mode(m, "dir"), has_mode(m, "ext")
        if not (ok_d or ok_e):
            return False, "mem"
        inr = (val >= 0) & (val <= 65535) if not isinstance(val, int) else (0 <= val <= 65535)
        return inr, "mem"
    if mode == "dir":
        if not has_mode(m, "dir"):
            return False, "dir"
        return (val >= 0) & (val <= 255) if not isinstance(val, int) else (0 <= val <= 255), "dir"
    if mode == "ext":
        if not has_mode(m, "ext"):
            return False, "ext"
        return (val >= 0) & (val <= 65535) if not isinstance(val, int) else (0 <= val <= 65535), "ext"
    if mode == "idx":
        if not has_mode(m, "idx"):
            return False, "idx"
        if val is None:
            return True, "idx"
        if f == "ind[]":
            return (val >= 0) & (val <= 65535) if not isinstance(val, int) else (0 <= val <= 65535), "idx"
        return (val >= -32768) & (val <= 65535) if not isinstance(val, int) else (-32768 <= val <= 65535), "idx"
    raise ValueError(mode)


def invalid_reason(m, f, val):
    """why a statement is invalid (native mode: concrete val) -- a feature of the failure signatures, so that a known finding
    about one kind of invalid input does not cover another kind"""
    tmpl, lit, mode = FORMS[f]
    if mode is None:
        return "form"
    if mode == "inh":
        return "-" if has_mode(m, "inh") else "nomode"
    if mode == "imm":
        w = mc6809.imm_width(m)
        if w is None:
            return "nomode"
        lo, hi = (-128, 255) if w == 1 else (-32768, 65535)
        return ("hi%d" % (8 * w)) if val > hi else ("lo%d" % (8 * w)) if val < lo else "-"
    if mode == "mem":
        if not (has_mode(m, "dir") or has_mode(m, "ext")):
            return "nomode"
        return "negaddr" if val < 0 else "hi16" if val > 65535 else "-"
    if mode in ("dir", "ext"):
        if not has_mode(m, mode):
            return "nomode"
        return "negaddr" if val < 0 else "hi8" if (mode == "dir" and val > 255) else "hi16" if val > 65535 else "-"
    if not has_mode(m, "idx"):
        return "nomode"
    if val is None:
        return "-"
    if f == "ind[]":
        return "negaddr" if val < 0 else "hi16" if val > 65535 else "-"
    return "lo16" if val < -32768 else "hi16" if val > 65535 else "-"


def _b(x):
    """bool|SymBool -> python bool (forks symbolically)"""
    return bool(x)


def check_statement(env, run, idx, m, f, r, val, props01=("C01",)):
    """the clauses for statement `idx` of `run` being `m <form f>`"""
    native = env.mode == "native"
    sp = vsplit(val)
    vc = (lambda: vclass(val)) if native else None

    def sig(what):
        return (lambda: "%s:%s:%s:val=%s:inv=%s:%s" % (f, m, what, vclass(val), invalid_reason(m, f, val), _shape(run, idx))) if native else None

    if run.status == "hang":
        env.fail("C13:terminates", ("C13",), sig("hang"), split=sp)
        return
    env.ensure("C13:terminates", True, ("C13",))
    if run.status == "escape":
        env.fail("C13:no-internal-error", ("C13",), sig("escape:%s" % run.exc_class), split=sp)
        return
    env.ensure("C13:no-internal-error", True, ("C13",))
    valid, mode = validity(m, f, val)
    valid = _b(valid)
    if run.status == "diag":
        if valid:
            env.fail("C01:accepted", ("C01",), sig("rejected:%s" % run.exc_class), split=sp)
        else:
            env.ensure("C12:rejected", True, ("C12",))
        return
    st = run.stmts[idx]
    bs = st.bytes
    if not valid:
        env.fail("C12:rejected", ("C12",), sig("accepted-invalid"), split=sp)
        # still state the weaker well-formedness clause
        d = mc6809.decode(bs)
        ok = d.ok and (d.length == len(bs)) and (d.op in mc6809.names_of(mc6809.canonical(m)) or m in mc6809.names_of(d.op)) \
            and _b(st.size == len(bs))
        env.ensure("C12:wellformed", ok, ("C12",), sig("malformed"), split=sp)
        return
    env.ensure("C01:accepted", True, ("C01",))
    env.ensure("C02:size", st.size == len(bs), ("C02", "C12", "C01"), sig("size=%s,len=%d" % (st.size if native else "?", len(bs))), split=sp)
    d = mc6809.decode(bs)
    if not d.ok:
        env.fail("C01:decodes", ("C01", "C12"), sig("undecodable:%s" % d.why), split=sp)
        return
    if d.length != len(bs):
        env.fail("C01:decodes", ("C01", "C12"), sig("decoded-length=%d,emitted=%d" % (d.length, len(bs))), split=sp)
        return
    if not (m in mc6809.names_of(d.op)):
        env.fail("C01:decodes", ("C01", "C12"), sig("operation=%s" % d.op), split=sp)
        return
    ok = meaning_matches(d, m, f, r, val)
    env.ensure("C01:decodes", ok, ("C01",), sig("meaning:%s" % dsum(d)), split=sp)


def dsum(d):
    """value-free summary of a decoded instruction (for failure signatures)"""
    if d.mode == "idx":
        return "idx/%s/%s%s" % (d.kind, d.reg, "/indirect" if d.indirect else "")
    return "%s" % d.mode


def _shape(run, idx):
    if run.status != "ok":
        return "%s:%s" % (run.status, run.exc_class)
    st = run.stmts[idx]
    return "emitted=%d,reserved=%s" % (len(st.bytes), st.size)


def meaning_matches(d, m, f, r, val):
    """does the decoded instruction d mean `m <form>` with register r and value val?  -> bool|SymBool"""
    tmpl, lit, mode = FORMS[f]
    if mode == "inh":
        return d.mode == "inh"
    if mode == "imm":
        w = mc6809.imm_width(m)
        if d.mode != ("imm8" if w == 1 else "imm16"):
            return False
        return (d.value - val) % (256 if w == 1 else 65536) == 0
    if mode == "mem":
        if d.mode == "dir":
            return d.value == val          # direct page assumed 0: only addresses 0..255
        if d.mode == "ext":
            return d.value == val
        return False
    if mode == "dir":
        return d.mode == "dir" and d.value == val
    if mode == "ext":
        return d.mode == "ext" and d.value == val
    # indexed family
    if d.mode != "idx":
        return False
    if f == "ind[]":
        return d.kind == "extind" and d.value == val
    indirect = f.startswith("[")
    if d.indirect != indirect:
        return False
    if f in ("pcr", "[pcr]"):
        return d.kind in ("pcr8", "pcr16") and (d.offset - val) % 65536 == 0
    if d.reg != r:
        return False
    if f in ("idxc", "[idxc]"):
        # any of the no-offset / 5 / 8 / 16-bit forms of the same effective address
        if d.kind not in ("off0", "off5", "off8", "off16"):
            return False
        return (d.offset - val) % 65536 == 0
    return d.kind == KIND_OF[f]


LEMMAS = [AsmForms()]
