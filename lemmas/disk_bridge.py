"""
The step of the induction over the number of files on a disk image (C07 / C08 / C09), ghost level.

disk_addfile proves about ONE add_file on ANY incoming image A0: the new file's reader pre-conditions hold in the resulting image
A (bridge:entry-fields, bridge:stream-is-header-data-trailer, post:fat-links / fat-terminator) and

    bridge:existing-files-untouched    every byte in a granule that was not free, in another directory entry or in an
                                       allocation-table entry that was not free is the same in A0 and A.

This module proves that this frame is ENOUGH for every file already stored: for a directory slot i other than the new one, with a
chain g(0..k-1) that is well-formed in A0 (calculate_file_length's pre-condition chain_wf, read_data's rd_link), every instance
kind of the reader's pre-conditions carries over from A0 to A, and every byte of the file's stream is the same -- so list_files
returns for slot i after the addition exactly what it returned before (fn/list_files, fn/read_data, fn/calculate_file_length
are functions of these bytes).  No code is executed; the formulas are the ones the reader cells assume (SlotView, chain_wf,
rd_link) and the frame instance is the one disk_addfile proves (untouched_instance).  A satisfiability query guards against a
vacuous lemma.
"""
import z3

from specs import diskbasic as db
from pyvc.sym import SymInt, cur, And, Or, Not, Implies, Ite
from pyvc import sym
from lemmas.disk_wtg import sel, offset, gran_of, GR, N, KEY
from lemmas.disk_addfile import untouched_instance, FAT, DIR
from lemmas.disk_reader import SlotView, chain_wf, rd_link

INTERNAL = "ghost-level lemma (induction step over the files of a disk image)"


class DiskInduction:
    name = "disk_bridge"
    props = ("C07", "C08", "C09")

    def cells(self, tier):
        return [{"id": "induction/add_file-preserves-stored-files"}]

    def run(self, env, cell):
        if env.mode == "native":
            return
        p = cur()
        key = KEY + "add_files"
        I = lambda nm: SymInt(z3.Int(nm))
        i, slot, k, s, L, j, m, t = I("di_i"), I("di_slot"), I("di_k"), I("di_s"), I("di_L"), I("di_j"), I("di_m"), I("di_t")
        A0 = z3.Array("di_A0", z3.IntSort(), z3.IntSort())
        A = z3.Array("di_A", z3.IntSort(), z3.IntSort())
        G = z3.Array("di_chain", z3.IntSort(), z3.IntSort())
        g = lambda x: sel(G, x)
        base = DIR + 32 * slot
        v0, v1 = SlotView(A0, i, g, L), SlotView(A, i, g, L)
        fat0, fat1 = (lambda x: sel(A0, FAT + x)), (lambda x: sel(A, FAT + x))
        pl = v0.kind_pl()
        total = pl + L + Ite(v0.ent(11) == 2, 5, 0)
        p.assume(And(i >= 0, i < 72, slot >= 0, slot < 72, i != slot, k >= 1, k <= 68, s >= 0, s <= 9, L >= 0, L <= 65535))
        # the stream fits the chain (what calculate_file_length / read_data establish from the table): GR * (k - 1) < total' <= GR * k
        p.assume(total <= GR * k)

        def wf0(x):
            return chain_wf(fat0, g, k, s, x)

        def ut(q):
            return untouched_instance(A, A0, base, q)
        # chain indices whose granules an instance may read, and the byte positions it reads there
        jm = sym.floordiv(j, GR)
        idxs = [0, 1, m, m + 1, jm, sym.floordiv(5 + L, GR), sym.floordiv(9 + L, GR), sym.floordiv(6 + L, GR), sym.floordiv(7 + L, GR),
                sym.floordiv(8 + L, GR)]
        pos = [DIR + 32 * i + c for c in (0, 11, 12, 13, 14, 15)] + [v0.loc(c) for c in range(5)] + [v0.loc(5 + L + c) for c in range(5)] + \
              [v0.loc(j)] + [FAT + g(x) for x in idxs]
        known = [v0.entry_bytes(), v0.valid(), v0.active()] + [Implies(And(x >= 0, x < k), wf0(x)) for x in idxs] + \
                [rd_link(fat0, g, total, m)] + [ut(q) for q in pos]
        hyp = And(*known)
        ens = lambda name, goal: env.ensure(key + "::induction:" + name, Implies(hyp, goal), ("C07", "C08", "C09"), internal=INTERNAL)
        ens("directory-entry-stable", And(v1.entry_bytes(), v1.active(), *[v1.ent(c) == v0.ent(c) for c in (0, 11, 12, 13, 14, 15)]))
        ens("chain-link-stable", Implies(And(m >= 0, m < k), chain_wf(fat1, g, k, s, m)))
        ens("read_data-link-stable", Implies(And(m >= 0, m < k), rd_link(fat1, g, total, m)))
        ens("stream-byte-stable", Implies(And(j >= 0, j < total), v1.strm(j) == v0.strm(j)))
        ens("list_files-precondition-stable", v1.valid())
        sol = z3.Solver()
        sol.set("timeout", 30000)
        zb = lambda c: c.e if hasattr(c, "e") else c
        sol.add(zb(hyp), zb(And(k == 2, v0.ent(11) == 2, L == 3000, j == 2500, m == 0, A[FAT + 5] != A0[FAT + 5])), *[zb(c) for c in p.pc])
        env.ensure(key + "::induction:hypotheses-satisfiable", sol.check() == z3.sat, ("C07", "C08", "C09"), internal="vacuous lemma")


LEMMAS = [DiskInduction()]
