"""
C19 -- INCLUDE is textual inclusion.  Every corpus program is split at every statement boundary into an including
file and 1..3 included files (nested to depth 3); image, listing addresses and symbol values must equal those of the
spliced single file.  A missing file or an inclusion cycle must be a diagnostic.   BOUNDED: corpus x split points.
"""
from pyvc.asmh import assemble
from lemmas.corpus import PROGRAMS


def _view(run):
    if run.status != "ok":
        return (run.status, run.exc_class)
    return ("ok", list(run.image), [s.address for s in run.stmts if s.mnemonic != "INCLUDE"], sorted(run.symbols.items(), key=str))


class Include:
    name = "include"
    props = ("C19", "C13")
    max_paths = 50

    def cells(self, tier):
        out = []
        for p, lines in PROGRAMS.items():
            n = len(lines)
            pts = range(1, n) if tier == "thorough" else sorted({1, n // 3, n // 2, n - 2, n - 1})
            for k in pts:
                if 0 < k < n:
                    out.append({"id": "split/%s/at%d" % (p, k), "k": "split", "p": p, "at": k, "bounded": "%s split at %d" % (p, k)})
            out.append({"id": "nested/%s" % p, "k": "nested", "p": p, "bounded": "%s in 3 nested files" % p})
            # the same nesting with file names that contain one another (stdio.asm > io.asm > o.asm) and that share a prefix
            out.append({"id": "nested-names/%s/contained" % p, "k": "nested", "p": p, "names": ["stdio.asm", "io.asm", "o.asm"],
                        "bounded": "%s in 3 nested files whose names contain one another" % p})
            out.append({"id": "nested-names/%s/subdir" % p, "k": "nested", "p": p, "names": ["lib/mid.asm", "lib/leaf.asm", "lib/sub/end.asm"],
                        "bounded": "%s in 3 nested files in sub-directories (names relative to the working directory)" % p})
            out.append({"id": "nested-names/%s/prefix" % p, "k": "nested", "p": p, "names": ["defs.asm", "defs.asm.inc", "defs.as"],
                        "bounded": "%s in 3 nested files whose names are prefixes of one another" % p})
            out.append({"id": "middle/%s" % p, "k": "middle", "p": p, "bounded": "%s with the middle third included" % p})
        for shape in ("adjacent", "apart", "nested-twice"):
            out.append({"id": "same-file-twice/%s" % shape, "k": "twice", "shape": shape, "bounded": "one file included twice (%s)" % shape})
        for body in ("nothing", "comments", "blanks"):
            for shape in ("then-include", "then-statement", "last", "first", "nested-then-include", "two-empty-then-include"):
                out.append({"id": "empty-include/%s/%s" % (body, shape), "k": "empty", "body": body, "shape": shape,
                            "bounded": "an include file with no statements (%s), %s" % (body, shape)})
        out.append({"id": "missing-file", "k": "missing"})
        out.append({"id": "cycle/self", "k": "cycle", "shape": "self"})
        out.append({"id": "cycle/two", "k": "cycle", "shape": "two"})
        return out

    def run(self, env, cell):
        getattr(self, "k_" + cell["k"])(env, cell, env.mode == "native")

    def _cmp(self, env, cell, main, fs, spliced, native, tag):
        a = assemble(env, main, fs=fs)
        b = assemble(env, spliced)
        va, vb = _view(a), _view(b)
        env.info["lines"] = main
        sig = (lambda: "%s:%s" % (tag, "status %s vs %s" % (va[0:2], vb[0:2]) if va[0] != vb[0] or va[0] != "ok" else
                                   ("image" if va[1] != vb[1] else "addresses" if va[2] != vb[2] else "symbols"))) if native else None
        if a.status == "escape":
            env.fail("C13:no-internal-error", ("C13", "C19"), (lambda: "%s:escape:%s" % (tag, a.exc_class)) if native else None)
            return
        env.ensure("C19:include-equals-splice", va == vb, ("C19",), sig)

    def k_split(self, env, cell, native):
        lines = PROGRAMS[cell["p"]]
        k = cell["at"]
        main = lines[:k] + ["        INCLUDE rest.asm\n"]
        self._cmp(env, cell, main, {"rest.asm": lines[k:]}, lines, native, "split/%s" % cell["p"])
        # and the other way round: head included, tail in the main file
        main2 = ["        INCLUDE head.asm\n"] + lines[k:]
        self._cmp(env, cell, main2, {"head.asm": lines[:k]}, lines, native, "split-head/%s" % cell["p"])

    def k_nested(self, env, cell, native):
        lines = PROGRAMS[cell["p"]]
        n = len(lines)
        a, b = n // 3, 2 * n // 3
        n1, n2, n3 = cell.get("names") or ["l1.asm", "l2.asm", "l3.asm"]
        main = lines[:a] + ["        INCLUDE %s\n" % n1]
        fs = {n1: lines[a:b] + ["        INCLUDE %s\n" % n2], n2: lines[b:b + 1] + ["        INCLUDE %s\n" % n3], n3: lines[b + 1:]}
        self._cmp(env, cell, main, fs, lines, native, cell["id"])

    def k_middle(self, env, cell, native):
        lines = PROGRAMS[cell["p"]]
        n = len(lines)
        a, b = n // 3, 2 * n // 3
        main = lines[:a] + ["        INCLUDE mid.asm ; the middle\n"] + lines[b:]
        self._cmp(env, cell, main, {"mid.asm": lines[a:b]}, lines, native, "middle/%s" % cell["p"])

    def k_twice(self, env, cell, native):
        snippet = ["        LDA #$41\n", "        STA ,X+\n"]
        shape = cell["shape"]
        if shape == "adjacent":
            main = ["        ORG $0E00\n", "SRC     LDX #DST\n", "        INCLUDE put.asm\n", "        INCLUDE put.asm\n", "        RTS\n", "DST     RMB 4\n",
                    "END1    NOP\n"]
            fs = {"put.asm": snippet}
        elif shape == "apart":
            main = ["        ORG $0E00\n", "SRC     LDX #DST\n", "        INCLUDE put.asm\n", "MID     LDB #2\n", "        INCLUDE put.asm\n", "        BRA SRC\n",
                    "DST     RMB 4\n", "END1    JMP MID\n"]
            fs = {"put.asm": snippet}
        else:
            main = ["        ORG $0E00\n", "SRC     LDX #DST\n", "        INCLUDE two.asm\n", "        INCLUDE put.asm\n", "DST     RMB 4\n", "END1    JMP SRC\n"]
            fs = {"put.asm": snippet, "two.asm": ["        INCLUDE put.asm\n", "        NOP\n", "        INCLUDE put.asm\n"]}

        def splice(lines):
            out = []
            for l in lines:
                if "INCLUDE" in l:
                    out += splice(fs[l.split()[1]])
                else:
                    out.append(l)
            return out
        self._cmp(env, cell, main, fs, splice(main), native, "same-file-twice/%s" % shape)

    def k_empty(self, env, cell, native):
        """an included file that contributes no statement at all: the statement after it must be treated like any other"""
        empty = {"nothing": [], "comments": ["; only a comment\n", "   ; and an indented one\n"], "blanks": ["\n", "   \n"]}[cell["body"]]
        body = ["TABLE   FCB 1,2,3\n", "FILL    RMB 2\n"]
        head = ["        ORG $0E00\n", "START   LDX #COUNT\n", "        LDA ,X\n"]
        tail = ["DONE    BNE START\n", "        RTS\n", "COUNT   FCB 7\n"]
        inc_e, inc_b = "        INCLUDE e.asm\n", "        INCLUDE body.asm\n"
        fs = {"e.asm": empty, "body.asm": body}
        shape = cell["shape"]
        if shape == "then-include":
            main = head + [inc_e, inc_b] + tail
        elif shape == "then-statement":
            main = head + [inc_e] + tail
        elif shape == "last":
            main = head + [inc_b] + tail + [inc_e]
        elif shape == "first":
            main = [inc_e] + head + [inc_b] + tail
        elif shape == "two-empty-then-include":
            main = head + [inc_e, inc_e, inc_b, inc_e] + tail
        else:
            main = head + ["        INCLUDE outer.asm\n"] + tail
            fs["outer.asm"] = [inc_e, inc_b, inc_e, "        NOP\n"]

        def splice(lines):
            out = []
            for l in lines:
                if "INCLUDE" in l:
                    out += splice(fs[l.split()[1]])
                else:
                    out.append(l)
            return out
        self._cmp(env, cell, main, fs, splice(main), native, "empty-include/%s/%s" % (cell["body"], shape))

    def k_missing(self, env, cell, native):
        r = assemble(env, [" NOP\n", " INCLUDE nothere.asm\n"], fs={"other.asm": [" NOP\n"]})
        env.ensure("C19:missing-file-is-diagnostic", r.status == "diag", ("C19", "C13"),
                   (lambda: "missing-file:%s:%s" % (r.status, r.exc_class)) if native else None)

    def k_cycle(self, env, cell, native):
        if cell["shape"] == "self":
            fs = {"a.asm": [" NOP\n", " INCLUDE a.asm\n"]}
        else:
            fs = {"a.asm": [" NOP\n", " INCLUDE b.asm\n"], "b.asm": [" INCLUDE a.asm\n"]}
        r = assemble(env, [" INCLUDE a.asm\n"], fs=fs)
        env.ensure("C19:cycle-is-diagnostic", r.status == "diag", ("C19", "C13"),
                   (lambda: "cycle/%s:%s:%s" % (cell["shape"], r.status, r.exc_class)) if native else None)


LEMMAS = [Include()]


# =============================================================================================== unbounded contracts

import z3
from pyvc.contracts import Verifier, LoopSpec, CallSpec
from pyvc.lists import AbsList, SeqList, IntSeq
from pyvc.objs import Obj
from pyvc.sym import SymInt, mk, mks, cur, branch, And, Or, Not, Implies, Ite
from pyvc import sym

PKEY = "cocoasm/program.py::Program."


class IncludeContracts:
    """
    C19 at the level of the two functions that implement inclusion, for statement / line lists of ANY length (Seq theory,
    abstract lines and statements: Statement(line) is an uninterpreted function of the line, as justified by C17):

      Program.parse(lines)              == the left fold   P(i+1) = P(i) ++ [stmt(line_i)]  if the statement is kept (not empty,
                                           not a comment), P(i) otherwise: order preserved, nothing dropped or duplicated,
                                           the input list is not modified
      Program.process_mnemonics(stmts)  == the left fold   G(i+1) = G(i) ++ flat(parse(file(s_i)))  if s_i is an INCLUDE,
                                           G(i) ++ [s_i] otherwise: the expansion stands exactly where the INCLUDE stood
                                           (recursion through the function's own contract)
    """
    name = "include_contracts"
    props = ("C19",)

    def cells(self, tier):
        return [{"id": "fn/Program.parse", "fn": "parse"}, {"id": "fn/Program.process_mnemonics", "fn": "pm"}]

    def probes(self, cell):
        yield {"probe": 1}

    def run(self, env, cell):
        if env.mode == "native":
            # native witness search: the bounded include cells of this module (same-file-twice, nested, middle, split)
            inc = Include()
            for c in inc.cells("quick"):
                if c["k"] in ("twice", "nested", "middle", "empty"):
                    inc.run(env, c)
            # parse must drop blank and comment-only lines and nothing else, in the main file and in included files
            plain = ["        ORG $0E00\n", "A       LDA #1\n", "        BRA A\n", "B       RTS\n"]
            noisy = ["; header\n", "\n", plain[0], "   ; indented comment\n", plain[1], "\n", plain[2], "; x\n", plain[3], "  \n"]
            a, b = assemble(env, noisy), assemble(env, plain)
            env.ensure("C19:parse-drops-only-blank-and-comment-lines", _view(a) == _view(b), ("C19",), lambda: "comment/blank lines: %s vs %s" % (a.status, b.status))
            main = [plain[0], "        INCLUDE body.asm\n", plain[3]]
            c = assemble(env, main, fs={"body.asm": ["; c\n", plain[1], "\n", plain[2]]})
            env.ensure("C19:parse-drops-only-blank-and-comment-lines", _view(c) == _view(b), ("C19",), lambda: "included comment/blank lines: %s" % c.status)
            return
        getattr(self, "s_" + cell["fn"])(env, cell)

    def s_parse(self, env, cell):
        it = env.interp
        p = cur()
        n = env.hole_int("n", 0, 100000)
        Program = it.get("cocoasm.program", "Program")
        Statement = it.get("cocoasm.statement", "Statement")
        S = z3.Function("stmt_of", z3.IntSort(), z3.IntSort())
        E = z3.Function("is_empty", z3.IntSort(), z3.BoolSort())
        Cm = z3.Function("is_comment", z3.IntSort(), z3.BoolSort())
        FP = z3.Function("parse_prefix", z3.IntSort(), IntSeq)
        lines = AbsList(n, lambda k: k if isinstance(k, SymInt) else SymInt(z3.IntVal(k)) if not isinstance(k, int) else k)
        v = Verifier(env, it)

        def apply_init(v_, interp, func, args):
            st, line = args["self"], args["line"]
            st.fields["is_empty"] = mk(E(sym._z(line)))
            st.fields["is_comment_only"] = mk(Cm(sym._z(line)))
            st.fields["_id"] = SymInt(S(sym._z(line)))
            return None
        v.contract("cocoasm/statement.py::Statement.__init__", CallSpec(apply_init))
        key = PKEY + "parse"

        def kept(k):
            return z3.And(z3.Not(E(k)), z3.Not(Cm(k)))
        acc = _returned_name(it.getattr_(Program, "parse"), "statements")

        def init(ctx):
            p.assume(FP(0) == z3.Empty(IntSeq))
            return {}

        def havoc(ctx):
            p.fresh += 1
            if acc not in ctx.locals:
                raise sym.Undecided("parse: the returned accumulator %r does not exist before the loop" % acc)
            ctx.locals[acc] = SeqList(z3.Const("stmts!%d" % p.fresh, IntSeq))
            return {}

        def inv(ctx, i, g):
            s = ctx.locals.get(acc)
            if not isinstance(s, (SeqList, list)):
                return [("fold", mk(z3.BoolVal(False)))]
            seq = s.seq if isinstance(s, SeqList) else SeqList.of([sym._z(x.fields["_id"]) for x in s]).seq
            return [("fold", mk(seq == FP(sym._z(i))))]

        def step(ctx, i, g):
            return {}

        def assume(ctx, i):
            k = sym._z(i)
            return [mk(FP(k + 1) == z3.If(kept(k), z3.Concat(FP(k), z3.Unit(S(k))), FP(k)))]
        v.loop(key, 0, LoopSpec(("C19",), init, havoc, inv, step, assume=assume))
        with v.installed():
            res = it.call(it.getattr_(Program, "parse"), [lines], {})
        if isinstance(res, SeqList):
            env.ensure(key + "::post:left-fold-of-kept-statements", mk(res.seq == FP(sym._z(n))), ("C19",), internal="contract over abstract lines")
        else:
            env.ensure(key + "::post:left-fold-of-kept-statements", And(n == 0, len(res) == 0), ("C19",), internal="contract over abstract lines")

    def s_pm(self, env, cell):
        it = env.interp
        p = cur()
        n = env.hole_int("n", 0, 100000)
        Program = it.get("cocoasm.program", "Program")
        Statement = it.get("cocoasm.statement", "Statement")
        INC = z3.Function("is_include", z3.IntSort(), z3.BoolSort())
        FILE = z3.Function("include_file", z3.IntSort(), z3.IntSort())
        PARSED = z3.Function("parsed_file", z3.IntSort(), IntSeq)
        FLAT = z3.Function("flat", IntSeq, IntSeq)
        G = z3.Function("flat_prefix", z3.IntSort(), IntSeq)
        SID = z3.Function("stmt_at", z3.IntSort(), z3.IntSort())

        def elem(k):
            o = Obj(Statement, {"_id": SymInt(SID(sym._z(k))), "_pos": k})
            return o
        stmts = AbsList(n, elem)
        v = Verifier(env, it)
        key = PKEY + "process_mnemonics"
        SourceFile = it.get("cocoasm.virtualfiles.source_file", "SourceFile")

        def apply_incname(v_, interp, func, args):
            st = args["self"]
            sid = sym._z(st.fields["_id"])
            if branch(mk(INC(sid))):
                return _FileName(SymInt(FILE(sid)))
            return None
        v.contract("cocoasm/statement.py::Statement.get_include_filename", CallSpec(apply_incname))

        def apply_sf_init(v_, interp, func, args):
            args["self"].fields["file_name"] = args["file_name"]
            args["self"].fields["buffer"] = []
            return None
        v.contract("cocoasm/virtualfiles/source_file.py::SourceFile.__init__", CallSpec(apply_sf_init))

        def apply_read(v_, interp, func, args):
            fn = args["self"].fields["file_name"]
            if not isinstance(fn, _FileName):
                raise sym.Undecided("process_mnemonics: the file that is read is not named by the INCLUDE statement's operand alone")
            args["self"].fields["buffer"] = _FileLines(fn.fid)
            return None
        v.contract("cocoasm/virtualfiles/source_file.py::SourceFile.read_file", CallSpec(apply_read))

        def apply_parse(v_, interp, func, args):
            c = args["contents"]
            if not isinstance(c, _FileLines):
                raise sym.Undecided("process_mnemonics: parse is called on something that is not the buffer of the file named on the INCLUDE statement")
            return SeqList(PARSED(sym._z(c.fid)))
        v.contract(PKEY + "parse", CallSpec(apply_parse))

        def apply_rec(v_, interp, func, args):
            s = args["statements"]
            if not isinstance(s, SeqList):
                raise sym.EngineError("nested process_mnemonics on a non-abstract list")
            return SeqList(FLAT(s.seq))
        v.contract(key, CallSpec(apply_rec, nested_only=True))
        acc = _returned_name(it.getattr_(Program, "process_mnemonics"), "processed_statements")

        def init(ctx):
            p.assume(G(0) == z3.Empty(IntSeq))
            return {}

        def havoc(ctx):
            p.fresh += 1
            if acc not in ctx.locals:
                raise sym.Undecided("process_mnemonics: the returned accumulator %r does not exist before the loop" % acc)
            ctx.locals[acc] = SeqList(z3.Const("proc!%d" % p.fresh, IntSeq))
            return {}

        def inv(ctx, i, g):
            s = ctx.locals.get(acc)
            if isinstance(s, SeqList):
                seq = s.seq
            elif isinstance(s, list) and not s:
                seq = z3.Empty(IntSeq)
            else:
                # the accumulator is not a fresh list (for instance the input list itself, modified in place): the fold
                # invariant cannot hold for it
                return [("fold", mk(z3.BoolVal(False)))]
            return [("fold", mk(seq == G(sym._z(i))))]

        def step(ctx, i, g):
            return {}

        def assume(ctx, i):
            k = sym._z(i)
            sid = SID(k)
            return [mk(G(k + 1) == z3.If(INC(sid), z3.Concat(G(k), FLAT(PARSED(FILE(sid)))), z3.Concat(G(k), z3.Unit(sid))))]
        v.loop(key, 0, LoopSpec(("C19",), init, havoc, inv, step, assume=assume))
        with v.installed():
            res = it.call(it.getattr_(Program, "process_mnemonics"), [stmts], {})
        if isinstance(res, SeqList):
            env.ensure(key + "::post:in-place-expansion-fold", mk(res.seq == G(sym._z(n))), ("C19",), internal="contract over abstract statements")
        else:
            env.ensure(key + "::post:in-place-expansion-fold", And(n == 0, len(res) == 0), ("C19",), internal="contract over abstract statements")


def _returned_name(func, default):
    """the local the function returns (the invariant is about the returned list, whatever the code calls it)"""
    import ast
    f = getattr(func, "func", func)
    node = getattr(f, "node", None)
    names = [r.value.id for r in ast.walk(node) if isinstance(r, ast.Return) and isinstance(r.value, ast.Name)] if node is not None else []
    return names[-1] if names else default


class _FileName(str):
    """abstract include file name (a non-empty string for the interpreter, carrying the symbolic file id)"""
    def __new__(cls, fid):
        o = str.__new__(cls, "<included file>")
        o.fid = fid
        return o


class _FileLines:
    def __init__(self, fid):
        self.fid = fid


LEMMAS.append(IncludeContracts())
