"""
C19 -- INCLUDE is textual inclusion.  Every corpus program is split at every statement boundary into an including
file and 1..3 included files (nested to depth 3); image, listing addresses and symbol values must equal those of the
spliced single file.  A missing file or an inclusion cycle must be a diagnostic.   BOUNDED: corpus x split points.
"""
from pyvc.asmh import assemble
from lemmas.corpus import PROGRAMS


def _view(run):
    if run.status != "ok":
        return (run.status, run.exc_class)
    return ("ok", list(run.image), [s.address for s in run.stmts if s.mnemonic != "INCLUDE"], sorted(run.symbols.items(), key=str))


class Include:
    name = "include"
    props = ("C19", "C13")
    max_paths = 50

    def cells(self, tier):
        out = []
        for p, lines in PROGRAMS.items():
            n = len(lines)
            pts = range(1, n) if tier == "thorough" else sorted({1, n // 3, n // 2, n - 2, n - 1})
            for k in pts:
                if 0 < k < n:
                    out.append({"id": "split/%s/at%d" % (p, k), "k": "split", "p": p, "at": k, "bounded": "%s split at %d" % (p, k)})
            out.append({"id": "nested/%s" % p, "k": "nested", "p": p, "bounded": "%s in 3 nested files" % p})
            out.append({"id": "middle/%s" % p, "k": "middle", "p": p, "bounded": "%s with the middle third included" % p})
        for shape in ("adjacent", "apart", "nested-twice"):
            out.append({"id": "same-file-twice/%s" % shape, "k": "twice", "shape": shape, "bounded": "one file included twice (%s)" % shape})
        out.append({"id": "missing-file", "k": "missing"})
        out.append({"id": "cycle/self", "k": "cycle", "shape": "self"})
        out.append({"id": "cycle/two", "k": "cycle", "shape": "two"})
        return out

    def run(self, env, cell):
        getattr(self, "k_" + cell["k"])(env, cell, env.mode == "native")

    def _cmp(self, env, cell, main, fs, spliced, native, tag):
        a = assemble(env, main, fs=fs)
        b = assemble(env, spliced)
        va, vb = _view(a), _view(b)
        env.info["lines"] = main
        sig = (lambda: "%s:%s" % (tag, "status %s vs %s" % (va[0:2], vb[0:2]) if va[0] != vb[0] or va[0] != "ok" else
                                   ("image" if va[1] != vb[1] else "addresses" if va[2] != vb[2] else "symbols"))) if native else None
        if a.status == "escape":
            env.fail("C13:no-internal-error", ("C13", "C19"), (lambda: "%s:escape:%s" % (tag, a.exc_class)) if native else None)
            return
        env.ensure("C19:include-equals-splice", va == vb, ("C19",), sig)

    def k_split(self, env, cell, native):
        lines = PROGRAMS[cell["p"]]
        k = cell["at"]
        main = lines[:k] + ["        INCLUDE rest.asm\n"]
        self._cmp(env, cell, main, {"rest.asm": lines[k:]}, lines, native, "split/%s" % cell["p"])
        # and the other way round: head included, tail in the main file
        main2 = ["        INCLUDE head.asm\n"] + lines[k:]
        self._cmp(env, cell, main2, {"head.asm": lines[:k]}, lines, native, "split-head/%s" % cell["p"])

    def k_nested(self, env, cell, native):
        lines = PROGRAMS[cell["p"]]
        n = len(lines)
        a, b = n // 3, 2 * n // 3
        main = lines[:a] + ["        INCLUDE l1.asm\n"]
        fs = {"l1.asm": lines[a:b] + ["        INCLUDE l2.asm\n"], "l2.asm": lines[b:b + 1] + ["        INCLUDE l3.asm\n"], "l3.asm": lines[b + 1:]}
        self._cmp(env, cell, main, fs, lines, native, "nested/%s" % cell["p"])

    def k_middle(self, env, cell, native):
        lines = PROGRAMS[cell["p"]]
        n = len(lines)
        a, b = n // 3, 2 * n // 3
        main = lines[:a] + ["        INCLUDE mid.asm ; the middle\n"] + lines[b:]
        self._cmp(env, cell, main, {"mid.asm": lines[a:b]}, lines, native, "middle/%s" % cell["p"])

    def k_twice(self, env, cell, native):
        snippet = ["        LDA #$41\n", "        STA ,X+\n"]
        shape = cell["shape"]
        if shape == "adjacent":
            main = ["        ORG $0E00\n", "SRC     LDX #DST\n", "        INCLUDE put.asm\n", "        INCLUDE put.asm\n", "        RTS\n", "DST     RMB 4\n",
                    "END1    NOP\n"]
            fs = {"put.asm": snippet}
        elif shape == "apart":
            main = ["        ORG $0E00\n", "SRC     LDX #DST\n", "        INCLUDE put.asm\n", "MID     LDB #2\n", "        INCLUDE put.asm\n", "        BRA SRC\n",
                    "DST     RMB 4\n", "END1    JMP MID\n"]
            fs = {"put.asm": snippet}
        else:
            main = ["        ORG $0E00\n", "SRC     LDX #DST\n", "        INCLUDE two.asm\n", "        INCLUDE put.asm\n", "DST     RMB 4\n", "END1    JMP SRC\n"]
            fs = {"put.asm": snippet, "two.asm": ["        INCLUDE put.asm\n", "        NOP\n", "        INCLUDE put.asm\n"]}

        def splice(lines):
            out = []
            for l in lines:
                if "INCLUDE" in l:
                    out += splice(fs[l.split()[1]])
                else:
                    out.append(l)
            return out
        self._cmp(env, cell, main, fs, splice(main), native, "same-file-twice/%s" % shape)

    def k_missing(self, env, cell, native):
        r = assemble(env, [" NOP\n", " INCLUDE nothere.asm\n"], fs={"other.asm": [" NOP\n"]})
        env.ensure("C19:missing-file-is-diagnostic", r.status == "diag", ("C19", "C13"),
                   (lambda: "missing-file:%s:%s" % (r.status, r.exc_class)) if native else None)

    def k_cycle(self, env, cell, native):
        if cell["shape"] == "self":
            fs = {"a.asm": [" NOP\n", " INCLUDE a.asm\n"]}
        else:
            fs = {"a.asm": [" NOP\n", " INCLUDE b.asm\n"], "b.asm": [" INCLUDE a.asm\n"]}
        r = assemble(env, [" INCLUDE a.asm\n"], fs=fs)
        env.ensure("C19:cycle-is-diagnostic", r.status == "diag", ("C19", "C13"),
                   (lambda: "cycle/%s:%s:%s" % (cell["shape"], r.status, r.exc_class)) if native else None)


LEMMAS = [Include()]
