"""
Bridge between the cassette WRITER and the cassette READER contracts (C06 round trip), unbounded.

The reader contracts (tape_reader_contracts) hold for every stream that satisfies the array-form well-formedness WF with
ghost block positions.  This module proves that what the tool's own writer appends IS such a stream, with the ghosts given in
closed form (block j of a file starts 261*j bytes behind the first, carries min(255, L - 255*j) bytes, OFF[j] = min(255*j, L)):

  CassetteFile.append_data_blocks(raw)   array-form contract for ANY buffer, ANY data length L and contents
        new length; frame; for every block j < ceil(L/255): sync, type 01, length byte, trailing 55 at their positions;
        for every i < L: the payload byte of raw[i] sits at base + 261*(i div 255) + 4 + i mod 255
        (recursion through its own contract -- the nested call has the top-level parameter shape --, decreases L; both copy loops cut)
  CassetteFile.add_file(f)               real add_file with append_data_blocks through that contract; then every INSTANCE of the
        reader's pre-condition WFfile (name-file block, filler bytes, block headers, lengths, prefix sums, payload map, EOF block)
        is proved about the resulting buffer, for an arbitrary block index / byte position.

Together with tape_reader_contracts fn/read_file this gives  read_file(position before the file) == the file  for every file
of >= 1 data byte written behind any existing buffer.  (The C14 contracts state the same writer in z3 sequences with
check sums; this array form carries the layout only -- the reader does not look at check sums.)
"""
import z3

from pyvc.filesh import Files, Raised
from pyvc.contracts import Verifier, LoopSpec, CallSpec, Forall, prove_forall
from pyvc.lists import ArrList
from pyvc.sym import SymInt, SStr, mk, mks, cur, branch, And, Or, Not, Implies, Ite
from pyvc import sym
from lemmas.tape_reader import TapeReaderContracts, spec_file, NotWellFormed, CAS, KEY, sel
from lemmas.tape import _hi, _lo

INTERNAL = "array-form writer contract / bridge obligation"


def fdiv(a, b):
    return sym.floordiv(a, b) if isinstance(a, SymInt) else a // b


def blen(j, L):
    return Ite(255 * (j + 1) <= L, 255, L - 255 * j)


def nblocks(L):
    return fdiv(L + 254, 255)


def newlen(base, L):
    return base + 261 * fdiv(L, 255) + Ite(L % 255 == 0, 0, 6 + L % 255)


def hdr(A, base, L, j):
    s = base + 261 * j
    return And(sel(A, s) == 0x55, sel(A, s + 1) == 0x3C, sel(A, s + 2) == 0x01, sel(A, s + 3) == blen(j, L),
               sel(A, s + 4 + blen(j, L) + 1) == 0x55)


def pay(A, base, RA, roff, i):
    return sel(A, base + 261 * fdiv(i, 255) + 4 + i % 255) == sel(RA, roff + i)


class TapeBridge:
    name = "tape_bridge"
    props = ("C06", "C14", "C09")
    max_paths = 400

    def cells(self, tier):
        return [{"id": "fn/append_data_blocks/array-form", "fn": "adb"}, {"id": "fn/append_blank/array-form", "fn": "run", "what": "append_blank", "value": 0x00},
                {"id": "fn/append_leader/array-form", "fn": "run", "what": "append_leader", "value": 0x55},
                {"id": "bridge/add_file-output-is-well-formed", "fn": "bridge"},
                {"id": "induction/appending-preserves-read_file-preconditions", "fn": "stable"}]

    def probes(self, cell):
        for L in (1, 2, 254, 255, 256, 509, 510, 511, 765, 1000):
            yield {"L": L, "n0": 0}
            yield {"L": L, "n0": 7}

    def run(self, env, cell):
        if env.mode == "native":
            return self.native(env, cell)
        return getattr(self, "s_" + cell["fn"])(env, cell)

    # ------------------------------------------------------------------ native: write with the real writer, read with the independent parser
    def native(self, env, cell):
        F = Files(env)
        L, n0 = env.holes.get("L", 1), env.holes.get("n0", 0)
        if L < 1:
            raise sym.PathAbort()
        pre = [0x00] * n0
        data = [(11 * i + 5) % 256 for i in range(L)]
        c = F.new(CAS, "CassetteFile", buffer=list(pre)) if pre else F.new(CAS, "CassetteFile")
        f = F.coco_file("BRIDGE", 2, 0, 0x1234, 0x5678, list(data))
        F.method(c, "add_file", f)
        buf = list(F.get(c, "buffer"))
        why = None
        try:
            w = spec_file(buf, n0)
            if w is None or w["data"] != data or w["name"] != "BRIDGE  " or (w["load"], w["exec"]) != (0x1234, 0x5678) or w["end"] != len(buf):
                why = "fields"
        except NotWellFormed as e:
            why = "malformed:%s" % e
        env.ensure(KEY + "add_file::post:well-formed-for-the-reader", why is None, ("C06", "C14"), lambda: "bridge:L=%d:%s" % (L, why))

    # ------------------------------------------------------------------ append_data_blocks, array form
    def _adb_verifier(self, env, F, p, st):
        v = Verifier(env, F.it)
        key = KEY + "append_data_blocks"

        def apply_adb(v_, interp, func, args):
            raw2 = args["raw_bytes"]
            if not isinstance(raw2, ArrList):
                raise sym.EngineError("append_data_blocks contract needs an array list")
            if args.get("gaps", False) is not False:
                raise sym.EngineError("append_data_blocks contract: gaps")
            b = interp.getattr_(args["self"], "buffer")
            base1, Aold, L2 = b.len, b.arr, raw2.length()
            if "L" in st:
                env.ensure(key + "::decreases", L2 < st["L"], ("C06", "C14", "C13"), internal=INTERNAL)
            p.fresh += 1
            Anew = z3.Array("Aadb!%d" % p.fresh, z3.IntSort(), z3.IntSort())
            b.arr = Anew
            b.len = newlen(base1, L2)
            rarr, roff = raw2.arr, raw2.off
            v_.facts.append(Forall("n-frame", 0, base1, lambda q: sel(Anew, q) == sel(Aold, q)))
            v_.facts.append(Forall("n-hdr", 0, nblocks(L2), lambda j: hdr(Anew, base1, L2, j)))
            v_.facts.append(Forall("n-pay", 0, L2, lambda i: pay(Anew, base1, rarr, roff, i)))
            st["nested"] = (base1, L2, Anew, Aold)
            return None
        v.contract(key, CallSpec(apply_adb, nested_only=st.get("nested_only", False)))
        return v

    def s_adb(self, env, cell):
        F = Files(env)
        p = cur()
        n0 = env.hole_int("n0", 0, 400000)
        L = env.hole_int("L", 0, 200000)
        B0 = z3.Array("B0", z3.IntSort(), z3.IntSort())
        RA = z3.Array("h_rawarr", z3.IntSort(), z3.IntSort())
        for k in range(0):
            pass
        cas = F.new(CAS, "CassetteFile")
        buf = ArrList(B0, n0)
        F.set(cas, "buffer", buf)
        raw = ArrList(RA, L)
        key = KEY + "append_data_blocks"
        st = {"L": L, "nested_only": True}
        v = self._adb_verifier(env, F, p, st)

        def mkspec():
            def init(ctx):
                ctx.saved["Apre"] = buf.arr
                return {}

            def havoc(ctx):
                p.fresh += 1
                buf.arr = z3.Array("Aloop!%d" % p.fresh, z3.IntSort(), z3.IntSort())
                buf.len = SymInt(z3.Int("blen!%d" % p.fresh))
                ctx.locals["checksum"] = SymInt(z3.Int("cks!%d" % p.fresh))
                return {}

            def inv(ctx, i, g):
                A, Apre = buf.arr, ctx.saved["Apre"]
                return [("length", buf.len == n0 + 4 + i),
                        Forall("own-pay", 0, i, lambda t, A=A: sel(A, n0 + 4 + t) == sel(RA, t)),
                        Forall("own-frame", 0, n0 + 4, lambda q, A=A: sel(A, q) == sel(Apre, q))]

            def step(ctx, i, g):
                return {}
            return LoopSpec(("C06", "C14"), init, havoc, inv, step)
        v.loop(key, 0, mkspec())
        v.loop(key, 1, mkspec())
        with v.installed():
            try:
                F.method(cas, "append_data_blocks", raw)
            except Raised as e:
                env.fail(key + "::raises:none", ("C06", "C14", "C13"), internal=INTERNAL)
                return
        A = buf.arr
        K = nblocks(L)
        env.ensure(key + "::post:array-form:length", buf.len == newlen(n0, L), ("C06", "C14"), internal=INTERNAL)
        facts = v.facts
        # positions of block 0's own bytes, for the frame instances of the nested call / the loop
        own = [n0, n0 + 1, n0 + 2, n0 + 3, n0 + 4 + blen(0, L), n0 + 4 + blen(0, L) + 1]
        prove_forall(env, p, key + "::post:array-form:frame", Forall("frame", 0, n0, lambda q: sel(A, q) == sel(B0, q)), facts, ("C06", "C14"),
                     extra_instances=lambda q: [q], internal=INTERNAL)
        prove_forall(env, p, key + "::post:array-form:block-headers", Forall("hdr", 0, K, lambda j: hdr(A, n0, L, j)), facts, ("C06", "C14"),
                     extra_instances=lambda j: [j - 1] + own, internal=INTERNAL)
        prove_forall(env, p, key + "::post:array-form:payload", Forall("pay", 0, L, lambda i: pay(A, n0, RA, 0, i)), facts, ("C06", "C14"),
                     extra_instances=lambda i: [i - 255, n0 + 4 + i, i], internal=INTERNAL)

    # ------------------------------------------------------------------ append_blank / append_leader, array form
    def s_run(self, env, cell):
        F = Files(env)
        p = cur()
        n0 = env.hole_int("n0", 0, 400000)
        B0 = z3.Array("B0", z3.IntSort(), z3.IntSort())
        cas = F.new(CAS, "CassetteFile")
        buf = ArrList(B0, n0)
        F.set(cas, "buffer", buf)
        key = KEY + cell["what"]
        g = self._measure(F)[cell["what"]]          # the format fixes no gap / leader length: the code's own constant is measured
        F.method(cas, cell["what"])
        A = buf.arr
        if cell["what"] == "append_leader":
            env.ensure(key + "::post:array-form:leader-not-empty", g >= 1, ("C06", "C14"), internal=INTERNAL)
        env.ensure(key + "::post:array-form:length", buf.len == n0 + g, ("C06", "C14"), internal=INTERNAL)
        prove_forall(env, p, key + "::post:array-form:frame", Forall("frame", 0, n0, lambda q: sel(A, q) == sel(B0, q)), [], ("C06", "C14"),
                     internal=INTERNAL)
        prove_forall(env, p, key + "::post:array-form:run", Forall("run", 0, g, lambda t: sel(A, n0 + t) == cell["value"]), [], ("C06", "C14"),
                     internal=INTERNAL)

    def _measure(self, F):
        """number of bytes append_blank / append_leader add (their array-form cells prove: that many, all 00 / all 55)"""
        out = {}
        for what in ("append_blank", "append_leader"):
            c = F.new(CAS, "CassetteFile")
            F.method(c, what)
            out[what] = len(F.get(c, "buffer"))
        return out

    def _run_contracts(self, v, p, st, lens):
        def mk_apply(value, g):
            def apply_run(v_, interp, func, args):
                b = interp.getattr_(args["self"], "buffer")
                base, Aold = b.len, b.arr
                p.fresh += 1
                Anew = z3.Array("Arun!%d" % p.fresh, z3.IntSort(), z3.IntSort())
                b.arr, b.len = Anew, base + g
                v_.facts.append(Forall("r-frame", 0, base, lambda q: sel(Anew, q) == sel(Aold, q)))
                v_.facts.append(Forall("r-run", 0, g, lambda t: sel(Anew, base + t) == value))
                st.setdefault("runs", []).append((base, value))
                return None
            return apply_run
        v.contract(KEY + "append_blank", CallSpec(mk_apply(0x00, lens["append_blank"])))
        v.contract(KEY + "append_leader", CallSpec(mk_apply(0x55, lens["append_leader"])))

    # ------------------------------------------------------------------ add_file output satisfies the reader's pre-condition
    def s_bridge(self, env, cell):
        F = Files(env)
        p = cur()
        n0 = env.hole_int("n0", 0, 400000)
        L = env.hole_int("L", 1, 200000)
        B0 = z3.Array("B0", z3.IntSort(), z3.IntSort())
        RA = z3.Array("h_rawarr", z3.IntSort(), z3.IntSort())
        cas = F.new(CAS, "CassetteFile")
        buf = ArrList(B0, n0)
        F.set(cas, "buffer", buf)
        data = ArrList(RA, L)
        name = "BRIDGE"
        # header VALUES for all types / addresses are append_header's contract (tape_writer fn/append_header, symbolic); this cell
        # is about POSITIONS, so the field values are fixed here
        ftype, dtype, load, exe = 2, 0x00, 0x1234, 0x5678
        f = F.coco_file(name, ftype, dtype, load, exe, data)
        st = {}
        v = self._adb_verifier(env, F, p, st)
        lens = self._measure(F)
        G = lens["append_blank"] + lens["append_leader"]
        self._run_contracts(v, p, st, lens)
        key = KEY + "add_file"
        with v.installed():
            try:
                F.method(cas, "add_file", f)
            except Raised as e:
                env.fail(key + "::raises:none", ("C06", "C14", "C13"), internal=INTERNAL)
                return
        if "nested" not in st:
            env.fail(key + "::bridge:append_data_blocks-called", ("C06",), internal=INTERNAL)
            return
        base, L2, Anew, Aold = st["nested"]
        A, n = buf.arr, buf.len
        H = n0 + G                         # gap + leader in front of the name-file block
        env.ensure(key + "::bridge:data-blocks-follow-second-leader", And(base == H + 21 + G, L2 == L), ("C06",), internal=INTERNAL)
        K = nblocks(L)
        p0 = H + 21
        wf = TapeReaderContracts.WF(A, n, p0, K, S=lambda j: Ite(j == K, newlen(base, L), base + 261 * j),
                                    OFF=lambda j: Ite(255 * j <= L, 255 * j, L), SD=lambda t: sel(RA, t))
        facts = v.facts
        frames = [f_ for f_ in facts if f_.name in ("n-frame", "r-frame")]
        runs = [f_ for f_ in facts if f_.name == "r-run"]
        env.ensure(key + "::bridge:two-gaps-two-leaders", len(st.get("runs", [])) == 4, ("C06",), internal=INTERNAL)

        def at(q):
            """instances at byte position q of every frame fact and of the four gap / leader runs"""
            out = [f_.instance(q) for f_ in frames]
            for (rb, _), f_ in zip(st.get("runs", []), runs):
                out.append(f_.instance(q - rb))
            return out
        # ---- the name-file block and the filler in front of it (read_file's pre-condition)
        hs = []
        for q in [H + k for k in range(21)]:
            hs += at(q)
        hdr_ok = And(sel(A, H) == 0x55, sel(A, H + 1) == 0x3C, sel(A, H + 2) == 0x00, H + 21 <= n)
        env.ensure(key + "::bridge:name-file-block", Implies(And(*hs), hdr_ok), ("C06",), internal=INTERNAL)
        codes = [ord(c) for c in name.ljust(8)]
        flds = And(*([sel(A, H + 4 + k) == codes[k] for k in range(8)] +
                     [sel(A, H + 12) == ftype, sel(A, H + 13) == dtype, sel(A, H + 15) == _hi(load), sel(A, H + 16) == _lo(load),
                      sel(A, H + 17) == _hi(exe), sel(A, H + 18) == _lo(exe)]))
        env.ensure(key + "::bridge:name-file-fields", Implies(And(*hs), flds), ("C06",), internal=INTERNAL)
        p.fresh += 1
        q0 = SymInt(z3.Int("fq!%d" % p.fresh))
        env.ensure(key + "::bridge:filler-before-name-file-block",
                   Implies(And(q0 >= n0, q0 < H, *at(q0)), Or(sel(A, q0) == 0x00, sel(A, q0) == 0x55)), ("C06",), internal=INTERNAL)
        p.fresh += 1
        qf = SymInt(z3.Int("fq!%d" % p.fresh))
        env.ensure(key + "::bridge:prior-buffer-untouched",
                   Implies(And(qf >= 0, qf < n0, *at(qf)), sel(A, qf) == sel(B0, qf)), ("C06", "C09"), internal=INTERNAL)
        # ---- WFblocks instances
        env.ensure(key + "::bridge:wf-base", wf.base(), ("C06",), internal=INTERNAL)
        eofpos = newlen(base, L)
        eof_terms = [eofpos + k for k in range(6)]

        def blk_terms(j):
            s = base + 261 * j
            return [j, j - 1, j + 1, s, s + 1, s + 2, s + 3] + eof_terms
        # the bytes behind the data blocks are the EOF block appended by append_eof (concrete stores on top of Anew)
        prove_forall(env, p, key + "::bridge:block-headers", Forall("n-hdr", 0, K + 1, lambda j: wf.blockhdr(j)),
                     [f_ for f_ in facts if f_.name in ("n-hdr",)], ("C06",), extra_instances=blk_terms, internal=INTERNAL)
        p.fresh += 1
        q1 = SymInt(z3.Int("fq!%d" % p.fresh))
        env.ensure(key + "::bridge:filler-before-blocks", Implies(And(q1 >= p0, q1 < base, *at(q1)), wf.filler(0, q1)), ("C06",),
                   internal=INTERNAL)
        p.fresh += 1
        jj = SymInt(z3.Int("bj!%d" % p.fresh))
        tt = SymInt(z3.Int("bt!%d" % p.fresh))
        i = 255 * jj + tt
        hyp = [jj >= 0, jj < K, tt >= 0, tt < wf.LN(jj)] + [f_.instance(i) for f_ in facts if f_.name == "n-pay"] + \
              [f_.instance(jj) for f_ in facts if f_.name == "n-hdr"]
        env.ensure(key + "::bridge:payload-map", Implies(And(*hyp), wf.payload(jj, tt)), ("C06",), internal=INTERNAL)
        env.ensure(key + "::bridge:total-length", And(wf.OFFf(K) == L, wf.Sf(K) + 6 == n), ("C06",), internal=INTERNAL)


    # ------------------------------------------------------------------ the inductive step over the number of files
    def s_stable(self, env, cell):
        """
        Every instance kind of read_file's pre-condition (tape_reader_contracts) that holds for a file lying inside a buffer
        (A, n) still holds in any buffer (A2, n2) that extends it (n <= n2, equal below n).  With the bridge cell (the new file's
        instances hold behind ANY prior buffer, the prior bytes are untouched, the file ends exactly at the new length) this is the
        step of the induction over the number of files:   all m < M files readable in B  ==>  all m <= M readable in add_file(B).
        Pure ghost-level lemma: no code is executed; the formulas are the very ones fn/read_file and fn/read_blocks assume.
        """
        p = cur()
        key = KEY + "add_files"
        I = lambda nm: SymInt(z3.Int(nm))
        n, n2, p0, H, K, j, q, t = I("st_n"), I("st_n2"), I("st_p0"), I("st_H"), I("st_K"), I("st_j"), I("st_q"), I("st_t")
        A, A2 = z3.Array("st_A", z3.IntSort(), z3.IntSort()), z3.Array("st_A2", z3.IntSort(), z3.IntSort())
        w1 = TapeReaderContracts.WF(A, n, H + 21, K, tag="st")
        w2 = TapeReaderContracts.WF(A2, n2, H + 21, K, tag="st")
        p.assume(And(n >= 0, n <= n2, p0 >= 0))

        def agree(x):
            return Implies(And(x >= 0, x < n), sel(A2, x) == sel(A, x))
        T = TapeReaderContracts
        # positions any instance may look at
        s_j, s_p = w1.Sf(j), w1.Sf(j - 1)
        pos = [s_j + k for k in range(4)] + [s_p + 3, q, s_j + 4 + t] + [H + k for k in range(21)]
        ag = [agree(x) for x in pos]
        # what is known about the file inside (A, n): the ground part and the instances at j-1, j (every j), q, t
        known = [T.rf_ground(A, n, p0, H, w1), w1.base(), w1.blockhdr(j), w1.blockhdr(j - 1), w1.filler(j, q), w1.payload(j, t),
                 T.rf_filler(A, p0, H, q)]
        hyp = And(*(known + ag))
        env.ensure(key + "::induction:ground-part-stable", Implies(hyp, And(T.rf_ground(A2, n2, p0, H, w2), w2.base())), ("C06", "C09"), internal=INTERNAL)
        env.ensure(key + "::induction:filler-before-name-file-stable", Implies(hyp, T.rf_filler(A2, p0, H, q)), ("C06", "C09"), internal=INTERNAL)
        env.ensure(key + "::induction:block-header-stable", Implies(hyp, w2.blockhdr(j)), ("C06", "C09"), internal=INTERNAL)
        env.ensure(key + "::induction:filler-between-blocks-stable", Implies(hyp, w2.filler(j, q)), ("C06", "C09"), internal=INTERNAL)
        env.ensure(key + "::induction:payload-map-stable", Implies(hyp, w2.payload(j, t)), ("C06", "C09"), internal=INTERNAL)
        # non-vacuity: the hypotheses are satisfiable with a non-trivial file (one data block of 2 bytes) and a real extension
        s = z3.Solver()
        s.set("timeout", 20000)
        zb = lambda c: c.e if hasattr(c, "e") else c
        s.add(zb(hyp), zb(And(K == 1, j == 0, n2 > n, t == 1, w1.LN(0) == 2)), *[zb(c) for c in p.pc])
        env.ensure(key + "::induction:hypotheses-satisfiable", s.check() == z3.sat, ("C06", "C09"), internal="vacuous lemma")


LEMMAS = [TapeBridge()]
