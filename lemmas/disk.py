"""
Disk image contracts and lemmas (C07, C08, C15).

Unbounded (function contracts, all lengths / all FAT and directory states):
  seek_granule                geometry == Disk BASIC layout, regions in the image, disjoint, off track 17
  calculate_*                 length identity  (g-1)*2304 + (s-1)*256 + b == stream length, ranges, minimality
  granule_fill_order          the allocation order covers every granule 0..67 (table lemma)
  find_empty_granule          returns a free granule; raises only if no granule 0..67 is free
  find_empty_directory_entry  returns a free slot; -1 only if none of the 72 is free
  granule_in_use / directory_entry_in_use   definition, range errors
Bounded (labelled, never counted as proved): byte layout + consistency + read-back for enumerated data lengths x
chain shapes x file kinds with SYMBOLIC contents; fill-to-full histories.
"""
import z3

from specs import diskbasic as db
from pyvc.filesh import Files, Raised
from pyvc.lists import ArrList
from pyvc.sym import SymInt, SStr, mk, mks, cur, branch, And, Or, Not
from pyvc import sym

DSK = "cocoasm.virtualfiles.disk"
KEY = "cocoasm/virtualfiles/disk.py::DiskFile."


def spec_offset(g):
    """Disk BASIC granule offset for int or SymInt g"""
    if isinstance(g, int):
        return db.offset(g)
    return g * db.GRANULE + sym.Ite(g >= 34, 2 * db.GRANULE, 0)


class DiskArith:
    name = "disk_arith"
    props = ("C07", "C08", "C15", "C13")

    def cells(self, tier):
        out = [{"id": "fn/seek_granule/offset"}, {"id": "fn/seek_granule/disjoint"}, {"id": "table/fill_order"},
               {"id": "fn/find_empty_granule/default"}, {"id": "fn/find_empty_granule/reversed"},
               {"id": "fn/find_empty_directory_entry"}, {"id": "fn/granule_in_use"}, {"id": "fn/directory_entry_in_use"}]
        for kind in ("ML", "BASIC", "ASCII"):
            out.append({"id": "fn/calculate/%s" % kind, "kind": kind})
        for c in out:
            c["fn"] = c["id"].split("/")[1]
        return out

    def run(self, env, cell):
        F = Files(env)
        native = env.mode == "native"
        getattr(self, "c_" + cell["id"].split("/")[1].replace("-", "_"))(env, cell, F, native)

    # ------------------------------------------------------------------ geometry
    def c_seek_granule(self, env, cell, F, native):
        D = F.cls(DSK, "DiskFile")
        g = env.hole_int("g", 0, 67)
        o = F.call(F.get(D, "seek_granule"), g)
        sig = lambda w: (lambda: "seek_granule:%s:g=%d" % (w, g)) if native else None
        if cell["id"].endswith("offset"):
            env.ensure(KEY + "seek_granule::post:offset", o == spec_offset(g), ("C07", "C08"), sig("offset=%s" % (o,)))
            env.ensure(KEY + "seek_granule::post:in-image", (o >= 0) & (o + db.GRANULE <= db.IMAGE_SIZE), ("C08",), sig("outside-image"))
            t17 = db.DIR_TRACK * db.TRACK
            env.ensure(KEY + "seek_granule::post:off-directory-track", (o + db.GRANULE <= t17) | (o >= t17 + db.TRACK), ("C08",),
                       sig("overlaps-track-17"))
        else:
            h = env.hole_int("h", 0, 67)
            env.assume(g != h) if native else env.assume(g != h)
            o2 = F.call(F.get(D, "seek_granule"), h)
            env.ensure(KEY + "seek_granule::post:disjoint", (o + db.GRANULE <= o2) | (o2 + db.GRANULE <= o), ("C08",),
                       (lambda: "overlap:g=%d,h=%d" % (g, h)) if native else None)

    # ------------------------------------------------------------------ arithmetic
    def c_calculate(self, env, cell, F, native):
        kind = cell["kind"]
        L = env.hole_int("L", 0, 65535)
        D = F.cls(DSK, "DiskFile")
        if kind == "ML":
            pre, post = F.new(DSK, "MLPreamble"), F.new(DSK, "Postamble")
            extra = 10
        elif kind == "BASIC":
            pre, post = F.new(DSK, "BasicPreamble"), None
            extra = 3
        else:
            pre, post = F.new(DSK, "ASCIIPreamble"), None
            extra = 0
        data = [0] * L if native else ArrList.fresh("d", L)
        T = L + extra
        g = F.call(F.get(D, "calculate_granules_needed"), data, pre, post)
        s = F.call(F.get(D, "calculate_last_granules_sectors_used"), data, pre, post)
        b = F.call(F.get(D, "calculate_last_sector_bytes_used"), data, pre, post)
        sig = lambda w: (lambda: "calculate/%s:%s:T%%2304=%d:g=%s,s=%s,b=%s" % (kind, w, T % 2304, g, s, b)) if native else None
        env.ensure(KEY + "calculate::post:length-identity", (g - 1) * 2304 + (s - 1) * 256 + b == T, ("C08", "C07"), sig("identity"))
        env.ensure(KEY + "calculate::post:sectors-range", (s >= 1) & (s <= 9), ("C08",), sig("sectors"))
        env.ensure(KEY + "calculate::post:bytes-range", (b >= 0) & (b <= 255), ("C08",), sig("bytes"))
        # minimum number of granules for T bytes, or one more when T is an exact multiple of a granule
        exact = (T % 2304 == 0)
        mn = (T + 2303) // 2304 if native else mks((sym._z(T) + 2303) / 2304)
        want_ok = sym.Ite(exact, (g == mn) | (g == mn + 1), g == mn) if not native else ((g in (mn, mn + 1)) if exact else g == mn)
        env.ensure(KEY + "calculate_granules_needed::post:minimal-or-one-more", want_ok & (g >= 1) if not native else (want_ok and g >= 1),
                   ("C15",), sig("granules"))

    # ------------------------------------------------------------------ tables
    def c_fill_order(self, env, cell, F, native):
        C = F.cls(DSK, "DiskConstants")
        order = list(F.get(C, "GRANULE_FILL_ORDER"))
        missing = sorted(set(range(68)) - set(order))
        dup = sorted({g for g in order if order.count(g) > 1})
        # every granule 0..67 must be reachable by the allocator (repeated entries are harmless: the granule is then in use)
        env.ensure("cocoasm/virtualfiles/disk.py::DiskConstants.GRANULE_FILL_ORDER::table:covers-0..67",
                   not missing and all(0 <= g <= 67 for g in order), ("C15",), lambda: "missing=%s" % (missing,))

    def _disk_with_fat(self, env, F, native, order=None):
        kw = {}
        if order is not None:
            kw["granule_fill_order"] = order
        d = F.new(DSK, "DiskFile", **kw)
        fat = env.hole_bytes("fat", 68)
        buf = F.get(d, "buffer")
        for g in range(68):
            buf[db.FAT_OFFSET + g] = fat[g]
        return d, fat

    def c_find_empty_granule(self, env, cell, F, native):
        order = None
        if cell["id"].endswith("reversed"):
            order = list(range(67, -1, -1))
        d, fat = self._disk_with_fat(env, F, native, order)
        tag = "find_empty_granule"
        nfree = sum(1 for x in fat if x == 0xFF) if native else None
        sig = lambda w: (lambda: "%s:%s:free=%s" % (tag, w, sorted(g for g in range(68) if fat[g] == 0xFF)[:6])) if native else None
        try:
            g = F.method(d, "find_empty_granule")
        except Raised as e:
            if e.cls != "VirtualFileValidationError":
                env.fail("C13:no-internal-error", ("C13",), sig("escape:%s" % e.cls))
                return
            ok = True
            for k in range(68):
                ok = ok & (fat[k] != 0xFF)
            env.ensure(KEY + "find_empty_granule::raises:only-when-full", ok, ("C15",), sig("raised-with-free-granule"))
            return
        env.ensure(KEY + "find_empty_granule::post:range", (g >= 0) & (g <= 67), ("C15", "C08"), sig("range"))
        if isinstance(g, int) and 0 <= g <= 67:
            env.ensure(KEY + "find_empty_granule::post:was-free", fat[g] == 0xFF, ("C15", "C08"), sig("not-free"))

    def c_find_empty_directory_entry(self, env, cell, F, native):
        d = F.new(DSK, "DiskFile")
        first = env.hole_bytes("dir", 72)
        buf = F.get(d, "buffer")
        for k in range(72):
            buf[db.DIR_OFFSET + 32 * k] = first[k]
        sig = lambda w: (lambda: "find_empty_directory_entry:%s:free=%s" % (w, [k for k in range(72) if first[k] in (0, 255)][:4])) if native else None
        try:
            r = F.method(d, "find_empty_directory_entry")
        except Raised as e:
            env.fail("C13:no-internal-error", ("C13",), sig("escape:%s" % e.cls))
            return
        if isinstance(r, int) and r == -1:
            ok = True
            for k in range(72):
                ok = ok & (first[k] != 0x00) & (first[k] != 0xFF)
            env.ensure(KEY + "find_empty_directory_entry::post:minus-one-only-when-full", ok, ("C15",), sig("minus-one-with-free-slot"))
            return
        env.ensure(KEY + "find_empty_directory_entry::post:range", (r >= 0) & (r <= 71), ("C15",), sig("range"))
        if isinstance(r, int) and 0 <= r <= 71:
            env.ensure(KEY + "find_empty_directory_entry::post:was-free", (first[r] == 0) | (first[r] == 0xFF), ("C15",), sig("not-free"))

    def c_granule_in_use(self, env, cell, F, native):
        d, fat = self._disk_with_fat(env, F, native)
        g = env.hole_int("g", -3, 70)
        sig = lambda w: (lambda: "granule_in_use:%s:g=%d" % (w, g)) if native else None
        try:
            r = F.method(d, "granule_in_use", g)
        except Raised as e:
            env.ensure(KEY + "granule_in_use::raises:out-of-range", (e.cls == "VirtualFileValidationError") and bool((g < 0) | (g > 67)),
                       ("C15", "C13"), sig("raised:%s" % e.cls))
            return
        inr = bool((g >= 0) & (g <= 67))
        if not inr:
            env.fail(KEY + "granule_in_use::raises:out-of-range", ("C15",), sig("no-error"))
            return
        k = g if isinstance(g, int) else None
        for kk in range(68):
            if bool(g == kk):
                k = kk
                break
        env.ensure(KEY + "granule_in_use::post:definition", sym.Ite(fat[k] != 0xFF, r is True or r == True, r is False or r == False)
                   if not native else (r == (fat[k] != 0xFF)), ("C15", "C08"), sig("definition"))

    def c_directory_entry_in_use(self, env, cell, F, native):
        d = F.new(DSK, "DiskFile")
        first = env.hole_bytes("dir", 72)
        buf = F.get(d, "buffer")
        for k in range(72):
            buf[db.DIR_OFFSET + 32 * k] = first[k]
        n = env.hole_int("n", -2, 74)
        sig = lambda w: (lambda: "directory_entry_in_use:%s:n=%d" % (w, n)) if native else None
        try:
            r = F.method(d, "directory_entry_in_use", n)
        except Raised as e:
            env.ensure(KEY + "directory_entry_in_use::raises:out-of-range", (e.cls == "VirtualFileValidationError") and bool((n < 0) | (n > 71)),
                       ("C15", "C13"), sig("raised:%s" % e.cls))
            return
        if not bool((n >= 0) & (n <= 71)):
            env.fail(KEY + "directory_entry_in_use::raises:out-of-range", ("C15",), sig("no-error"))
            return
        k = None
        for kk in range(72):
            if bool(n == kk):
                k = kk
                break
        want = (first[k] != 0) & (first[k] != 0xFF)
        env.ensure(KEY + "directory_entry_in_use::post:definition", (r == want) if native else mk(sym._zb(r) == sym._zb(want)),
                   ("C15",), sig("definition"))


LEMMAS = [DiskArith()]


# =============================================================================================== layout (bounded)

def _lens(tier):
    base = [0, 1, 2, 5, 40, 246, 250, 251, 253, 255, 256, 257, 2290, 2293, 2294, 2295, 2298, 2299, 2300, 2303, 2304, 2305, 2310,
            4597, 4598, 4599, 4603, 4608, 4609, 5000, 6902, 6912, 9206]
    if tier == "quick":
        return base
    # The per-length behaviour of writer and reader is proved for ALL lengths by the function contracts (disk_arith, disk_wtg,
    # disk_addfile, disk_reader).  The bounded family keeps every length within +-10 of a sector boundary in the first granule,
    # +-3 of the later sector boundaries, +-15 of every granule boundary up to 5 granules, and a sample of large files.
    s = set(range(0, 41))
    for m in range(0, 2561, 256):
        s.update(range(max(0, m - 10), m + 11))
    for m in range(2560, 11600, 256):
        s.update(range(m - 3, m + 4))
    for m in range(0, 11600, 2304):
        s.update(range(max(0, m - 15), m + 16))
    for m in range(11520, 65536, 2304 * 4):
        s.update((m - 10, m - 5, m - 1, m, m + 1))
    s.update((20000, 40000, 65535))
    return sorted(x for x in s if 0 <= x <= 65535)


ORDERS = {
    "default": None,
    "reversed": list(range(67, -1, -1)),
    "evenodd": list(range(0, 68, 2)) + list(range(1, 68, 2)),
    "cross": [32, 33, 34, 35] + [g for g in range(68) if g not in (32, 33, 34, 35)],
    "seeded": None,
}

# (file type, ASCII flag) of each kind; the framing follows the TYPE first: type 2 is header + data + trailer whatever the flag says,
# otherwise flag $FF means no framing, otherwise the 3-byte BASIC header
KINDS = {"ML": (2, 0x00), "BASIC": (0, 0x00), "ASCII": (1, 0xFF), "ML-FF": (2, 0xFF), "T1-00": (1, 0x00), "T3-FF": (3, 0xFF), "T3-00": (3, 0x00),
         "T0-FF": (0, 0xFF)}
AMBLE = {k: ((5, 5) if ft == 2 else (0, 0) if dt == 0xFF else (3, 0)) for k, (ft, dt) in KINDS.items()}
EXTRA_KINDS = ("ML-FF", "T1-00", "T3-FF", "T3-00", "T0-FF")


def _seeded_order(seed):
    import random
    r = random.Random(seed)
    o = list(range(68))
    r.shuffle(o)
    return o


class DiskLayout:
    """
    C07 / C08 / C15 on whole images -- BOUNDED stand-in: data lengths, chain shapes (fill orders, pre-existing files) and
    file kinds are enumerated; file CONTENTS are symbolic, so each cell covers every byte content of that shape.
    Oracles: specs/diskbasic.check (independent Disk BASIC consistency check, C08), specs/diskbasic.files (independent
    reader), the tool's own reader (C07), granule accounting (C15).
    """
    name = "disk_layout"
    props = ("C07", "C08", "C15", "C13", "C09")
    seed = 1

    def cells(self, tier):
        out = []
        for L in _lens(tier):
            for kind in ("ML", "BASIC", "ASCII"):
                if tier == "quick" and kind != "ML" and L not in (0, 1, 253, 256, 2299, 2301, 2304, 4603, 5000):
                    continue
                for order in ("default", "reversed", "evenodd", "cross", "seeded"):
                    if tier == "quick" and order in ("evenodd", "seeded") and L not in (2299, 4603, 5000):
                        continue
                    if tier == "thorough" and order in ("evenodd", "seeded") and not (L < 41 or L % 2304 <= 15 or L % 2304 >= 2304 - 15):
                        continue          # chain shapes matter where the stream crosses a granule boundary
                    out.append({"id": "write/%s/len%d/%s" % (kind, L, order), "k": "write", "kind": kind, "len": L, "order": order,
                                "bounded": "%s file of %d bytes, fill order %s" % (kind, L, order)})
        # every (type, ASCII flag) combination, at lengths around the first granule boundary of each framing
        for kind in EXTRA_KINDS:
            for L in ((0, 5, 2294, 2301, 2304) if tier == "quick" else (0, 1, 5, 255, 2293, 2294, 2295, 2300, 2301, 2302, 2303, 2304, 2305, 4603, 7000)):
                for order in (("default", "reversed") if tier == "quick" else ("default", "reversed", "cross")):
                    out.append({"id": "write/%s/len%d/%s" % (kind, L, order), "k": "write", "kind": kind, "len": L, "order": order,
                                "bounded": "%s file of %d bytes, fill order %s" % (kind, L, order)})
        for shape in ("two-files", "three-kinds", "fragmented"):
            for L in ([5, 2299, 4603] if tier == "quick" else [0, 5, 2294, 2299, 2304, 4603, 7000]):
                out.append({"id": "multi/%s/len%d" % (shape, L), "k": "multi", "shape": shape, "len": L,
                            "bounded": "%s, second file %d bytes" % (shape, L)})
        for order in ("reversed", "cross", "seeded", "evenodd"):
            for L in ([5000, 2299, 0] if tier == "quick" else [0, 1, 2294, 2295, 2299, 2304, 4603, 5000, 20000]):
                for kind in (("ML",) if tier == "quick" else ("ML", "BASIC", "ASCII")):
                    out.append({"id": "foreign/%s/len%d/%s" % (kind, L, order), "k": "foreign", "kind": kind, "len": L, "order": order,
                                "bounded": "foreign image, %s %d bytes, chain order %s" % (kind, L, order)})
        for h in ("small-files", "large-files", "mixed", "huge-ml", "huge-basic", "huge-ascii", "ten-thirteen", "fourteen-nine", "reopen-link-to-0", "ascii-70k"):
            out.append({"id": "fill/%s" % h, "k": "fill", "shape": h, "bounded": "one concrete history on the default fill order"})
        for c in out:
            # only the re-open history belongs to C09 as well
            c["props"] = ["C07", "C08", "C15", "C13"] + (["C09"] if c.get("shape", "").startswith("reopen") else [])
        return out

    def run(self, env, cell):
        F = Files(env)
        native = env.mode == "native"
        getattr(self, "k_" + cell["k"])(env, cell, F, native)

    def _order(self, name):
        if name == "seeded":
            return _seeded_order(self.seed)
        return ORDERS[name]

    def _file(self, env, F, tag, kind, L, name="PROG", ext="BIN", symbolic_addr=False):
        ftype, dtype = KINDS[kind]
        if symbolic_addr:
            load = env.hole_int(tag + "load", 0, 65535)
            exe = env.hole_int(tag + "exec", 0, 65535)
        else:
            load, exe = (0x0E00 + 7 * L) % 65536, (0x1234 + L) % 65536
        data = env.hole_bytes(tag + "data", L)
        return F.coco_file(name, ftype, dtype, load, exe, list(data), extension=ext), (name, ext, ftype, dtype, load, exe, data)

    # ---- oracles
    def _check_image(self, env, image, wants, native, sigpfx, props=("C08",)):
        """C08 clauses on one image; returns the checked file list or None"""
        def sig(w):
            return (lambda: "%s:%s" % (sigpfx, w)) if native else None
        env.ensure("C08:image-size", len(image) == db.IMAGE_SIZE, props, sig("size=%d" % len(image)))
        fresh = db.blank()
        try:
            fs = db.check(image, fresh=fresh)
        except db.DiskFormatError as e:
            msg = str(e)
            import re
            env.fail("C08:consistent", props, sig("inconsistent:%s" % re.sub(r"\d+", "N", msg)))
            return None
        env.ensure("C08:consistent", True, props)
        if len(fs) != len(wants):
            env.fail("C08:files", props, sig("entries=%d,want=%d" % (len(fs), len(wants))))
            return None
        for j, (f, w) in enumerate(zip(fs, wants)):
            name, ext, ftype, dtype, load, exe, data = w
            pre, post = (5, 5) if ftype == 2 else ((0, 0) if dtype == 0xFF else (3, 0))
            env.ensure("C08:length-identity", f["length"] == len(data) + pre + post, props,
                       sig("implied-length=%d,stream=%d@%d" % (f["length"], len(data) + pre + post, j)))
            if f["length"] != len(data) + pre + post:
                continue
            try:
                dl, de, dd = db.decode_file(image, f)
            except db.DiskFormatError as e:
                import re
                env.fail("C08:stream", props, sig("stream:%s@%d" % (re.sub(r"\d+", "N", str(e)), j)))
                continue
            ok = True
            if ftype == 2:
                ok = ok & (dl == load) & (de == exe)
            if len(dd) != len(data):
                env.fail("C08:stream", props, sig("stream-data-length@%d" % j))
                continue
            for x, y in zip(dd, data):
                if x is y:
                    continue
                ok = ok & (x == y)
            env.ensure("C08:stream", ok, props, sig("stream-content@%d" % j))
        return fs

    def _read_back(self, env, F, image, wants, native, sigpfx, clause="C07:roundtrip", props=("C07",)):
        def sig(w):
            return (lambda: "%s:%s" % (sigpfx, w)) if native else None
        try:
            rd = F.new(DSK, "DiskFile", buffer=list(image))
            got = list(F.method(rd, "list_files"))
        except Raised as e:
            if e.cls == "VirtualFileValidationError":
                import re
                env.fail(clause, props, sig("reader-raised:%s" % re.sub(r"\d+", "N", e.msg)))
            else:
                env.fail("C13:no-internal-error", ("C13", "C07"), sig("reader-escape:%s" % e.cls))
            return
        if len(got) != len(wants):
            env.fail(clause, props, sig("file-count=%d,want=%d" % (len(got), len(wants))))
            return
        for j, (g, w) in enumerate(zip(got, wants)):
            name, ext, ftype, dtype, load, exe, data = w
            gn, ge = F.get(g, "name"), F.get(g, "extension")
            ok = (str(gn).upper().strip() == name.upper()[:8]) and (str(ge).upper().ljust(3) == ext.upper().ljust(3)[:3])
            env.ensure(clause + ":name", ok, props, sig("name=%r.%r@%d" % (gn, ge, j)))
            okf = (F.intval(F.get(g, "type")) == ftype) & (F.intval(F.get(g, "data_type")) == dtype)
            if ftype == 2:
                la, ea = F.get(g, "load_addr"), F.get(g, "exec_addr")
                if F.is_none_value(la) or F.is_none_value(ea):
                    okf = False
                else:
                    okf = okf & (F.intval(la) == load) & (F.intval(ea) == exe)
            env.ensure(clause + ":fields", okf, props, sig("fields@%d" % j))
            gd = list(F.get(g, "data"))
            if len(gd) != len(data):
                env.fail(clause + ":data", props, sig("data-length=%d,want=%d@%d" % (len(gd), len(data), j)))
                continue
            okd = True
            for x, y in zip(gd, data):
                if x is y:
                    continue
                okd = okd & (x == y)
            env.ensure(clause + ":data", okd, props, sig("data-content@%d" % j))

    def _features(self, image, wants):
        """root-cause features of a cell's image for failure signatures: is some chain physically non-adjacent, is there an
        empty file, does some ML trailer straddle a granule end"""
        adj = "yes"
        try:
            for e in db.entries(image):
                ch, _ = db.chain(image, e["first"])
                if any(db.offset(b) != db.offset(a) + db.GRANULE for a, b in zip(ch, ch[1:])):
                    adj = "no"
        except Exception:  # noqa
            adj = "unknown"
        empty = "yes" if any(len(w[6]) == 0 for w in wants) else "no"
        strad = "yes" if any(w[2] == 2 and (len(w[6]) + 10) % 2304 in (1, 2, 3, 4) for w in wants) else "no"
        # where does the 5-byte trailer of an ML file start: inside the granule that holds the last data byte, or -- when the
        # data ends exactly at a granule end -- at the start of the next granule of the chain (physically adjacent or not)
        trailer = "inside"
        try:
            for e in db.entries(image):
                if e["ftype"] != 2:
                    continue
                ch, _ = db.chain(image, e["first"])
                o = db.offset(ch[0])
                ln = image[o + 1] * 256 + image[o + 2]            # data length from the ML preamble
                if ln > 0 and (ln + 5) % db.GRANULE == 0:
                    m = (ln + 5) // db.GRANULE
                    if m < len(ch) and trailer != "next-far":
                        trailer = "next-adjacent" if db.offset(ch[m]) == db.offset(ch[m - 1]) + db.GRANULE else "next-far"
        except Exception:  # noqa
            trailer = "unknown"
        return "adj=%s,empty=%s,straddle=%s,trailer=%s" % (adj, empty, strad, trailer)

    def _granules_used(self, image):
        return sum(1 for g in range(68) if image[db.FAT_OFFSET + g] != 0xFF)

    def k_write(self, env, cell, F, native):
        kind, L, order = cell["kind"], cell["len"], cell["order"]
        f, w = self._file(env, F, "f", kind, L, symbolic_addr=(L <= 5))
        kw = {}
        o = self._order(order)
        if o is not None:
            kw["granule_fill_order"] = o
        sigpfx = "write/%s/len%%2304=%d/%s" % (kind, (L + sum(AMBLE[kind])) % 2304, order)
        d = F.new(DSK, "DiskFile", **kw)
        try:
            F.method(d, "add_files", [f])
        except Raised as e:
            env.fail("C15:stored" if e.cls == "VirtualFileValidationError" else "C13:no-internal-error",
                     ("C15", "C07") if e.cls == "VirtualFileValidationError" else ("C13",),
                     (lambda: "%s:writer-raised:%s" % (sigpfx, e.cls)) if native else None)
            return
        image = F.get(d, "buffer")
        image = list(image)
        if native:
            sigpfx = sigpfx + "/" + self._features(image, [w])
        fs = self._check_image(env, image, [w], native, sigpfx)
        T = L + sum(AMBLE[kind])
        mn = max(1, -(-T // 2304))
        used = self._granules_used(image)
        env.ensure("C15:granules-used", used == mn or (T % 2304 == 0 and used == mn + 1), ("C15",),
                   (lambda: "%s:used=%d,min=%d" % (sigpfx, used, mn)) if native else None)
        self._read_back(env, F, image, [w], native, sigpfx)

    def k_multi(self, env, cell, F, native):
        shape, L = cell["shape"], cell["len"]
        if shape == "two-files":
            specs = [("ONE", "BIN", "ML", 2299), ("TWO", "BIN", "ML", L)]
            order = None
        elif shape == "three-kinds":
            specs = [("A", "BAS", "BASIC", 300), ("B", "TXT", "ASCII", L), ("C", "BIN", "ML", 2294)]
            order = None
        else:
            specs = [("FRAG", "BIN", "ML", 2304 * 2), ("SECOND", "BIN", "ML", L)]
            order = [0, 5, 1, 9, 33, 40, 34, 2] + [g for g in range(68) if g not in (0, 5, 1, 9, 33, 40, 34, 2)]
        files = [self._file(env, F, "f%d" % j, kind, n, name=nm, ext=ext) for j, (nm, ext, kind, n) in enumerate(specs)]
        kw = {"granule_fill_order": order} if order else {}
        sigpfx = "multi/%s/len%d" % (shape, L)
        d = F.new(DSK, "DiskFile", **kw)
        try:
            F.method(d, "add_files", [f[0] for f in files])
        except Raised as e:
            env.fail("C15:stored" if e.cls == "VirtualFileValidationError" else "C13:no-internal-error", ("C15", "C07", "C13"),
                     (lambda: "%s:writer-raised:%s" % (sigpfx, e.cls)) if native else None)
            return
        image = list(F.get(d, "buffer"))
        if native:
            sigpfx = sigpfx + "/" + self._features(image, [f[1] for f in files])
        self._check_image(env, image, [f[1] for f in files], native, sigpfx)
        self._read_back(env, F, image, [f[1] for f in files], native, sigpfx)

    def k_foreign(self, env, cell, F, native):
        kind, L, order = cell["kind"], cell["len"], cell["order"]
        ftype, dtype = KINDS[kind]
        data = env.hole_bytes("data", L)
        load, exe = 0x2000, 0x2010
        image = db.build([("FOREIGN", "BIN", ftype, dtype, load, exe, data)], order=self._order(order))
        w = ("FOREIGN", "BIN", ftype, dtype, load, exe, data)
        T = L + sum(AMBLE[kind])
        sigpfx = "foreign/%s/len%%2304=%d/%s" % (kind, T % 2304, order)
        if native:
            sigpfx = sigpfx + "/" + self._features(image, [w])
        self._read_back(env, F, image, [w], native, sigpfx, clause="C07:foreign")

    def k_fill(self, env, cell, F, native):
        shape = cell["shape"]
        if shape == "small-files":
            sizes = [1] * 72
        elif shape == "large-files":
            sizes = [2304 * 4 - 10] * 17        # 17 x 4 granules = 68
        elif shape == "mixed":
            sizes = [5000, 1, 2299, 20000, 3, 2304, 40000, 7, 30000, 2294, 9000, 12000, 11000, 10, 2000]
        # single files / short histories whose allocation runs far along the DEFAULT fill order (which names four granules twice)
        elif shape == "huge-ml":
            sizes = [23 * 2304 - 20]
        elif shape == "huge-basic":
            sizes = [("BASIC", 60000), ("ML", 300)]
        elif shape == "huge-ascii":
            sizes = [("ASCII", 65535), ("BASIC", 2301)]
        elif shape == "ten-thirteen":
            sizes = [10 * 2304 - 20, 13 * 2304 - 20, ("ASCII", 2304)]
        elif shape == "ascii-70k":
            # the one kind of file that can be longer than 64K: no length field in its stream
            sizes = [("ASCII", 69120), 300, ("ASCII", 92415 - 69120)]
        elif shape == "reopen-link-to-0":
            # a nearly full disk: the fourth file's chain runs from granule 61 into granule 0 (table entry $00 = link to granule 0);
            # the image is re-opened from its bytes before every addition, as --append does
            sizes = [28 * 2304 - 20, 28 * 2304 - 20, ("BASIC", 3 * 2304 - 20), 2 * 2304 - 20, 100, ("ASCII", 40)]
        else:
            sizes = [14 * 2304 - 20, ("BASIC", 9 * 2304 - 20), 100]
        files = []
        for j, n in enumerate(sizes):
            kind, n = n if isinstance(n, tuple) else ("ML", n)
            ft, dt = KINDS[kind]
            files.append(("F%d" % j, "BIN", ft, dt, 0x1000 + j, 0x1000 + j, [(j + 3 * i) % 256 for i in range(n)]))
        objs = [F.coco_file(nm, ft, dt, la, ea, list(da), extension=ext) for (nm, ext, ft, dt, la, ea, da) in files]
        sigpfx = "fill/%s" % shape
        stored = 0
        accounting_failed = False
        last_good = None
        d = F.new(DSK, "DiskFile")
        free_g, free_s = 68, 72
        for j, o in enumerate(objs):
            if shape.startswith("reopen") and j > 0:
                d = F.new(DSK, "DiskFile", buffer=list(F.get(d, "buffer")))
            amble = 10 if files[j][2] == 2 else (0 if files[j][3] == 0xFF else 3)
            need = max(1, -(-(len(files[j][6]) + amble) // 2304))
            fits = need <= free_g and free_s >= 1
            try:
                F.method(d, "add_file", o)
                ok = True
            except Raised as e:
                ok = False
                if e.cls != "VirtualFileValidationError":
                    # (a file that fits is not stored: that is C15's clause too, whatever the exception class)
                    env.fail("C13:no-internal-error", ("C13", "C15"), (lambda: "%s:escape:%s" % (sigpfx, e.cls)) if native else None)
                    return
            if fits and not ok:
                env.fail("C15:fits-is-stored", ("C15",), (lambda: "%s:rejected-with-%d-free-granules-%d-free-slots-needing-%d" %
                                                          (sigpfx, free_g, free_s, need)) if native else None)
                return
            if ok and not fits:
                env.fail("C15:overfull-fails", ("C15",), (lambda: "%s:accepted-without-space" % sigpfx) if native else None)
                return
            if ok:
                extra = 1 if (len(files[j][6]) + amble) % 2304 == 0 else 0
                free_g -= need
                free_s -= 1
                stored += 1
                last_good = list(F.get(d, "buffer"))
                used = self._granules_used(last_good)
                if not (68 - free_g <= used <= 68 - free_g + extra):
                    env.fail("C15:granules-used", ("C15",), (lambda: "%s:used=%d,expected=%d" % (sigpfx, used, 68 - free_g)) if native else None)
                    accounting_failed = True        # (the image is still examined below: what C08 / C07 / C09 say about it)
                free_g = 68 - used
            else:
                break
        env.ensure("C15:fits-is-stored", True, ("C15",))
        env.ensure("C15:overfull-fails", True, ("C15",))
        if not accounting_failed:
            env.ensure("C15:granules-used", True, ("C15",))
        # the image at the end of the history is a consistent Disk BASIC image holding exactly the stored files, and lists as them
        # (the image as of the last successful addition: after a refused addition the tool discards the object without writing it --
        # VirtualFile.save_virtual_file raises before write_file --, so the 0x99 allocation marks a refused add_file leaves in the
        # in-memory table never reach a file)
        image = last_good if stored else list(F.get(d, "buffer"))
        self._check_image(env, image, files[:stored], native, sigpfx, props=("C08", "C07", "C09"))
        self._read_back(env, F, image, files[:stored], native, sigpfx, props=("C07", "C09") if shape.startswith("reopen") else ("C07",))


LEMMAS.append(DiskLayout())


# =============================================================================================== unbounded writer pieces

from pyvc.contracts import Verifier, LoopSpec, CallSpec, Forall, prove_forall
from pyvc.sym import SymChar, Implies

N = db.IMAGE_SIZE


class DiskWriterFns:
    """
    Function contracts on the disk writer with the image as a z3 array (all pointers, slots, granule numbers and byte
    values symbolic; data length symbolic where a loop invariant is given):
      write_bytes_to_buffer   for all lengths n and pointers p:  A'[p+j] == d[j] (j<n), everything else unchanged, returns p+n
      write_to_fat            chain links, terminator $C0+s, frame           (chain length k enumerated 1..5, granules symbolic)
      write_dir_entry         the 32-byte entry layout at any slot, frame    (name / extension lengths enumerated, characters symbolic)
      MLPreamble / BasicPreamble / Postamble .write / .read   field layout, frame, pointer advance
    """
    name = "disk_writer_fns"
    props = ("C08", "C07", "C13")
    max_paths = 3000

    def cells(self, tier):
        out = [{"id": "fn/write_bytes_to_buffer", "fn": "wbtb"}]
        for k in (1, 2, 3, 5):
            out.append({"id": "fn/write_to_fat/k%d" % k, "fn": "fat", "k": k, "bounded": None})
        out.append({"id": "fn/write_to_fat/any-length", "fn": "fatn"})
        for nl, el in ((0, 0), (1, 3), (5, 3), (8, 3), (9, 2), (12, 4)):
            out.append({"id": "fn/write_dir_entry/name%d.ext%d" % (nl, el), "fn": "dir", "nl": nl, "el": el})
        for cls in ("MLPreamble", "BasicPreamble", "Postamble"):
            out.append({"id": "fn/%s.write" % cls, "fn": "amble_write", "cls": cls})
            out.append({"id": "fn/%s.read" % cls, "fn": "amble_read", "cls": cls})
        return out

    def run(self, env, cell):
        if env.mode == "native":
            return self.native(env, cell)
        getattr(self, "s_" + cell["fn"])(env, cell, Files(env))

    # native counterparts: run the real function on the model's concrete values and check the same post-condition pointwise
    def native(self, env, cell):
        F = Files(env)
        fn = cell["fn"]
        h = env.holes
        d = F.new(DSK, "DiskFile")
        buf = F.get(d, "buffer")
        base = list(buf)
        if fn == "wbtb":
            data = list(h.get("data", []))
            p0 = h.get("p0", 0)
            r = F.method(d, "write_bytes_to_buffer", p0, data)
            ok = r == p0 + len(data) and all(buf[p0 + j] == data[j] for j in range(len(data))) and \
                all(buf[q] == base[q] for q in range(N) if not p0 <= q < p0 + len(data))
            env.ensure(KEY + "write_bytes_to_buffer::post", ok, ("C08", "C07"), lambda: "write_bytes_to_buffer:n=%d" % len(data))
        elif fn in ("fat", "fatn"):
            gs = [h["g%d" % j] for j in range(cell["k"])] if fn == "fat" else list(h.get("chain", []))[:h.get("k", 0)]
            if len(set(gs)) != len(gs) or any(not 0 <= g <= 67 for g in gs) or not gs:
                raise sym.PathAbort()
            s_ = h.get("s", 1)
            F.method(d, "write_to_fat", list(gs), s_)
            ok = all(buf[db.FAT_OFFSET + gs[j]] == gs[j + 1] for j in range(len(gs) - 1)) and buf[db.FAT_OFFSET + gs[-1]] == 0xC0 + s_ and \
                all(buf[q] == base[q] for q in range(N) if q not in [db.FAT_OFFSET + g for g in gs])
            env.ensure(KEY + "write_to_fat::post", ok, ("C08",), lambda: "write_to_fat:k=%d" % len(gs))
        elif fn == "dir":
            nl, el = cell["nl"], cell["el"]
            name = "".join(chr(h.get("nm%d" % j, 65 + j)) for j in range(nl))
            ext = "".join(chr(h.get("ex%d" % j, 66 + j)) for j in range(el))
            ftype, dtype, slot, g, lb = h.get("type", 2), [0, 0xFF][h.get("dtype", 0)] if h.get("dtype", 0) in (0, 1) else h.get("dtype", 0), \
                h.get("slot", 3), h.get("first", 5), h.get("lastbytes", 7)
            f = F.coco_file(name, ftype, dtype, 0, 0, [], extension=ext)
            F.method(d, "write_dir_entry", slot, f, g, lb)
            b0 = db.DIR_OFFSET + 32 * slot
            want = [ord(c) for c in name.upper()[:8].ljust(8)] + [ord(c) for c in ext.upper()[:3].ljust(3)] + [ftype, dtype, g, lb // 256, lb % 256] + [0] * 16
            got = [buf[b0 + j] for j in range(32)]
            env.ensure(KEY + "write_dir_entry::post:layout", got == want, ("C08", "C07"),
                       lambda: "write_dir_entry:name%d.ext%d:%s" % (nl, el, "name" if got[:8] != want[:8] else "extension" if got[8:11] != want[8:11] else "fields"))
            env.ensure(KEY + "write_dir_entry::post:frame", all(buf[q] == base[q] for q in range(N) if not b0 <= q < b0 + 32), ("C08",),
                       lambda: "write_dir_entry:frame")
        elif fn == "amble_write":
            cls = cell["cls"]
            o = F.new(DSK, cls)
            vals = {"len": h.get("dlen", 0x0102), "load": h.get("load", 0x1234), "exec": h.get("exec", 0x5678)}
            if cls in ("MLPreamble", "BasicPreamble"):
                F.set(o, "data_length", F.numeric(vals["len"]))
            if cls == "MLPreamble":
                F.set(o, "load_addr", F.numeric(vals["load"]))
            if cls == "Postamble":
                F.set(o, "exec_addr", F.numeric(vals["exec"]))
            want = self._amble_bytes(cls, vals)
            ptr = h.get("ptr", 100)
            key = "cocoasm/virtualfiles/disk.py::%s.write" % cls
            img = [0xEE] * N
            try:
                r = F.method(o, "write", img, ptr)
            except Raised as e:
                env.ensure(key + "::raises:only-when-no-room", e.cls == "VirtualFileValidationError" and ptr + len(want) > N, ("C08", "C13"),
                           lambda: "%s.write:raised:%s" % (cls, e.cls))
                return
            env.ensure(key + "::pre:room", ptr + len(want) <= N, ("C08",), lambda: "%s.write:no-room-accepted" % cls)
            env.ensure(key + "::post:returns-end", r == ptr + len(want), ("C08", "C07"), lambda: "%s.write:returns=%s" % (cls, r))
            env.ensure(key + "::post:layout", img[ptr:ptr + len(want)] == want, ("C08", "C07"), lambda: "%s.write:layout" % cls)
            env.ensure(key + "::post:frame", all(img[q] == 0xEE for q in range(N) if not ptr <= q < ptr + len(want)), ("C08",),
                       lambda: "%s.write:frame" % cls)
        elif fn == "amble_read":
            cls = cell["cls"]
            o = F.new(DSK, cls)
            ln = 3 if cls == "BasicPreamble" else 5
            ptr = h.get("ptr", 100)
            bs = [h.get("b%d" % j, [0x00, 1, 2, 3, 4][j] if cls == "MLPreamble" else [0xFF, 0, 0, 3, 4][j]) for j in range(ln)]
            img = [0xEE] * N
            for j, b in enumerate(bs):
                if ptr + j < N:
                    img[ptr + j] = b
            before = list(img)
            key = "cocoasm/virtualfiles/disk.py::%s.read" % cls
            flag_ok = (bs[0] == 0x00) if cls == "MLPreamble" else ((bs[0] == 0xFF) if cls == "BasicPreamble" else (bs[0] == 0xFF and bs[1] == 0 and bs[2] == 0))
            try:
                r = F.method(o, "read", img, ptr)
            except Raised as e:
                env.ensure(key + "::raises:only-malformed-or-short", e.cls == "VirtualFileValidationError" and (ptr + ln > N or not flag_ok), ("C07", "C13"),
                           lambda: "%s.read:raised:%s" % (cls, e.cls))
                return
            env.ensure(key + "::post:accepts-only-wellformed", ptr + ln <= N and flag_ok, ("C07",), lambda: "%s.read:accepted-malformed" % cls)
            env.ensure(key + "::post:returns-end", r == ptr + ln, ("C07",), lambda: "%s.read:returns=%s" % (cls, r))
            if cls in ("MLPreamble", "BasicPreamble"):
                env.ensure(key + "::post:data-length", F.intval(F.get(o, "data_length")) == bs[1] * 256 + bs[2], ("C07",), lambda: "%s.read:data-length" % cls)
            if cls == "MLPreamble":
                env.ensure(key + "::post:load", F.intval(F.get(o, "load_addr")) == bs[3] * 256 + bs[4], ("C07",), lambda: "%s.read:load" % cls)
            if cls == "Postamble":
                env.ensure(key + "::post:exec", F.intval(F.get(o, "exec_addr")) == bs[3] * 256 + bs[4], ("C07",), lambda: "%s.read:exec" % cls)
            env.ensure(key + "::post:buffer-unchanged", img == before, ("C07", "C08"), lambda: "%s.read:buffer-modified" % cls)
        else:
            env.ensure(KEY + "native-replay-not-implemented", True, ())

    # ------------------------------------------------------------------
    def _disk(self, env, F):
        d = F.new(DSK, "DiskFile")
        A0 = z3.Array("A0", z3.IntSort(), z3.IntSort())
        buf = ArrList(A0, N)
        F.set(d, "buffer", buf)
        return d, buf, A0

    def s_wbtb(self, env, cell, F):
        d, buf, A0 = self._disk(env, F)
        n = env.hole_int("n", 0, 65535)
        p0 = env.hole_int("p0", 0, N)
        env.assume(p0 + n <= N)
        D = z3.Array("h_dataarr", z3.IntSort(), z3.IntSort())
        data = ArrList(D, n)
        env.hole_terms["data"] = ("arr", D, n.e if isinstance(n, SymInt) else z3.IntVal(n))
        key = KEY + "write_bytes_to_buffer"
        v = Verifier(env, F.it)

        def init(ctx):
            return {}

        def havoc(ctx):
            p = cur()
            p.fresh += 1
            buf.arr = z3.Array("A!%d" % p.fresh, z3.IntSort(), z3.IntSort())
            ctx.locals["pointer"] = SymInt(z3.Int("ptr!%d" % p.fresh))
            return {}

        def inv(ctx, i, g):
            A = buf.arr
            return [("pointer", ctx.locals["pointer"] == p0 + i),
                    Forall("written", 0, i, lambda q: mk(z3.Select(A, sym._z(p0 + q)) == z3.Select(D, sym._z(q)))),
                    Forall("frame", 0, N, lambda q: Implies(Or(q < p0, q >= p0 + i), mk(z3.Select(A, sym._z(q)) == z3.Select(A0, sym._z(q)))))]

        def step(ctx, i, g):
            return {}
        v.loop(key, 0, LoopSpec(("C08", "C07"), init, havoc, inv, step))
        with v.installed():
            try:
                r = F.method(d, "write_bytes_to_buffer", p0, data)
            except Raised as e:
                env.fail(key + "::raises:none-in-range", ("C08", "C13"))
                return
        p = cur()
        A = buf.arr
        env.ensure(key + "::post:returns-end", r == p0 + n, ("C08", "C07"))
        facts = v.facts
        if not branch(n > 0):
            # zero iterations: nothing was cut; the buffer is untouched
            env.ensure(key + "::post:frame", mk(A == A0) if not A.eq(A0) else True, ("C08",))
            env.ensure(key + "::post:written", True, ("C08", "C07"))
            return
        prove_forall(env, p, key + "::post:written", Forall("written", 0, n, lambda q: mk(z3.Select(A, sym._z(p0 + q)) == z3.Select(D, sym._z(q)))),
                     [f for f in facts if f.name == "written"], ("C08", "C07"))
        prove_forall(env, p, key + "::post:frame", Forall("frame", 0, N, lambda q: Implies(Or(q < p0, q >= p0 + n),
                     mk(z3.Select(A, sym._z(q)) == z3.Select(A0, sym._z(q))))), [f for f in facts if f.name == "frame"], ("C08",))

    def s_fat(self, env, cell, F):
        k = cell["k"]
        d, buf, A0 = self._disk(env, F)
        gs = [env.hole_int("g%d" % j, 0, 67) for j in range(k)]
        for a in range(k):
            for b in range(a + 1, k):
                env.assume(gs[a] != gs[b])
        s_ = env.hole_int("s", 0, 9)
        key = KEY + "write_to_fat"
        try:
            F.method(d, "write_to_fat", list(gs), s_)
        except Raised as e:
            env.fail(key + "::raises:none", ("C08", "C13"))
            return
        A = buf.arr
        for j in range(k - 1):
            env.ensure(key + "::post:link", mk(z3.Select(A, sym._z(db.FAT_OFFSET + gs[j])) == sym._z(gs[j + 1])), ("C08",))
        env.ensure(key + "::post:terminator", mk(z3.Select(A, sym._z(db.FAT_OFFSET + gs[-1])) == sym._z(0xC0 + s_)), ("C08",))
        cond = lambda q: Implies(And(*[q != db.FAT_OFFSET + g for g in gs]), mk(z3.Select(A, sym._z(q)) == z3.Select(A0, sym._z(q))))
        prove_forall(env, cur(), key + "::post:frame", Forall("frame", 0, N, cond), [], ("C08",))

    def s_fatn(self, env, cell, F):
        """write_to_fat for a chain of ANY length k (1..68): granule list as an array, distinctness through an injectivity ghost
        P with P[G[j]] == j; loop invariant: links written so far + frame expressed with P (quantifier-free in the slot)"""
        d, buf, A0 = self._disk(env, F)
        k = env.hole_int("k", 1, 68)
        GA = z3.Array("h_chain", z3.IntSort(), z3.IntSort())
        P = z3.Array("Pinj", z3.IntSort(), z3.IntSort())
        G = ArrList(GA, k)
        env.hole_terms["chain"] = ("arr", GA, k.e if isinstance(k, SymInt) else z3.IntVal(k))
        s_ = env.hole_int("s", 0, 9)
        key = KEY + "write_to_fat"
        FAT = db.FAT_OFFSET
        g = lambda j: SymInt(z3.Select(GA, sym._z(j)))

        def pre(j):          # precondition instance at chain position j: in range and injective
            return And(g(j) >= 0, g(j) <= 67, mk(z3.Select(P, sym._z(g(j))) == sym._z(j)))

        def written(q, i, A=None):
            r = q - FAT
            pr = SymInt(z3.Select(P, sym._z(r)))
            return And(q >= FAT, q < FAT + 68, pr >= 0, pr < i, mk(z3.Select(GA, pr.e) == sym._z(r)))
        v = Verifier(env, F.it)

        def init(ctx):
            return {}

        def havoc(ctx):
            p = cur()
            p.fresh += 1
            buf.arr = z3.Array("A!%d" % p.fresh, z3.IntSort(), z3.IntSort())
            return {}

        def inv(ctx, i, gh):
            A = buf.arr
            return [Forall("links", 0, i, lambda j: mk(z3.Select(A, sym._z(FAT + g(j))) == sym._z(g(j + 1)))),
                    Forall("frame", 0, N, lambda q: Implies(sym.Not(written(q, i)), mk(z3.Select(A, sym._z(q)) == z3.Select(A0, sym._z(q)))))]

        def step(ctx, i, gh):
            return {}

        def hyps(ctx, i, q):
            # named instances of the precondition: at the current chain position, and at q when q is a chain position
            hs = [pre(i), Implies(And(q >= 0, q < k), pre(q))]
            r = q - FAT
            pr = SymInt(z3.Select(P, sym._z(r)))
            hs.append(Implies(And(pr >= 0, pr < k), pre(pr)))
            return hs
        v.loop(key, 0, LoopSpec(("C08",), init, havoc, inv, step, hyps=hyps, assume=lambda ctx, i: [pre(i), pre(i + 1)]))
        cur().assume(pre(0))
        cur().assume(pre(k - 1))
        with v.installed():
            try:
                F.method(d, "write_to_fat", G, s_)
            except Raised as e:
                env.fail(key + "::raises:none", ("C08", "C13"))
                return
        A = buf.arr
        p = cur()
        facts = v.facts
        last = g(k - 1)
        env.ensure(key + "::post:terminator", mk(z3.Select(A, sym._z(FAT + last)) == sym._z(0xC0 + s_)), ("C08",))
        hy = lambda q: [pre(k - 1), Implies(And(q >= 0, q < k), pre(q)),
                        Implies(And(SymInt(z3.Select(P, sym._z(q - FAT))) >= 0, SymInt(z3.Select(P, sym._z(q - FAT))) < k),
                                pre(SymInt(z3.Select(P, sym._z(q - FAT)))))]
        prove_forall(env, p, key + "::post:links", Forall("links", 0, k - 1, lambda j: mk(z3.Select(A, sym._z(FAT + g(j))) == sym._z(g(j + 1)))),
                     [f for f in facts if f.name == "links"], ("C08",), hyps=hy)
        prove_forall(env, p, key + "::post:frame", Forall("frame", 0, N, lambda q: Implies(sym.Not(written(q, k)),
                     mk(z3.Select(A, sym._z(q)) == z3.Select(A0, sym._z(q))))), [f for f in facts if f.name == "frame"], ("C08",), hyps=hy)

    def s_dir(self, env, cell, F):
        nl, el = cell["nl"], cell["el"]
        d, buf, A0 = self._disk(env, F)
        name = env.text([env.hole_char("nm%d" % j, [(33, 126)]) for j in range(nl)]) if nl else ""
        ext = env.text([env.hole_char("ex%d" % j, [(33, 126)]) for j in range(el)]) if el else ""
        ftype = env.hole_int("type", 0, 3)
        dtype = env.hole_choice("dtype", [0, 0xFF])
        slot = env.hole_int("slot", 0, 71)
        g = env.hole_int("first", 0, 67)
        lb = env.hole_int("lastbytes", 0, 256)
        f = F.coco_file(name, ftype, dtype, 0, 0, [], extension=ext)
        key = KEY + "write_dir_entry"
        try:
            F.method(d, "write_dir_entry", slot, f, g, lb)
        except Raised as e:
            env.fail(key + "::raises:none", ("C08", "C13"))
            return
        A = buf.arr
        base = db.DIR_OFFSET + 32 * slot
        from pyvc import strmodel

        def upper_codes(s, width):
            cs = SStr.of(s).chars[:width] if not isinstance(s, str) else [ord(c) for c in s[:width]]
            out = []
            for c in cs:
                if isinstance(c, int):
                    out.append(ord(chr(c).upper()))
                else:
                    out.append(mk(z3.If(z3.And(c.code >= 97, c.code <= 122), c.code - 32, c.code)))
            return out + [0x20] * (width - len(out))
        want = upper_codes(name, 8) + upper_codes(ext, 3) + [ftype, dtype, g, sym.floordiv(lb, 256) if isinstance(lb, SymInt) else lb // 256,
                                                            lb % 256] + [0] * 16
        ok = True
        for j, w in enumerate(want):
            ok = ok & mk(z3.Select(A, sym._z(base + j)) == sym._z(w))
        env.ensure(key + "::post:layout", ok, ("C08", "C07"))
        cond = lambda q: Implies(Or(q < base, q >= base + 32), mk(z3.Select(A, sym._z(q)) == z3.Select(A0, sym._z(q))))
        prove_forall(env, cur(), key + "::post:frame", Forall("frame", 0, N, cond), [], ("C08",))

    def _amble(self, env, F, cls):
        o = F.new(DSK, cls)
        vals = {}
        if cls in ("MLPreamble", "BasicPreamble"):
            vals["len"] = env.hole_int("dlen", 0, 65535)
            F.set(o, "data_length", F.numeric(vals["len"]))
        if cls == "MLPreamble":
            vals["load"] = env.hole_int("load", 0, 65535)
            F.set(o, "load_addr", F.numeric(vals["load"]))
        if cls == "Postamble":
            vals["exec"] = env.hole_int("exec", 0, 65535)
            F.set(o, "exec_addr", F.numeric(vals["exec"]))
        return o, vals

    def _amble_bytes(self, cls, vals):
        hi = lambda v: sym.floordiv(v, 256) if isinstance(v, SymInt) else v // 256
        if cls == "MLPreamble":
            return [0x00, hi(vals["len"]), vals["len"] % 256, hi(vals["load"]), vals["load"] % 256]
        if cls == "BasicPreamble":
            return [0xFF, hi(vals["len"]), vals["len"] % 256]
        return [0xFF, 0x00, 0x00, hi(vals["exec"]), vals["exec"] % 256]

    def s_amble_write(self, env, cell, F):
        cls = cell["cls"]
        A0 = z3.Array("A0", z3.IntSort(), z3.IntSort())
        buf = ArrList(A0, N)
        o, vals = self._amble(env, F, cls)
        want = self._amble_bytes(cls, vals)
        ptr = env.hole_int("ptr", 0, N)
        key = "cocoasm/virtualfiles/disk.py::%s.write" % cls
        try:
            r = F.method(o, "write", buf, ptr)
        except Raised as e:
            env.ensure(key + "::raises:only-when-no-room", (e.cls == "VirtualFileValidationError") and bool(ptr + len(want) > N), ("C08", "C13"))
            return
        env.ensure(key + "::pre:room", ptr + len(want) <= N, ("C08",))
        env.ensure(key + "::post:returns-end", r == ptr + len(want), ("C08", "C07"))
        A = buf.arr
        ok = True
        for j, w in enumerate(want):
            ok = ok & mk(z3.Select(A, sym._z(ptr + j)) == sym._z(w))
        env.ensure(key + "::post:layout", ok, ("C08", "C07"))
        cond = lambda q: Implies(Or(q < ptr, q >= ptr + len(want)), mk(z3.Select(A, sym._z(q)) == z3.Select(A0, sym._z(q))))
        prove_forall(env, cur(), key + "::post:frame", Forall("frame", 0, N, cond), [], ("C08",))

    def s_amble_read(self, env, cell, F):
        cls = cell["cls"]
        A0 = z3.Array("A0", z3.IntSort(), z3.IntSort())
        buf = ArrList(A0, N)
        o = F.new(DSK, cls)
        ptr = env.hole_int("ptr", 0, N)
        ln = 3 if cls == "BasicPreamble" else 5
        bs = []
        for j in range(ln):
            b = env.hole_int("b%d" % j, 0, 255)
            env.assume(mk(z3.Select(A0, sym._z(ptr + j)) == sym._z(b)))
            bs.append(b)
        key = "cocoasm/virtualfiles/disk.py::%s.read" % cls
        flag_ok = (bs[0] == 0x00) if cls == "MLPreamble" else ((bs[0] == 0xFF) if cls == "BasicPreamble" else
                                                              ((bs[0] == 0xFF) & (bs[1] == 0) & (bs[2] == 0)))
        try:
            r = F.method(o, "read", buf, ptr)
        except Raised as e:
            env.ensure(key + "::raises:only-malformed-or-short", (e.cls == "VirtualFileValidationError") and
                       bool(sym.Or(ptr + ln > N, sym.Not(flag_ok))), ("C07", "C13"))
            return
        env.ensure(key + "::post:accepts-only-wellformed", sym.And(ptr + ln <= N, flag_ok), ("C07",))
        env.ensure(key + "::post:returns-end", r == ptr + ln, ("C07",))
        if cls in ("MLPreamble", "BasicPreamble"):
            env.ensure(key + "::post:data-length", F.intval(F.get(o, "data_length")) == bs[1] * 256 + bs[2], ("C07",))
        if cls == "MLPreamble":
            env.ensure(key + "::post:load", F.intval(F.get(o, "load_addr")) == bs[3] * 256 + bs[4], ("C07",))
        if cls == "Postamble":
            env.ensure(key + "::post:exec", F.intval(F.get(o, "exec_addr")) == bs[3] * 256 + bs[4], ("C07",))
        env.ensure(key + "::post:buffer-unchanged", buf.arr.eq(A0), ("C07", "C08"))


LEMMAS.append(DiskWriterFns())
