"""
DiskFile.add_file -- the per-file step of C08 / C15, unbounded (any image state, any data length and contents).

Callees through their contracts (each proved on its own: disk_arith, disk_writer_fns, disk_wtg):
    find_empty_granule, find_empty_directory_entry, write_dir_entry, write_to_granules, write_to_fat
Own obligations: the allocation `while` loop (invariant: the granules allocated so far are in range, were free in
the incoming image, are pairwise distinct -- injectivity ghost P built by the loop -- and are marked $99; nothing else
changed; variant: needed - allocated), the pre-conditions of every callee at its call site, and the post-condition:

  * raises VirtualFileValidationError only when find_empty_granule / find_empty_directory_entry report exhaustion
  * exactly `needed` granules are allocated, all of them free before                                     (C15)
  * FAT: G[j] -> G[j+1], last -> $C0+s, every other entry 0..67 unchanged, bytes 68..255 of the sector zero   (C08)
  * the directory slot used was free; nothing outside the allocated granules, the FAT sector and that
    directory entry differs from the incoming image                                                     (C08 frame)
  * the stream in chain order is header || data || trailer (from write_to_granules' contract)
"""
import z3

from specs import diskbasic as db
from pyvc.filesh import Files, Raised
from pyvc.lists import ArrList
from pyvc.contracts import Verifier, CallSpec, LoopSpec, Forall, prove_forall
from pyvc.objs import PyRaise
from pyvc.sym import SymInt, mk, mks, cur, branch, And, Or, Not, Implies, Ite
from pyvc import sym
from lemmas.disk_wtg import sel, offset, gran_of, GR, N, DSK, KEY, WTG

FAT = db.FAT_OFFSET
DIR = db.DIR_OFFSET


def untouched_instance(A, A0, base, q):
    """instance q of add_file's frame towards the files already stored (bridge:existing-files-untouched): a byte in a granule that
    was not free, in a directory entry other than the new one (at base) or in an allocation-table entry that was not free
    is the same before (A0) and after (A)"""
    gq, valid = gran_of(q)
    other_gran = And(valid, sel(A0, FAT + gq) != 0xFF)
    other_dir = And(q >= DIR, q < DIR + 72 * 32, Or(q < base, q >= base + 32))
    other_fat = And(q >= FAT, q < FAT + 68, sel(A0, q) != 0xFF)
    return Implies(Or(other_gran, other_dir, other_fat), sel(A, q) == sel(A0, q))


class DiskAddFile:
    name = "disk_addfile"
    props = ("C08", "C15", "C07", "C13", "C16", "C09")
    max_paths = 600

    def cells(self, tier):
        from lemmas.disk import KINDS
        return [{"id": "fn/add_file/%s" % k, "kind": k} for k in KINDS]

    def probes(self, cell):
        for L in (0, 1, 2289, 2294, 2304, 4598, 5000, 7000):
            yield {"L": L}
        # allocations that run far along the DEFAULT fill order (it names granules 40..43 twice): an empty disk and a large file,
        # and 14 granules in use followed by a 9-granule file
        for L in (23 * 2304 - 20, 28 * 2304 - 20, 65535 - 10):
            yield {"L": L, "pre": 1}
        for L in (9 * 2304 - 20, 13 * 2304 - 20):
            yield {"L": L, "pre": 2}

    def run(self, env, cell):
        if env.mode == "native":
            return self.native(env, cell)
        return self.symbolic(env, cell)

    # ------------------------------------------------------------------ native: property-level check of one add_file
    def native(self, env, cell):
        F = Files(env)
        kind = cell["kind"]
        L = env.holes.get("L", 0)
        from lemmas.disk import KINDS, AMBLE
        ftype, dtype = KINDS[kind]
        pre_len, post_len = AMBLE[kind]
        data = [(5 * i + 1) % 253 for i in range(L)]
        # a consistent, partly used image: one earlier file on scattered granules
        old = ("OLD", "BIN", 2, 0, 0x2000, 0x2002, [9] * 5000)
        pre = env.holes.get("pre", 0)
        if pre == 0:
            before = db.build([old], order=[32, 0, 67] + [g for g in range(68) if g not in (32, 0, 67)])
        else:
            # the tool's own default order (read from the real module), duplicates removed: where the next allocation starts
            dflt = []
            for g in F.get(F.cls(DSK, "DiskConstants"), "GRANULE_FILL_ORDER"):
                if g not in dflt:
                    dflt.append(g)
            old = ("OLD", "BIN", 2, 0, 0x2000, 0x2002, [9] * (100 if pre == 1 else 14 * 2304 - 20))
            before = db.build([old], order=dflt)
        d = F.new(DSK, "DiskFile", buffer=list(before))
        buf = F.get(d, "buffer")
        f = F.coco_file("NEWFILE", ftype, dtype, 0x1234, 0x5678, list(data), extension="BIN")
        try:
            F.method(d, "add_file", f)
        except Raised as e:
            env.fail(KEY + "add_file::raises", ("C15", "C13"), lambda: "add_file:%s:raised:%s" % (kind, e.cls))
            return
        img = list(buf)
        env.ensure(KEY + "add_file::post:frame:file-data-unchanged", list(F.get(f, "data")) == list(data), ("C16", "C09"),
                   lambda: "add_file:%s:file-data-length=%d,was=%d" % (kind, len(list(F.get(f, "data"))), len(data)))
        need = (L + pre_len + post_len) // GR + 1
        newly = [g for g in range(68) if before[FAT + g] == 0xFF and img[FAT + g] != 0xFF]
        env.ensure(KEY + "add_file::post:granules-allocated", len(newly) == need and all(before[FAT + g] == img[FAT + g] for g in range(68) if g not in newly),
                   ("C15", "C08"), lambda: "add_file:%s:allocated=%d,needed=%d" % (kind, len(newly), need))
        why = None
        try:
            fs = db.files(img)
            db.check(img, fresh=before)
            if len(fs) != 2:
                why = "files=%d" % len(fs)
            else:
                o, n = fs
                if o["data"] != old[6] or o["load"] != old[4]:
                    why = "old-file-changed"
                elif n["data"] != data or n["name"].strip() != "NEWFILE" or (ftype == 2 and (n["load"], n["exec"]) != (0x1234, 0x5678)):
                    why = "new-file-wrong"
        except db.DiskFormatError as e:
            import re
            why = "inconsistent:" + re.sub(r"\d+", "N", str(e))
        env.ensure(KEY + "add_file::post:consistent-image", why is None, ("C08", "C07"), lambda: "add_file:%s:%s" % (kind, why))

    # ------------------------------------------------------------------ symbolic
    def symbolic(self, env, cell):
        F = Files(env)
        kind = cell["kind"]
        from lemmas.disk import KINDS, AMBLE
        ftype, dtype = KINDS[kind]
        pl, postlen = AMBLE[kind]
        p = cur()
        L = env.hole_int("L", 0, 65535)
        DA = z3.Array("h_dataarr", z3.IntSort(), z3.IntSort())
        data = ArrList(DA, L)
        total = pl + L + postlen
        need = sym.floordiv(total, GR) + 1
        d = F.new(DSK, "DiskFile")
        A0 = z3.Array("A0", z3.IntSort(), z3.IntSort())
        buf = ArrList(A0, N)
        F.set(d, "buffer", buf)
        f = F.coco_file("NEWFILE", ftype, dtype, 0x1234, 0x5678, data, extension="BIN")
        key = KEY + "add_file"
        v = Verifier(env, F.it)
        st = {"P": z3.K(z3.IntSort(), z3.IntVal(-1)), "GA": None, "stages": []}

        def chain_ok(j, GA, P, i, A):
            g = sel(GA, j)
            return And(g >= 0, g <= 67, sel(A0, FAT + g) == 0xFF, sel(A, FAT + g) == 0x99, sel(P, g) == j)

        def marked(q, GA, P, i):
            r = q - FAT
            pr = sel(P, r)
            return And(q >= FAT, q < FAT + 68, pr >= 0, pr < i, sel(GA, pr) == r)

        # ---- callee contracts -------------------------------------------------------------------------------
        def apply_find_granule(v_, interp, func, args):
            b = interp.getattr_(args["self"], "buffer")
            A = b.arr
            p.fresh += 1
            if p.decide(z3.Bool("nofree!%d" % p.fresh)):
                # exhaustion: the contract allows the error only when no granule 0..67 is free
                for g in range(68):
                    p.assume(sel(A, FAT + g) != 0xFF)
                st["raised"] = "no-free-granule"
                raise PyRaise(interp.mk_exc(interp.get("cocoasm.virtualfiles.virtual_file_exceptions", "VirtualFileValidationError"),
                                            "no free granules available for allocation"))
            g = SymInt(z3.Int("g!%d" % p.fresh))
            p.assume(And(g >= 0, g <= 67, sel(A, FAT + g) == 0xFF))
            return g
        v.contract(KEY + "find_empty_granule", CallSpec(apply_find_granule))

        def apply_find_slot(v_, interp, func, args):
            b = interp.getattr_(args["self"], "buffer")
            A = b.arr
            p.fresh += 1
            if p.decide(z3.Bool("noslot!%d" % p.fresh)):
                for s_ in range(72):
                    p.assume(And(sel(A, DIR + 32 * s_) != 0x00, sel(A, DIR + 32 * s_) != 0xFF))
                return -1
            s_ = SymInt(z3.Int("slot!%d" % p.fresh))
            p.assume(And(s_ >= 0, s_ <= 71, Or(sel(A, DIR + 32 * s_) == 0x00, sel(A, DIR + 32 * s_) == 0xFF)))
            st["slot"] = s_
            return s_
        v.contract(KEY + "find_empty_directory_entry", CallSpec(apply_find_slot))

        def stage(name, b, frame_pred):
            """havoc the image; record  forall q. not frame_pred(q) -> new[q] == old[q]"""
            Aold = b.arr
            p.fresh += 1
            Anew = z3.Array("A%s!%d" % (name, p.fresh), z3.IntSort(), z3.IntSort())
            b.arr = Anew
            v.facts.append(Forall("frame-" + name, 0, N, lambda q, Anew=Anew, Aold=Aold: Implies(Not(frame_pred(q)), sel(Anew, q) == sel(Aold, q))))
            st["stages"].append((name, Aold, Anew))
            return Aold, Anew

        def apply_dir(v_, interp, func, args):
            b = interp.getattr_(args["self"], "buffer")
            slot = args["directory_entry_number"]
            env.ensure(KEY + "write_dir_entry::pre@call:slot-range", And(slot >= 0, slot <= 71), ("C08", "C13"))
            base = DIR + 32 * slot
            Aold, Anew = stage("dir", b, lambda q: And(q >= base, q < base + 32))
            st["dir"] = (base, args["first_granule"], args["last_sector_bytes_used"], Anew)
            p.assume(sel(Anew, base + 13) == args["first_granule"])
            p.assume(And(sel(Anew, base) != 0x00, sel(Anew, base) != 0xFF))
            # entry layout (disk_writer_fns fn/write_dir_entry): type, ASCII flag, bytes in the last sector
            p.assume(And(sel(Anew, base + 11) == ftype, sel(Anew, base + 12) == dtype,
                         sel(Anew, base + 14) * 256 + sel(Anew, base + 15) == args["last_sector_bytes_used"],
                         sel(Anew, base + 14) >= 0, sel(Anew, base + 15) >= 0, sel(Anew, base + 15) <= 255))
            return None
        v.contract(KEY + "write_dir_entry", CallSpec(apply_dir))

        def inregion(q, GA, P, cnt):
            gq, valid = gran_of(q)
            pr = sel(P, gq)
            return And(valid, pr >= 0, pr < cnt, sel(GA, pr) == gq)

        def apply_wtg(v_, interp, func, args):
            b = interp.getattr_(args["self"], "buffer")
            ch = args["allocated_granules"]
            dat = args["file_data"]
            GA, P = st["GA"], st["P"]
            if not isinstance(ch, ArrList) or GA is None:
                raise sym.Undecided("add_file: the granule list handed to write_to_granules is not the one built by the allocation loop under contract")
            kk = ch.length()
            env.ensure(KEY + "write_to_granules::pre@call:enough-granules", need <= kk, ("C08",))
            env.ensure(KEY + "write_to_granules::pre@call:data-is-file-data", And(dat.length() == L, True), ("C08",))
            # chain in range + distinct is the loop's invariant (facts "alloc"); the contract needs them as its precondition:
            prove_forall(env, p, KEY + "write_to_granules::pre@call:chain-distinct-in-range",
                         Forall("alloc", 0, kk, lambda j: And(sel(GA, j) >= 0, sel(GA, j) <= 67, sel(P, sel(GA, j)) == j)),
                         [f_ for f_ in v.facts if f_.name == "alloc"], ("C08",))
            Aold, Anew = stage("wtg", b, lambda q: inregion(q, GA, P, need))
            st["wtg"] = Anew
            # its post-condition (disk_wtg): the stream header || data || trailer in chain order
            W = WTG(env, F, pl, bool(postlen), hdr=(L, 0x1234, 0x5678))
            W.GA, W.DA = GA, DA
            st["W"] = W
            v.facts.append(Forall("wtg-stream", 0, total, lambda j, Anew=Anew, W=W: sel(Anew, W.loc(j, 0)) == W.stream(j, pl, 0, L)))
            return None
        v.contract(KEY + "write_to_granules", CallSpec(apply_wtg))

        def apply_fat(v_, interp, func, args):
            b = interp.getattr_(args["self"], "buffer")
            ch = args["allocated_granules"]
            s_ = args["last_granule_sectors_used"]
            GA, P = st["GA"], st["P"]
            if not isinstance(ch, ArrList) or GA is None:
                raise sym.Undecided("add_file: the granule list handed to write_to_fat is not the one built by the allocation loop under contract")
            kk = ch.length()
            env.ensure(KEY + "write_to_fat::pre@call:non-empty", kk >= 1, ("C08",))
            prove_forall(env, p, KEY + "write_to_fat::pre@call:chain-distinct-in-range",
                         Forall("alloc", 0, kk, lambda j: And(sel(GA, j) >= 0, sel(GA, j) <= 67, sel(P, sel(GA, j)) == j)),
                         [f_ for f_ in v.facts if f_.name == "alloc"], ("C08",))
            Aold, Anew = stage("fat", b, lambda q: marked(q, GA, P, kk))
            v.facts.append(Forall("fat-links", 0, kk - 1, lambda j, Anew=Anew: sel(Anew, FAT + sel(GA, j)) == sel(GA, j + 1)))
            p.assume(sel(Anew, FAT + sel(GA, kk - 1)) == 0xC0 + s_)
            st["fat"] = (Anew, s_, kk)
            return None
        v.contract(KEY + "write_to_fat", CallSpec(apply_fat))

        # ---- the allocation loop -----------------------------------------------------------------------------
        def init(ctx):
            st["Aloop0"] = buf.arr
            return {"P": z3.K(z3.IntSort(), z3.IntVal(-1)), "GA": z3.K(z3.IntSort(), z3.IntVal(0))}

        def havoc(ctx):
            p.fresh += 1
            n = p.fresh
            GA = z3.Array("G!%d" % n, z3.IntSort(), z3.IntSort())
            P = z3.Array("P!%d" % n, z3.IntSort(), z3.IntSort())
            i = SymInt(z3.Int("alloc!%d" % n))
            p.assume(And(i >= 0, i <= need))
            buf.arr = z3.Array("Aloop!%d" % n, z3.IntSort(), z3.IntSort())
            ctx.locals["allocated_granules"] = ArrList(GA, i)
            st["GA"], st["P"] = GA, P
            return {"P": P, "GA": GA}

        def index(ctx):
            a = ctx.locals["allocated_granules"]
            return a.length() if isinstance(a, ArrList) else len(a)

        def inv(ctx, i, g):
            A = buf.arr
            a = ctx.locals["allocated_granules"]
            GA = a.arr if isinstance(a, ArrList) else g["GA"]
            P = g["P"]
            return [("count", And(i >= 0, i <= need)),
                    Forall("alloc", 0, i, lambda j, GA=GA, P=P, A=A, i=i: chain_ok(j, GA, P, i, A)),
                    Forall("loopframe", 0, N, lambda q, GA=GA, P=P, A=A, i=i: Implies(Not(marked(q, GA, P, i)), sel(A, q) == sel(A0, q)))]

        def step(ctx, i, g):
            gr = ctx.locals["granule"]
            P2 = z3.Store(g["P"], sym._z(gr), sym._z(i))
            st["P"] = P2
            a = ctx.locals["allocated_granules"]
            st["GA"] = a.arr
            return {"P": P2, "GA": a.arr}

        def hyps(ctx, i, q):
            # the new granule is free now, hence unmarked, hence free in the incoming image and different from every
            # earlier one: the named instances needed are the invariant at P[granule] and at q / P[q - FAT]
            return []

        def instances(ctx, i, q):
            gr = ctx.locals.get("granule")
            out = [q]
            if gr is not None:
                out += [sel(st["P0"], gr), FAT + gr]
            out.append(sel(st["P0"], q - FAT))
            return out
        spec = LoopSpec(("C08", "C15"), init, havoc, inv, step, index=index, variant=lambda ctx: need - index(ctx), instances=instances)
        v.loop(key, 0, spec)
        # remember the ghost before the step for the instance terms
        orig_havoc = spec.havoc

        def havoc2(ctx):
            g = orig_havoc(ctx)
            st["P0"] = g["P"]
            return g
        spec.havoc = havoc2
        with v.installed():
            try:
                F.method(d, "add_file", f)
            except Raised as e:
                ok = e.cls == "VirtualFileValidationError" and (st.get("raised") == "no-free-granule" or "slot" not in st)
                env.ensure(key + "::raises:only-on-exhaustion", ok, ("C15", "C13"))
                return
        A = buf.arr
        GA, P = st["GA"], st["P"]
        facts = v.facts
        if "fat" not in st or "dir" not in st or "wtg" not in st:
            env.fail(key + "::post:all-steps-performed", ("C08",))
            return
        Afat, s_, kk = st["fat"]
        env.ensure(key + "::post:exactly-needed-granules", kk == need, ("C15", "C08"))
        # the CoCoFile handed in is outside add_file's frame: its data list is the same list with the same contents afterwards
        # (the same object is written to other containers later: file_util --to_dsk --to_bin, VirtualFile.save_virtual_file)
        dd = F.get(f, "data")
        env.ensure(key + "::post:frame:file-data-unchanged",
                   And(dd is data, data.arr is DA, isinstance(data.off, int) and data.off == 0, data.length() == L), ("C16", "C09"))
        base = st["dir"][0]
        # FAT bytes 68..255 zero
        ok = True
        for q in range(FAT + 68, FAT + 256):
            ok = And(ok, sel(A, q) == 0x00)
        env.ensure(key + "::post:fat-tail-zeroed", ok, ("C08",))

        def allowed(q):
            return Or(inregion(q, GA, P, need), And(q >= FAT, q < FAT + 256), And(q >= base, q < base + 32))

        def terms(q):
            return [q, sel(P, q - FAT)]
        prove_forall(env, p, key + "::post:frame", Forall("frame", 0, N, lambda q: Implies(Not(allowed(q)), sel(A, q) == sel(A0, q))),
                     facts, ("C08",), extra_instances=terms)
        # every allocated granule was free in the incoming image, is in range; links and terminator as written by write_to_fat survive the blanking
        prove_forall(env, p, key + "::post:allocated-were-free", Forall("alloc", 0, need, lambda j: And(sel(GA, j) >= 0, sel(GA, j) <= 67,
                     sel(A0, FAT + sel(GA, j)) == 0xFF)), [f_ for f_ in facts if f_.name == "alloc"], ("C15", "C08"))
        prove_forall(env, p, key + "::post:fat-links", Forall("fat-links", 0, need - 1, lambda j: sel(A, FAT + sel(GA, j)) == sel(GA, j + 1)),
                     [f_ for f_ in facts if f_.name in ("fat-links", "alloc")], ("C08",), extra_instances=lambda j: [j, j + 1])
        p_last = sel(GA, need - 1)
        prove_forall(env, p, key + "::post:fat-terminator", Forall("alloc", need - 1, need, lambda j: sel(A, FAT + sel(GA, j)) == 0xC0 + s_),
                     [f_ for f_ in facts if f_.name == "alloc"], ("C08",))
        # untouched FAT entries
        prove_forall(env, p, key + "::post:other-fat-entries-unchanged", Forall("fatframe", FAT, FAT + 68,
                     lambda q: Implies(Not(marked(q, GA, P, need)), sel(A, q) == sel(A0, q))), facts, ("C08", "C15"), extra_instances=terms)
        # ---- bridge to the reader: the new entry satisfies list_files' / read_data's pre-conditions (disk_reader), and the entries,
        # FAT links and granules of the files already on the image are untouched
        W = st.get("W")
        if W is not None:
            def loc(j):
                return W.loc(j, 0)
            hs = [f_.instance(base + k_) for f_ in facts if f_.name.startswith("frame-") for k_ in (0, 11, 12, 13)]
            env.ensure(key + "::bridge:entry-fields",
                       Implies(And(*hs), And(sel(A, base + 11) == ftype, sel(A, base + 12) == dtype, sel(A, base + 13) == sel(GA, 0),
                                             sel(A, base) != 0x00, sel(A, base) != 0xFF)), ("C07", "C08"), internal="bridge obligation")
            inst = lambda j: [j, loc(j), sel(P, gran_of(loc(j))[0])]
            nhead = pl + postlen
            p.fresh += 1
            jj = SymInt(z3.Int("bj!%d" % p.fresh))
            prove_forall(env, p, key + "::bridge:stream-is-header-data-trailer",
                         Forall("wtg-stream", 0, total, lambda j: sel(A, loc(j)) == W.stream(j, pl, 0, L)),
                         [f_ for f_ in facts if f_.name in ("wtg-stream", "frame-fat")], ("C07", "C08"), extra_instances=inst,
                         hyps=lambda j: [Implies(And(sym.floordiv(j, GR) >= 0, sym.floordiv(j, GR) < need),
                                                 And(sel(GA, sym.floordiv(j, GR)) >= 0, sel(GA, sym.floordiv(j, GR)) <= 67,
                                                     sel(P, sel(GA, sym.floordiv(j, GR))) == sym.floordiv(j, GR)))] +
                         [f_.instance(sym.floordiv(j, GR)) for f_ in facts if f_.name == "alloc"])

            def untouched(q):
                return untouched_instance(A, A0, base, q)
            prove_forall(env, p, key + "::bridge:existing-files-untouched", Forall("frame", 0, N, untouched), facts, ("C07", "C08", "C09"),
                         extra_instances=lambda q: [q, sel(P, q - FAT), sel(P, gran_of(q)[0])],
                         hyps=lambda q: [f_.instance(sel(P, gran_of(q)[0])) for f_ in facts if f_.name == "alloc"] +
                                        [f_.instance(sel(P, q - FAT)) for f_ in facts if f_.name == "alloc"])
        prove_forall(env, p, key + "::post:dir-slot-was-free", Forall("slotfree", base, base + 1,
                     lambda q: Or(sel(A0, q) == 0x00, sel(A0, q) == 0xFF)), [f_ for f_ in facts if f_.name == "loopframe"], ("C15", "C08"))


LEMMAS = [DiskAddFile()]
