"""
Two-term expressions and symbols in every operand position (C04; also C02 size, C12, C13).

  position x (left term kind) op (right term kind)
  term kinds: num:<spelling> | equ-before | equ-after | label-before | label-after

Oracle: exprsem.eval(op, l, r) with EQU -> constant, label -> address (listing address computed
from the bytes actually emitted before it), result reduced modulo 65536 or the statement rejected;
division by zero must be rejected with a diagnostic.
"""
from specs import mc6809, exprsem
from pyvc.asmh import assemble
from lemmas.common import literal
from lemmas.asm_forms import vclass, dsum, vsplit

POSITIONS = {
    # id: (mnemonic, operand template, field)   field: imm8|imm16|mem|extind|idx|equ|fcb|fdb
    "imm8":   ("LDA", "#{e}", "imm8"),
    "imm16":  ("LDX", "#{e}", "imm16"),
    "mem":    ("LDA", "{e}", "mem"),
    "mem16":  ("LDX", "{e}", "mem"),
    "jmp":    ("JMP", "{e}", "mem"),
    "extind": ("LDA", "[{e}]", "extind"),
    "idx":    ("LDA", "{e},X", "idx"),
    "idx16":  ("LDX", "{e},Y", "idx"),
    "equ":    ("EQU", "{e}", "equ"),
    "fcb":    ("FCB", "{e}", "fcb"),
    "fdb":    ("FDB", "{e}", "fdb"),
}

TERMS_Q = ["num:dec3", "num:hex2", "num:hex4", "equ-before", "equ-after", "label-before", "label-after"]
OPS = ["+", "-", "*", "/"]


class AsmExpr:
    name = "asm_expr"
    props = ("C04", "C02", "C12", "C13", "C17")

    def cells(self, tier):
        out = []
        for pos in POSITIONS:
            # single symbol operand (no operator)
            for t in ("equ-before", "equ-after", "label-before", "label-after"):
                out.append({"id": "%s/%s" % (pos, t), "pos": pos, "left": t, "op": None, "right": None})
            for op in OPS:
                for lt in TERMS_Q:
                    if op in "*/":
                        rights = ["num:small", "equ-small"] if not lt.startswith("num") else ["num:small", "equ-small", "label-before"]
                    else:
                        rights = TERMS_Q
                    for rt in rights:
                        l2 = lt
                        if op in "*/" and rt.startswith("label") and lt.startswith("num"):
                            l2 = "num:small"        # keep products / quotients linear: one side enumerated
                        cid = "%s/%s%s%s" % (pos, l2, op, rt)
                        if any(c["id"] == cid for c in out[-12:]):
                            continue
                        out.append({"id": cid, "pos": pos, "left": l2, "op": op, "right": rt})
        if tier == "quick":
            # a fixed quarter of the cells (every position x operator keeps all term kinds on some side)
            keep = []
            for k, c in enumerate(out):
                if c["op"] is None or (k % 4 == 0) or (c["left"].startswith("label") and c["right"] and c["right"].startswith("label")) or \
                        (c["op"] in "*/" and c["right"].startswith("label") and c["pos"] in ("imm16", "mem")):
                    keep.append(c)
            out = keep
        return out

    # ------------------------------------------------------------------
    def _term(self, env, kind, tag, pre, post):
        """returns (text parts, value-fn(addresses) , is_label_name or None)"""
        if kind.startswith("num:"):
            sp = kind[4:]
            if sp == "small":
                d = env.hole_choice(tag + "_k", list(range(0, 10)))
                return [str(d)], (lambda A: d), None
            txt, v = literal(env, sp, tag)
            return txt, (lambda A: v), None
        if kind == "equ-small":
            d = env.hole_choice(tag + "_k", list(range(0, 10)))
            name = "K" + tag.upper()
            pre.append("%s EQU %d\n" % (name, d))
            return [name], (lambda A: d), None
        if kind in ("equ-before", "equ-after"):
            sp = "hex4" if tag == "l" else "dec3"
            txt, v = literal(env, sp, tag)
            name = "V" + tag.upper()
            line = env.text(name, " EQU ", txt, "\n")
            (pre if kind == "equ-before" else post).append(line)
            return [name], (lambda A: v), None
        name = "L" + tag.upper()
        if kind == "label-before":
            pre.append("%s NOP\n" % name)
        else:
            post.append("%s NOP\n" % name)
        return [name], (lambda A: A[name]), name

    def run(self, env, cell):
        native = env.mode == "native"
        pos = cell["pos"]
        mnem, tmpl, field = POSITIONS[pos]
        pre, post = [], []
        ltxt, lval, lname = self._term(env, cell["left"], "l", pre, post)
        if cell["op"]:
            rtxt, rval, rname = self._term(env, cell["right"], "r", pre, post)
            etxt = ltxt + [cell["op"]] + rtxt
        else:
            rval = rname = None
            etxt = ltxt
        uses_label = bool(lname or rname)
        head = []
        org = 0
        if uses_label:
            otxt, org = literal(env, "hex4", "org")
            head.append(env.text(" ORG ", otxt, "\n"))
        a, b = tmpl.split("{e}")
        stmt = env.text("S " if field == "equ" else " ", mnem, " ", a, etxt, b, "\n")
        lines = head + pre + [stmt] + post
        idx = len(head) + len(pre)
        env.info["lines"] = lines
        run = assemble(env, lines)
        env.info["run"] = repr(run)

        def sig(what):
            return (lambda: "%s:%s%s%s:%s" % (pos, cell["left"], cell["op"] or "", cell["right"] or "", what)) if native else None
        if run.status == "hang":
            env.fail("C13:terminates", ("C13",), sig("hang"))
            return
        if run.status == "escape":
            env.fail("C13:no-internal-error", ("C13",), sig("escape:%s" % run.exc_class))
            return
        env.ensure("C13:no-internal-error", True, ("C13",))
        # --- the oracle value.  Label addresses come from the emitted bytes (listing semantics).
        A = {}
        if run.status == "ok":
            addr = org
            for k, st in enumerate(run.stmts):
                if st.label and not st.is_org and st.mnemonic != "EQU":
                    A[st.label] = addr
                if st.bytes is not None:
                    addr = addr + len(st.bytes)
        else:
            # rejected: label addresses as far as they are independent of this statement's length
            addr = org
            for ln in (head + pre):
                if isinstance(ln, str) and ln.split()[1:2] == ["NOP"]:
                    A[ln.split()[0]] = addr
                    addr = addr + 1
            if lname and lname not in A or rname and rname not in A:
                A = None
        if A is None:
            # rejected statement whose own length would have fixed a later label: only demand that a
            # rejection is justified when the expression is a division by zero (checked below when possible)
            env.ensure("C04:rejection-unchecked", True, ())
            return
        l = lval(A)
        if cell["op"]:
            r = rval(A)
            divzero = (cell["op"] == "/") and bool(r == 0)
            val = None if divzero else exprsem.evaluate(cell["op"], l, r)
        else:
            divzero = False
            val = l
        if divzero:
            if run.status == "diag":
                env.ensure("C04:div-by-zero-rejected", True, ("C04",))
            else:
                env.fail("C04:div-by-zero-rejected", ("C04",), sig("div0-accepted"))
            return
        sp = vsplit(val)
        W = {"imm8": 1, "fcb": 1}.get(field, 2)
        in16 = bool((val >= 0) & (val <= 65535)) if not isinstance(val, int) else 0 <= val <= 65535
        if W == 1:
            fits = bool((val >= -128) & (val <= 255)) if not isinstance(val, int) else -128 <= val <= 255
        else:
            fits = in16 or (bool((val >= -32768) & (val < 0)) if not isinstance(val, int) else -32768 <= val < 0)
        must_accept = in16 and (W == 2 or bool(val <= 255))
        if run.status == "diag":
            if must_accept:
                env.fail("C04:accepted", ("C04",), sig("rejected:%s:val=%s" % (run.exc_class, vclass(val) if native else "")), split=sp)
            else:
                env.ensure("C04:rejection-justified", True, ("C04",))
            return
        st = run.stmts[idx]
        vs = (lambda: vclass(val)) if native else None

        def vsig(what):
            return (lambda: "%s:%s%s%s:%s:val=%s" % (pos, cell["left"], cell["op"] or "", cell["right"] or "", what, vclass(val))) if native else None
        if field == "equ":
            sv = run.symbols.get("S")
            if sv is None:
                env.fail("C04:value", ("C04",), vsig("equ-symbol-has-no-value"), split=sp)
                return
            env.ensure("C04:value", (sv - val) % 65536 == 0, ("C04",), vsig("equ-value=%s" % (sv,)), split=sp)
            return
        env.ensure("C02:size", st.size == len(st.bytes), ("C02", "C12", "C04"), vsig("size=%s,len=%d" % (st.size, len(st.bytes))))
        if field in ("fcb", "fdb"):
            if len(st.bytes) != W:
                env.fail("C04:value", ("C04", "C05"), vsig("count=%d" % len(st.bytes)), split=sp)
                return
            got = st.bytes[0] if W == 1 else st.bytes[0] * 256 + st.bytes[1]
            if not fits:
                env.fail("C04:width", ("C04",), vsig("unfit-accepted"), split=sp)
                return
            env.ensure("C04:value", (got - val) % (256 ** W) == 0, ("C04", "C05"), vsig("value-mismatch"), split=sp)
            return
        d = mc6809.decode(st.bytes)
        if not (d.ok and d.length == len(st.bytes) and mnem in mc6809.names_of(d.op)):
            env.fail("C04:value", ("C04", "C12"), vsig("undecodable:%s" % (d.why or "length/op")), split=sp)
            return
        if field in ("imm8", "imm16"):
            if d.mode != ("imm8" if W == 1 else "imm16"):
                env.fail("C04:value", ("C04",), vsig("mode=%s" % d.mode), split=sp)
                return
            if not fits:
                env.fail("C04:width", ("C04", "C12"), vsig("unfit-accepted"), split=sp)
                return
            env.ensure("C04:value", (d.value - val) % (256 ** W) == 0, ("C04",), vsig("value-mismatch"), split=sp)
        elif field == "mem":
            if d.mode not in ("dir", "ext"):
                env.fail("C04:value", ("C04",), vsig("mode=%s" % d.mode), split=sp)
                return
            env.ensure("C04:value", (d.value - val) % 65536 == 0, ("C04",), vsig("value-mismatch:%s" % d.mode), split=sp)
        elif field == "extind":
            ok = d.mode == "idx" and d.kind == "extind"
            if not ok:
                env.fail("C04:value", ("C04",), vsig("meaning:%s" % dsum(d)), split=sp)
                return
            env.ensure("C04:value", (d.value - val) % 65536 == 0, ("C04",), vsig("value-mismatch"), split=sp)
        elif field == "idx":
            reg = "X" if pos == "idx" else "Y"
            ok = d.mode == "idx" and d.kind in ("off0", "off5", "off8", "off16") and d.reg == reg and not d.indirect
            if not ok:
                env.fail("C04:value", ("C04",), vsig("meaning:%s" % dsum(d)), split=sp)
                return
            env.ensure("C04:value", (d.offset - val) % 65536 == 0, ("C04",), vsig("value-mismatch:%s" % d.kind), split=sp)


LEMMAS = [AsmExpr()]
