"""Small corpus of assembly programs used by the history (C17), metamorphic (C18) and INCLUDE (C19) lemmas."""

PROGRAMS = {
    "hello": ["        NAM hello\n", "CHROUT  EQU $A30A\n", "POLCAT  EQU $A000\n", "        ORG $0E00\n", "START   JSR $A928\n",
              "        LDX #MESSAGE\n", "PRINT   LDA ,X+\n", "        CMPA #0\n", "        BEQ FINISH\n", "        JSR CHROUT\n",
              "        BRA PRINT\n", "MESSAGE FCC \"HELLO WORLD\"\n", "        FDB $0\n", "FINISH  JSR [POLCAT]\n", "        BEQ FINISH\n",
              "        JMP $A027\n", "        END START\n"],
    "indexed": ["        ORG $2000\n", "BEGIN   LDA 5,Y\n", "        LDB -3,U\n", "        LEAX 200,X\n", "        LDD ,--S\n",
                "        STA [,X++]\n", "        LDA B,X\n", "        LEAY D,Y\n", "        LDX #TABLE\n", "        LDA TABLE+2\n",
                "        JMP BEGIN\n", "TABLE   FCB 1,2,3,4\n", "        FDB $1234,$5678\n"],
    "pcr": ["        ORG $3000\n", "TOP     LDA DATA,PCR\n", "        LEAX TOP,PCR\n", "        LBRA FAR\n", "        BSR NEAR\n",
            "NEAR    RTS\n", "DATA    FCB $FF\n", "        RMB 300\n", "FAR     LDA [DATA,PCR]\n", "        LBSR TOP\n", "        RTS\n"],
    "stack": ["        ORG $4000\n", "ENTRY   PSHS A,B,X\n", "        TFR X,Y\n", "        EXG A,B\n", "        PULS A,B,X\n",
              "        ANDCC #$FE\n", "        ORCC #$01\n", "        CMPX #ENTRY\n", "        LBNE ENTRY\n", "        SWI2\n", "        RTS\n"],
    "low": ["        ORG $0010\n", "ZP      RMB 4\n", "CODE    LDA <ZP\n", "        STA >$0400\n", "        INC ZP\n", "        BNE CODE\n",
            "        RTS\n"],
    "symidx": ["OFS     EQU $10\n", "BIG     EQU $0123\n", "        ORG $3F00\n", "START   LDX #TBL\n", "        LDA [OFS,X]\n",
               "        STA OFS,Y\n", "        LDB BIG,U\n", "        LDD [BIG,S]\n", "        LEAX OFS,X\n", "        JMP START\n",
               "TBL     FDB $1234\n"],
    # a program that declares a direct page, and one that addresses that page with absolute operands but declares nothing
    "setdp": ["        SETDP $0E00\n", "        ORG $3000\n", "GO      LDA #$01\n", "        STA $0E10\n", "        RTS\n"],
    "page0e": ["VAR     EQU $0E40\n", "        ORG $0E00\n", "BEGIN   LDA $0E20\n", "        STA VAR\n", "        JMP $0E8F\n", "        RTS\n"],
    # statements that read exactly the same (unlabelled, same mnemonic, same operand or not, no comment) at different places
    "twins": ["        ORG $6000\n", "TOP     LDA ,X+\n", "        BEQ OUT\n", "        CMPA #$20\n", "        BEQ OUT\n", "        BNE TOP\n",
              "        LDA #1\n", "        LDA #1\n", "        BNE TOP\n", "        LBEQ OUT\n", "        LEAX TOP,PCR\n", "        LBEQ TOP\n",
              "        LEAX OUT,PCR\n", "OUT     RTS\n"],
    "exprs": ["BASE    EQU $1000\n", "SIZE    EQU 16\n", "        ORG $5000\n", "GO      LDX #BASE+SIZE\n", "        LDA BASE+1\n",
              "        LDB #SIZE*2\n", "        LEAX GO+3,PCR\n", "        LDY #GO-2\n", "        FCB SIZE\n", "        RTS\n"],
}

# the same kind of program written with TAB separators and trailing comments (used by the C17 history / input-frame cells)
TABBED = {
    "tabbed": ["\tNAM\tTABBED\n", "OUT\tEQU\t$A30A\n", "\tORG\t$0E00\n", "GO\tLDX\t#MSG\t; pointer\tto text\n", "NEXT\tLDA\t,X+\n",
               "\tBEQ\tDONE\n", "\tJSR\tOUT\n", "\tBRA\tNEXT\n", "DONE\tLEAY\tMSG,PCR\t; tab\there\n", "\tRTS\n", "MSG\tFCB\t72,73,0\n",
               "\tEND\tGO\n"],
    "trailing-space": ["        ORG $0E00   \n", "GO      LDA #1   ; c  \n", "        RTS\r\n"],
}

REJECTED = {
    "badmnemonic": ["        ORG $0E00\n", "        FOO 12\n"],
    "undefined": ["        LDA NOWHERE\n"],
    "duplicate": ["A       NOP\n", "A       NOP\n"],
    "badoperand": ["        LDA #$12345\n"],
    # operand texts that are legal for OTHER mnemonics of the corpus (register lists, value lists, strings)
    "reglist-operand": ["        LDA A,B,X\n"],
    "list-operand": ["        LDA 1,2,3,4\n"],
    "string-operand": ["        LDA \"HELLO WORLD\"\n"],
    "pair-operand": ["        LDA X,Y\n", "        LDB A,B\n"],
}
