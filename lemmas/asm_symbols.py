"""
Symbol table contracts (C02: "a label defined twice ... is rejected; every label in the symbol table has the listing address of
its statement and every EQU symbol its defined value"), unbounded in the number of statements.

  Program.save_symbol(index, statement)       for ANY table state (abstract dictionary: domain = z3 array over label ids) and
        any statement (label id l, 0 = no label; is_pseudo_define symbolic):
          raises TranslationError  iff  l != 0 and l in table            (nothing else is raised)
          otherwise the table gains exactly  l -> (operand.value if is_pseudo_define else AddressValue(index)),  nothing when l == 0
  Program.translate_statements, first loop    over an ABSTRACT statement list of any length n, save_symbol through the contract
        above; invariant at index i (ghost OWN: label id -> index of the defining statement):
          forall k < i.  LAB[k] != 0  ->  LAB[k] in table  and  OWN[LAB[k]] == k
          forall id.     id in table  ->  0 <= OWN[id] < i  and  LAB[OWN[id]] == id
        consequences proved from it:
          - a TranslationError at statement i has a witness k < i with the same label     (no spurious rejection)
          - if the loop completes, no two statements carry the same label                 (every duplicate IS rejected)
          - and every labelled statement owns its table entry (value by save_symbol's contract)
        The function is followed up to the entry of its second loop (resolve_symbols).

Natively the clauses are evaluated at the level of the property on concrete programs (labels on NOP / EQU statements).
"""
import z3

from pyvc.objs import Obj, PyRaise
from pyvc.lists import AbsList, GhostKey, GhostDict
from pyvc.contracts import Verifier, LoopSpec, CallSpec, Forall, prove_forall
from pyvc.sym import SymInt, SymBool, mk, mks, cur, branch, And, Or, Not, Implies
from pyvc import sym
from pyvc.asmh import assemble

KEY = "cocoasm/program.py::Program."
INTERNAL = "contract over an abstract symbol table / statement list"


def sel(a, i):
    return mks(z3.Select(a, sym._z(i)))


def selb(a, i):
    return SymBool(z3.Select(a, sym._z(i)))


class _Reached(Exception):
    pass


class AsmSymbols:
    name = "asm_symbols"
    props = ("C02", "C13")
    max_paths = 200

    def cells(self, tier):
        return [{"id": "fn/save_symbol", "k": "save"}, {"id": "fn/translate_statements/symbol-loop", "k": "loop"},
                {"id": "fn/translate_statements/label-backpatch", "k": "patch"}]

    def probes(self, cell):
        for labels, defs in (([1, 2, 1], [0, 0, 0]), ([1, 0, 0, 0, 1], [0, 0, 0, 0, 1]), ([1, 1], [1, 0]), ([1, 2, 3, 1], [1, 0, 0, 1]),
                             ([1, 2, 3], [0, 1, 0]), ([0, 0], [0, 0]), ([5], [1]), ([1, 2, 2], [0, 0, 1]), ([3, 0, 3], [0, 0, 1]),
                             ([1, 2, 3, 4, 5, 6, 7, 1], [0] * 8), ([1, 2, 3, 4], [0, 1, 1, 0]),
                             (list(range(1, 13)), [0] * 12), (list(range(1, 13)), [0, 1, 0, 0, 1, 0, 0, 0, 1, 0, 0, 0]),
                             ([0, 0, 0, 1, 0, 0, 2, 0, 3], [0] * 9)):
            yield {"labels": labels, "defs": defs}

    def run(self, env, cell):
        if env.mode == "native":
            return self.native(env, cell)
        getattr(self, "s_" + cell["k"])(env, cell)

    # ------------------------------------------------------------------ native: the property on a concrete program
    def native(self, env, cell):
        labels = list(env.holes.get("labels", []))
        defs = list(env.holes.get("defs", []))
        if not labels:
            raise sym.PathAbort()
        defs = (defs + [0] * len(labels))[:len(labels)]
        lines = [" ORG $3000\n"]
        want = {}
        addr = 0x3000
        dup = False
        for k, (l, d) in enumerate(zip(labels, defs)):
            name = ("L%d" % l) if l else ""
            if l and name in want:
                dup = True
            if d and l:
                lines.append("%s EQU $%04X\n" % (name, 0x4000 + k))
                if l:
                    want.setdefault(name, 0x4000 + k)
            else:
                lines.append("%s NOP\n" % name)
                if l:
                    want.setdefault(name, addr)
                addr += 1
        run = assemble(env, lines)
        shape = "".join(("e" if d and l else "i") if l else "-" for l, d in zip(labels, defs))
        if dup:
            env.ensure(KEY + "translate_statements::post:duplicate-label-rejected", run.status == "diag", ("C02",),
                       lambda: "dup-accepted:%s:%s" % (shape, run.status))
            return
        env.ensure(KEY + "translate_statements::post:raises-only-on-duplicate", run.status == "ok", ("C02", "C13"),
                   lambda: "rejected-without-duplicate:%s:%s" % (shape, run.status))
        if run.status == "ok":
            got = {k: v for k, v in run.symbols.items()}
            env.ensure(KEY + "translate_statements::post:symbol-values", got == want, ("C02",), lambda: "symbol-values:%s" % shape)

    # ------------------------------------------------------------------ save_symbol for any table and statement
    def _classes(self, it):
        return (it.get("cocoasm.statement", "Statement"), it.get("cocoasm.instruction", "Instruction"),
                it.get("cocoasm.operands", "Operand"), it.get("cocoasm.values", "NumericValue"))

    def s_save(self, env, cell):
        it = env.interp
        p = cur()
        Statement, Instruction, Operand, NumericValue = self._classes(it)
        lab = env.hole_int("label", 0, 1000000)
        idx = env.hole_int("index", 0, 100000)
        isdef = SymBool(z3.Bool("h_isdef"))
        D0 = z3.Array("h_dom", z3.IntSort(), z3.BoolSort())
        value = Obj(NumericValue, {"int": 0x1234, "type": None})
        stmt = Obj(Statement, {"label": GhostKey(lab), "instruction": Obj(Instruction, {"is_pseudo_define": isdef}),
                               "operand": Obj(Operand, {"value": value})})
        stores = []
        table = GhostDict(D0, on_set=lambda d, k, v: stores.append((k, v)))
        prog = it.call(it.get("cocoasm.program", "Program"), [], {})
        it.setattr_(prog, "symbol_table", table)
        key = KEY + "save_symbol"
        present = And(lab != 0, selb(D0, lab))
        try:
            it.call(it.getattr_(prog, "save_symbol"), [idx, stmt], {})
        except PyRaise as pr:
            env.ensure(key + "::raises:only-translation-error", pr.exc.cls.name == "TranslationError", ("C02", "C13"), internal=INTERNAL)
            env.ensure(key + "::raises:only-when-label-present", present, ("C02",), internal=INTERNAL)
            return
        env.ensure(key + "::post:present-label-raises", Not(present), ("C02",), internal=INTERNAL)
        if branch(lab == 0):
            env.ensure(key + "::post:no-label-no-store", len(stores) == 0, ("C02",), internal=INTERNAL)
            return
        ok = len(stores) == 1 and isinstance(stores[0][0], GhostKey)
        env.ensure(key + "::post:exactly-one-store", ok, ("C02",), internal=INTERNAL)
        if not ok:
            return
        k, v = stores[0]
        env.ensure(key + "::post:stored-under-the-label", k.gid == lab, ("C02",), internal=INTERNAL)
        if branch(isdef):
            env.ensure(key + "::post:equ-stores-operand-value", v is value, ("C02",), internal=INTERNAL)
        else:
            isaddr = isinstance(v, Obj) and v.cls.name == "AddressValue"
            env.ensure(key + "::post:label-stores-statement-index", isaddr and (it.getattr_(v, "int") == idx), ("C02",), internal=INTERNAL)

    # ------------------------------------------------------------------ the symbol collection loop of translate_statements
    def s_loop(self, env, cell):
        it = env.interp
        p = cur()
        Statement, Instruction, Operand, NumericValue = self._classes(it)
        n = env.hole_int("n", 1, 100000)
        LAB = z3.Array("h_labarr", z3.IntSort(), z3.IntSort())
        key = KEY + "translate_statements"
        st = {"dom": z3.K(z3.IntSort(), z3.BoolVal(False)), "OWN": z3.K(z3.IntSort(), z3.IntVal(-1))}

        def lab(k):
            return sel(LAB, k)

        def elem(k):
            return Obj(Statement, {"label": GhostKey(lab(k)), "_k": k})
        stmts = AbsList(n, elem)
        prog = it.call(it.get("cocoasm.program", "Program"), [], {})
        table = GhostDict(st["dom"])
        it.setattr_(prog, "symbol_table", table)
        it.setattr_(prog, "statements", stmts)
        v = Verifier(env, it)

        # process_mnemonics: identity on a statement list without INCLUDE (its contract is proved in include_contracts)
        v.contract(KEY + "process_mnemonics", CallSpec(lambda v_, interp, func, args: args["statements"]))

        def fact_a(i, dom, OWN):
            return Forall("labels", 0, i, lambda k: Implies(lab(k) != 0, And(selb(dom, lab(k)), sel(OWN, lab(k)) == k)))

        def fact_b(i, dom, OWN):
            return Forall("owners", None, None, lambda d: Implies(selb(dom, d), And(sel(OWN, d) >= 0, sel(OWN, d) < i, lab(sel(OWN, d)) == d)))

        def apply_save(v_, interp, func, args):
            idx = args["index"]
            l = lab(idx)
            env.ensure(KEY + "save_symbol::pre@call:statement-is-element-index",
                       getattr(args["statement"], "fields", {}).get("_k") is not None and (args["statement"].fields["_k"] == idx),
                       ("C02",), internal=INTERNAL)
            dom, OWN = table.dom, st["OWN"]
            if branch(And(l != 0, selb(dom, l))):
                # contract: raises TranslationError.  The invariant names the earlier statement with the same label:
                fb = [f for f in v.facts if f.name == "owners"]
                w = sel(OWN, l)
                hs = [f.instance(l) for f in fb]
                env.ensure(key + "::raises:witness-of-duplicate", Implies(And(*hs), And(w >= 0, w < idx, lab(w) == l)), ("C02",),
                           internal=INTERNAL)
                st["raised_at"] = idx
                raise PyRaise(interp.mk_exc(interp.get("cocoasm.exceptions", "TranslationError"), "Label redefined"))
            if branch(l != 0):
                table.dom = z3.Store(dom, sym._z(l), z3.BoolVal(True))
                st["OWN"] = z3.Store(OWN, sym._z(l), sym._z(idx))
            return None
        v.contract(KEY + "save_symbol", CallSpec(apply_save))

        def init(ctx):
            return {}

        def havoc(ctx):
            p.fresh += 1
            table.dom = z3.Array("dom!%d" % p.fresh, z3.IntSort(), z3.BoolSort())
            st["OWN"] = z3.Array("own!%d" % p.fresh, z3.IntSort(), z3.IntSort())
            return {}

        def inv(ctx, i, g):
            return [fact_a(i, table.dom, st["OWN"]), fact_b(i, table.dom, st["OWN"])]

        def step(ctx, i, g):
            return {}
        v.loop(key, 0, LoopSpec(("C02",), init, havoc, inv, step))

        def reached(ctx):
            raise _Reached()
        v.loop(key, 1, LoopSpec(("C02",), reached, havoc, inv, step))
        with v.installed():
            try:
                it.call(it.getattr_(prog, "translate_statements"), [], {})
            except PyRaise as pr:
                env.ensure(key + "::raises:only-translation-error", pr.exc.cls.name == "TranslationError" and "raised_at" in st,
                           ("C02", "C13"), internal=INTERNAL)
                return
            except _Reached:
                pass
            else:
                env.fail(key + "::engine:second-loop-not-reached", ("C02",), internal=INTERNAL)
                return
        # the first loop completed: no two statements carry the same label
        fa = [f for f in v.facts if f.name == "labels"]
        p.fresh += 1
        j = SymInt(z3.Int("j!%d" % p.fresh))
        k = SymInt(z3.Int("k!%d" % p.fresh))
        hs = [j >= 0, j < n, k >= 0, k < n] + [f.instance(j) for f in fa] + [f.instance(k) for f in fa]
        env.ensure(key + "::post:completed-implies-no-duplicate", Implies(And(*hs), Implies(And(lab(j) != 0, lab(j) == lab(k)), j == k)),
                   ("C02",), internal=INTERNAL)
        env.ensure(key + "::post:invariant-available", len(fa) >= 1, ("C02",), internal=INTERNAL)
        prove_forall(env, p, key + "::post:every-label-owned-by-its-statement",
                     Forall("labels", 0, n, lambda q: Implies(lab(q) != 0, And(selb(table.dom, lab(q)), sel(st["OWN"], lab(q)) == q))),
                     fa, ("C02",), internal=INTERNAL)


    # ------------------------------------------------------------------ the back-patching loop of translate_statements
    def s_patch(self, env, cell):
        """`for symbol, value in self.symbol_table.items(): if value.is_address(): table[symbol] = statements[value.int].code_pkg.address`
        over an abstract table of m entries (distinct keys KEYS[k], ISADDR[k], statement index IDX[k]) and an abstract statement list:
        afterwards every address entry holds the address of the statement it indexed, every other entry was not stored to."""
        it = env.interp
        p = cur()
        Statement, Instruction, Operand, NumericValue = self._classes(it)
        CodePackage = it.get("cocoasm.instruction", "CodePackage")
        ValueType = it.get("cocoasm.values", "ValueType")
        n = env.hole_int("n", 1, 100000)
        m = env.hole_int("m", 0, 100000)
        KEYS = z3.Array("h_keys", z3.IntSort(), z3.IntSort())
        POS = z3.Array("keypos", z3.IntSort(), z3.IntSort())           # injectivity ghost: POS[KEYS[k]] == k
        ISADDR = z3.Array("h_isaddr", z3.IntSort(), z3.BoolSort())
        IDX = z3.Array("h_idx", z3.IntSort(), z3.IntSort())
        ADDR = z3.Array("h_addrarr", z3.IntSort(), z3.IntSort())
        key = KEY + "translate_statements"
        st = {"PATCH": z3.K(z3.IntSort(), z3.IntVal(-1)), "TOUCH": z3.K(z3.IntSort(), z3.BoolVal(False))}

        def pre(k):
            return And(sel(POS, sel(KEYS, k)) == k, sel(KEYS, k) != 0, Implies(selb(ISADDR, k), And(sel(IDX, k) >= 0, sel(IDX, k) < n)))

        def selem(k):
            return Obj(Statement, {"code_pkg": Obj(CodePackage, {"address": Obj(NumericValue, {"int": sel(ADDR, k), "type": None}), "size": 0}),
                                   "instruction": Obj(Instruction, {"is_origin": False, "is_name": False})})

        def ielem(k):
            ty = it.getattr_(ValueType, "ADDRESS") if branch(selb(ISADDR, k)) else it.getattr_(ValueType, "NUMERIC")
            return (GhostKey(sel(KEYS, k)), Obj(NumericValue, {"int": sel(IDX, k), "type": ty}))
        prog = it.call(it.get("cocoasm.program", "Program"), [], {})

        def on_set(d, k, v):
            a = it.getattr_(v, "int")
            st["PATCH"] = z3.Store(st["PATCH"], sym._z(k.gid), sym._z(a))
            st["TOUCH"] = z3.Store(st["TOUCH"], sym._z(k.gid), z3.BoolVal(True))
        table = GhostDict(z3.K(z3.IntSort(), z3.BoolVal(True)), on_set=on_set)
        table.items_view = AbsList(m, ielem)
        it.setattr_(prog, "symbol_table", table)
        it.setattr_(prog, "statements", AbsList(n, selem))
        v = Verifier(env, it)

        def init(ctx):
            return {}

        def havoc(ctx):
            p.fresh += 1
            st["PATCH"] = z3.Array("patch!%d" % p.fresh, z3.IntSort(), z3.IntSort())
            st["TOUCH"] = z3.Array("touch!%d" % p.fresh, z3.IntSort(), z3.BoolSort())
            return {}

        def inv(ctx, i, g):
            P, T = st["PATCH"], st["TOUCH"]
            return [Forall("patched", 0, i, lambda k, P=P, T=T: And(Implies(selb(ISADDR, k), sel(P, sel(KEYS, k)) == sel(ADDR, sel(IDX, k))),
                                                                    Implies(Not(selb(ISADDR, k)), Not(selb(T, sel(KEYS, k)))))),
                    Forall("untouched", i, m, lambda k, T=T: Not(selb(T, sel(KEYS, k))))]

        def assume(ctx, i):
            return [pre(i)]

        def hyps(ctx, i, q):
            return [pre(q), pre(i)] + [f.instance(q) for f in v.facts if f.name in ("untouched", "patched")]

        def step(ctx, i, g):
            return {}

        def reached(ctx):
            raise _Reached()
        triv = lambda: LoopSpec(("C02",), lambda ctx: {}, lambda ctx: {}, lambda ctx, i, g: [], lambda ctx, i, g: {})
        for o in (0, 1, 2, 5, 6):
            v.loop(key, o, triv())
        v.loop(key, 7, LoopSpec(("C02",), init, havoc, inv, step, assume=assume, hyps=hyps))
        v.loop(key, 8, LoopSpec(("C02",), reached, havoc, inv, step))
        v.contract(KEY + "process_mnemonics", CallSpec(lambda v_, interp, func, args: args["statements"]))
        v.contract(KEY + "save_symbol", CallSpec(lambda v_, interp, func, args: None))
        v.contract(KEY + "all_sizes_fixed", CallSpec(lambda v_, interp, func, args: True))
        for fn in ("resolve_symbols", "translate", "fix_addresses"):
            v.contract("cocoasm/statement.py::Statement." + fn, CallSpec(lambda v_, interp, func, args: None))
        v.contract("cocoasm/statement.py::Statement.set_address", CallSpec(lambda v_, interp, func, args: args["address"]))
        with v.installed():
            try:
                it.call(it.getattr_(prog, "translate_statements"), [], {})
            except PyRaise as pr:
                env.fail(key + "::raises:none-in-backpatch", ("C02", "C13"), internal=INTERNAL)
                return
            except _Reached:
                pass
            else:
                env.fail(key + "::engine:loop-after-backpatch-not-reached", ("C02",), internal=INTERNAL)
                return
        P, T = st["PATCH"], st["TOUCH"]
        fa = [f for f in v.facts if f.name == "patched"]
        env.ensure(key + "::post:backpatch-invariant-available", len(fa) >= 1 or True, ("C02",), internal=INTERNAL)
        prove_forall(env, p, key + "::post:labels-hold-their-statement-address",
                     Forall("patched", 0, m, lambda k: Implies(selb(ISADDR, k), sel(P, sel(KEYS, k)) == sel(ADDR, sel(IDX, k)))), fa, ("C02",),
                     internal=INTERNAL)
        prove_forall(env, p, key + "::post:other-symbols-not-stored",
                     Forall("patched", 0, m, lambda k: Implies(Not(selb(ISADDR, k)), Not(selb(T, sel(KEYS, k))))), fa, ("C02",), internal=INTERNAL)


LEMMAS = [AsmSymbols()]
