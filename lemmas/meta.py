"""
C18 -- relocation, renaming, reformatting, suffix append (self-composition over the real pipeline).

  relocate   the same program at two origins, both SYMBOLIC (hex digits), on the same side of $100:
             every statement has the same length; bytes are equal except that absolute references to own labels
             differ by exactly D = org' - org and relative displacements do not change   [unbounded in org, org']
  rename     consistent label renamings to adversarial names (containing register letters, digits, @)
  layout     white-space runs, comment variants (with / without ';', operand-like text), mnemonic case
  suffix     appending statements leaves bytes / addresses / symbols of the existing statements unchanged
The last three range over a program corpus: bounded stand-in for "all programs" (labelled bounded).
"""
import re

from specs import mc6809
from pyvc.asmh import assemble
from lemmas.common import literal
from lemmas.corpus import PROGRAMS

RELOC = {
    # statement templates using labels T (target) -- absolute or relative class
    "abs-jmp": (" JMP T\n", "abs"), "abs-ldx-imm": (" LDX #T\n", "abs"), "abs-lda": (" LDA T\n", "abs"), "abs-ind": (" LDA [T]\n", "abs"),
    "abs-plus": (" LDD #T+2\n", "abs"), "abs-minus": (" JSR T-1\n", "abs"), "abs-idx": (" LDA T,X\n", "abs"),
    "rel-bra": (" BRA T\n", "rel"), "rel-lbsr": (" LBSR T\n", "rel"), "rel-pcr": (" LDA T,PCR\n", "rel"), "rel-pcr-ind": (" LEAX [T,PCR]\n", "rel"),
    "const": (" LDA #$41\n", "const"), "const-ext": (" STA $0400\n", "const"), "fdb-label": (" FDB T\n", "abs-data"),
}


LAST_EXTRA = {
    "rel-lbra": (" LBRA T\n", "rel"), "rel-bsr": (" BSR T\n", "rel"), "rel-leay-pcr": (" LEAY T,PCR\n", "rel"), "rel-jmp-pcr-ind": (" JMP [T,PCR]\n", "rel"),
    "idx-auto": (" LDA ,X+\n", "const"), "idx-ofs16": (" LDD 300,Y\n", "const"), "direct": (" STA <$20\n", "const"), "inh": (" RTS\n", "const"),
    "imm16": (" LDX #$1234\n", "const"), "fcb": (" FCB 1,2\n", "const"), "fcc": (" FCC /AB/\n", "const"), "rmb": (" RMB 5\n", "const"),
    "pshs": (" PSHS A,B\n", "const"), "tfr": (" TFR X,Y\n", "const"),
    # accumulator offsets: the offset field reads like a symbol name
    "idx-acc-b": (" LDA B,X\n", "const"), "idx-acc-d": (" LEAX D,Y\n", "const"), "idx-acc-a": (" STA A,U\n", "const"),
    "idx-acc-ind": (" LDD [B,S]\n", "const"), "exg": (" EXG A,B\n", "const"),
}


class Meta:
    name = "meta"
    props = ("C18",)
    max_paths = 3000

    def cells(self, tier):
        out = []
        for k in RELOC:
            for side in ("high", "low"):
                for d in ("fwd", "bwd"):
                    out.append({"id": "relocate/%s/%s/%s" % (k, side, d), "k": "relocate", "stmt": k, "side": side, "dir": d})
        for p in PROGRAMS:
            out.append({"id": "rename/%s" % p, "k": "rename", "p": p, "bounded": "corpus program %s, 15 renamings" % p})
            out.append({"id": "layout/%s" % p, "k": "layout", "p": p, "bounded": "corpus program %s, whitespace/comment/case variants" % p})
            out.append({"id": "suffix/%s" % p, "k": "suffix", "p": p, "bounded": "corpus program %s, 4 suffixes" % p})
            out.append({"id": "relocate-corpus/%s" % p, "k": "reloc_corpus", "p": p, "bounded": "corpus program %s, 4 origin shifts" % p})
        # every statement class as the LAST statement of the base program (the statement most exposed to "is there a next one")
        for k in list(RELOC) + list(LAST_EXTRA):
            for tgt in ("before", "self"):
                out.append({"id": "suffix-last/%s/%s" % (k, tgt), "k": "suffix_last", "stmt": k, "tgt": tgt,
                            "bounded": "base program ending in %s (target %s), 9 suffixes" % (k, tgt)})
        return out

    def run(self, env, cell):
        getattr(self, "k_" + cell["k"])(env, cell, env.mode == "native")

    # ------------------------------------------------------------------ relocation, symbolic origins
    def k_relocate(self, env, cell, native):
        tmpl, cls = RELOC[cell["stmt"]]
        o1t, o1 = literal(env, "hex4", "o1")
        o2t, o2 = literal(env, "hex4", "o2")
        if cell["side"] == "high":
            env.assume(o1 >= 0x100)
            env.assume(o2 >= 0x100)
            env.assume(o1 <= 0xFF00)
            env.assume(o2 <= 0xFF00)
        else:
            env.assume(o1 <= 0xF0)
            env.assume(o2 <= 0xF0)
        if cell["dir"] == "fwd":
            body = [tmpl, " NOP\n", "T NOP\n", " RTS\n"]
            si = 1
        else:
            body = ["T NOP\n", " NOP\n", tmpl, " RTS\n"]
            si = 3
        r1 = assemble(env, [env.text(" ORG ", o1t, "\n")] + body)
        r2 = assemble(env, [env.text(" ORG ", o2t, "\n")] + body)
        env.info["lines"] = [str(x) for x in body]
        sig = lambda w: (lambda: "relocate/%s/%s/%s:%s" % (cell["stmt"], cell["side"], cell["dir"], w)) if native else None
        if r1.status != r2.status:
            env.fail("C18:relocation-same-acceptance", ("C18",), sig("status %s vs %s" % (r1.status, r2.status)))
            return
        if r1.status != "ok":
            env.ensure("C18:relocation-same-acceptance", True, ("C18",))
            return
        D = o2 - o1
        s1, s2 = r1.stmts[si], r2.stmts[si]
        if len(s1.bytes) != len(s2.bytes):
            env.fail("C18:relocation-same-length", ("C18",), sig("length %d vs %d" % (len(s1.bytes), len(s2.bytes))))
            return
        env.ensure("C18:relocation-same-length", True, ("C18",))
        for k, (a, b) in enumerate(zip(r1.stmts, r2.stmts)):
            if a.is_org:
                continue
            env.ensure("C18:relocation-addresses-shift-by-D", b.address - a.address == D, ("C18",), sig("address@%d" % k))
        if cls in ("rel", "const"):
            ok = True
            for x, y in zip(s1.bytes, s2.bytes):
                ok = ok & (x == y)
            env.ensure("C18:relocation-%s-bytes-unchanged" % ("relative" if cls == "rel" else "constant"), ok, ("C18",), sig("bytes-differ"))
            return
        if cls == "abs-data":
            v1 = s1.bytes[0] * 256 + s1.bytes[1] if len(s1.bytes) == 2 else None
            v2 = s2.bytes[0] * 256 + s2.bytes[1] if len(s2.bytes) == 2 else None
            if v1 is None:
                env.fail("C18:relocation-absolute-shifts-by-D", ("C18",), sig("fdb-length=%d" % len(s1.bytes)))
                return
            env.ensure("C18:relocation-absolute-shifts-by-D", (v2 - v1 - D) % 65536 == 0, ("C18",), sig("fdb-value"))
            return
        d1, d2 = mc6809.decode(s1.bytes), mc6809.decode(s2.bytes)
        if not (d1.ok and d2.ok and d1.length == len(s1.bytes) and d2.length == len(s2.bytes)):
            env.fail("C18:relocation-absolute-shifts-by-D", ("C18",), sig("undecodable"))
            return
        if d1.mode != d2.mode or d1.kind != d2.kind:
            env.fail("C18:relocation-absolute-shifts-by-D", ("C18",), sig("mode %s/%s vs %s/%s" % (d1.mode, d1.kind, d2.mode, d2.kind)))
            return
        v1 = d1.value if d1.value is not None else d1.offset
        v2 = d2.value if d2.value is not None else d2.offset
        env.ensure("C18:relocation-absolute-shifts-by-D", (v2 - v1 - D) % 65536 == 0, ("C18",), sig("operand-shift"))

    # ------------------------------------------------------------------ corpus based
    def _view(self, run):
        if run.status != "ok":
            return (run.status,)
        return ("ok", list(run.image), [s.address for s in run.stmts], sorted(run.symbols.values(), key=lambda v: (v is None, v)))

    def k_rename(self, env, cell, native):
        lines = PROGRAMS[cell["p"]]
        labels = [l.split()[0] for l in lines if l[0] not in " \t;\n"]
        base = self._view(assemble(env, lines))
        schemes = [lambda i, n: "L%d" % i, lambda i, n: "XRAY%d" % i, lambda i, n: "B%dA" % i, lambda i, n: "PCRX%d" % i,
                   lambda i, n: "S@%dU" % i, lambda i, n: "DD%dY" % i, lambda i, n: "Q" * (i + 1)]
        # names built from register letters only (none of them a register name), rotated so that every label gets each of them
        reg_names = ["AB", "BD", "ABD", "XY", "US", "XS", "AD", "YU"]
        for k in range(len(reg_names)):
            schemes.append(lambda i, n, k=k: reg_names[(i + k) % len(reg_names)] if len(labels) <= len(reg_names) else "%s%d" % (reg_names[(i + k) % len(reg_names)], i))
        # names that read like a number in another assembler's notation (hex digits + H, digits + trailing letter, O / Q / B suffixes)
        for words in (["EACH", "BEACH", "FADEH", "ACEH", "DEADH", "BADH", "CAFEH", "FACEH", "ABEH", "DADH", "FEEDH", "BEEFH", "DEAFH", "ADDH", "EBBH"],
                      ["B1010B", "O17O", "Q17Q", "D99D", "E1", "A0", "F00", "BAD", "ADD", "DAD", "BEE", "C0DE", "FEED", "ACE", "D0"]):
            if len(labels) <= len(words):
                schemes.append(lambda i, n, words=words: words[i])
        for si, sch in enumerate(schemes):
            m = {n: sch(i, n) for i, n in enumerate(labels)}
            new = []
            for l in lines:
                new.append(re.sub(r"[A-Za-z@][A-Za-z0-9@]*", lambda mo: m.get(mo.group(0), mo.group(0)), l)
                           if not re.search(r"FCC", l) else re.sub(r"^[A-Za-z@][A-Za-z0-9@]*", lambda mo: m.get(mo.group(0), mo.group(0)), l))
            v = self._view(assemble(env, new))
            env.ensure("C18:renaming-changes-nothing", v == base, ("C18",),
                       (lambda si=si, v=v: "rename/%s:scheme%d:%s" % (cell["p"], si, _diff(base, v))) if native else None)

    def k_layout(self, env, cell, native):
        lines = PROGRAMS[cell["p"]]
        base = self._view(assemble(env, lines))

        def fields(l):
            m = re.match(r"^(\S*)(\s+)(\S+)(\s*)(.*?)\s*$", l.rstrip("\n"))
            return m.group(1), m.group(3), m.group(5)
        variants = {
            "tabs": lambda lab, mn, op: "%s\t%s\t%s\n" % (lab, mn, op),
            "wide": lambda lab, mn, op: "%s   %s    %s   \n" % (lab, mn, op),
            "single": lambda lab, mn, op: "%s %s %s\n" % (lab, mn, op),
            "comment": lambda lab, mn, op: "%s %s %s ; LDA #1,X [comment] $FF\n" % (lab, mn, op),
            "comment-delims": lambda lab, mn, op: "%s %s %s ; don't \"quote\" 5/8 of it\n" % (lab, mn, op),
            "comment-nosemi": lambda lab, mn, op: ("%s %s %s  plain words here\n" % (lab, mn, op)) if op and "FCC" not in mn else "%s %s %s\n" % (lab, mn, op),
            "lower": lambda lab, mn, op: "%s %s %s\n" % (lab, mn.lower(), op),
            "mixed": lambda lab, mn, op: "%s %s %s\n" % (lab, mn[0].upper() + mn[1:].lower(), op),
            "comment-lines": None,
            "comment-numbered": "numbered",
            "comment-every-other": "alternate",
        }
        for vn, fn in variants.items():
            if fn is None:
                new = []
                for l in lines:
                    new += ["; a comment line\n", l, "\n"]
            elif fn in ("numbered", "alternate"):
                # a DIFFERENT comment on every statement / a comment on every other statement only (statements that read the
                # same must not be told apart, or confused, by their comments)
                new = []
                for k, l in enumerate(lines):
                    lab, mn, op = fields(l)
                    if "FCC" in mn or (fn == "alternate" and k % 2):
                        new.append(l)
                    else:
                        new.append("%s %s %s ; note %d\n" % (lab, mn, op, k))
            else:
                new = [fn(*fields(l)) for l in lines]
            v = self._view(assemble(env, new))
            env.ensure("C18:reformatting-changes-nothing", v == base, ("C18",),
                       (lambda vn=vn, v=v: "layout/%s:%s:%s" % (cell["p"], vn, _diff(base, v))) if native else None)

    def k_suffix(self, env, cell, native):
        lines = [l for l in PROGRAMS[cell["p"]] if " END" not in l]
        base = assemble(env, lines)
        n = len(base.stmts) if base.status == "ok" else 0
        suffixes = [[" NOP\n"], ["ZZ9 LDA #1\n", " BRA ZZ9\n"], [" FCB 1,2,3\n", "ZZ8 FDB $1234\n"], [" RMB 300\n", "ZZ7 JMP ZZ7\n"]]
        for k, sfx in enumerate(suffixes):
            r = assemble(env, lines + sfx)
            if base.status != "ok":
                continue
            if r.status != "ok":
                env.fail("C18:suffix-changes-nothing", ("C18",), (lambda k=k: "suffix/%s:%d:rejected" % (cell["p"], k)) if native else None)
                continue
            ok = all(a.address == b.address and a.bytes == b.bytes for a, b in zip(base.stmts, r.stmts[:n])) and \
                all(r.symbols.get(s) == v for s, v in base.symbols.items())
            env.ensure("C18:suffix-changes-nothing", ok, ("C18",), (lambda k=k: "suffix/%s:%d:prefix-changed" % (cell["p"], k)) if native else None)

    def k_suffix_last(self, env, cell, native):
        tmpl = (RELOC.get(cell["stmt"]) or LAST_EXTRA[cell["stmt"]])[0]
        if cell["tgt"] == "before":
            lines = ["        ORG $3000\n", "T       FCB 1,2,3\n", "START   LDA #1\n", "       " + tmpl]
        else:
            lines = ["        ORG $3000\n", "START   LDA #1\n", "T      " + tmpl]
        base = assemble(env, lines)
        if base.status != "ok":
            env.ensure("C18:suffix-changes-nothing", True, ("C18",))
            return
        n = len(base.stmts)
        suffixes = [[" RTS\n"], [" NOP\n", " END START\n"], ["ZZ8 FDB $1234\n"], [" RMB 300\n", "ZZ7 JMP ZZ7\n"], [" ORG $5000\n", " NOP\n"],
                    # appended definitions of symbols whose names are register names: the existing statements do not refer to them
                    ["B EQU 5\n", "D EQU 6\n", "A EQU 3\n"], ["X EQU 5\n", "Y EQU 6\n", "U EQU 2\n", "S EQU 1\n", "PC EQU 7\n", "PCR EQU 9\n"],
                    ["A NOP\n", "B NOP\n", "D RTS\n"], ["X NOP\n", "DP NOP\n", "CC RTS\n"]]
        for k, sfx in enumerate(suffixes):
            r = assemble(env, lines + sfx)
            if r.status != "ok":
                env.fail("C18:suffix-changes-nothing", ("C18",),
                         (lambda k=k: "suffix-last/%s/%s:%d:rejected" % (cell["stmt"], cell["tgt"], k)) if native else None)
                continue
            ok = all(a.address == b.address and a.bytes == b.bytes for a, b in zip(base.stmts, r.stmts[:n])) and \
                all(r.symbols.get(s) == v for s, v in base.symbols.items())
            env.ensure("C18:suffix-changes-nothing", ok, ("C18",),
                       (lambda k=k: "suffix-last/%s/%s:%d:prefix-changed" % (cell["stmt"], cell["tgt"], k)) if native else None)

    def k_reloc_corpus(self, env, cell, native):
        lines = PROGRAMS[cell["p"]]
        orgs = [l for l in lines if re.match(r"^\s+ORG\s", l)]
        if len(orgs) != 1:
            env.ensure("C18:relocation-corpus", True, ("C18",))
            return
        o = int(orgs[0].split()[1].lstrip("$"), 16)
        base = assemble(env, lines)
        if base.status != "ok":
            env.ensure("C18:relocation-corpus", True, ("C18",))
            return
        for D in (0x100, 0x1234, -0x80 if o >= 0x200 else 0x20, 0x7F01):
            if not ((o < 0x100) == (o + D < 0x100)) or o + D < 0 or o + D + len(base.image) > 65535:
                continue
            new = [re.sub(r"ORG\s+\S+", "ORG $%04X" % (o + D), l) if l in orgs else l for l in lines]
            r = assemble(env, new)
            if r.status != "ok":
                env.fail("C18:relocation-corpus", ("C18",), (lambda D=D: "relocate-corpus/%s:D=%d:rejected" % (cell["p"], D)) if native else None)
                continue
            oi = next(k for k, st in enumerate(base.stmts) if st.is_org)
            ok = len(r.image) == len(base.image) and all(b.address - a.address == D for a, b in list(zip(base.stmts, r.stmts))[oi + 1:])
            # every byte equal, or part of a 16-bit absolute operand that moved by exactly D
            if ok:
                for a, b in zip(base.stmts, r.stmts):
                    if a.bytes == b.bytes:
                        continue
                    if len(a.bytes) != len(b.bytes) or len(a.bytes) < 2:
                        ok = False
                        break
                    va = a.bytes[-2] * 256 + a.bytes[-1]
                    vb = b.bytes[-2] * 256 + b.bytes[-1]
                    if a.bytes[:-2] != b.bytes[:-2] or (vb - va - D) % 65536 != 0:
                        ok = False
                        break
            env.ensure("C18:relocation-corpus", ok, ("C18",), (lambda D=D: "relocate-corpus/%s:D=%d:bytes" % (cell["p"], D)) if native else None)


def _diff(a, b):
    if a[0] != b[0]:
        return "status %s vs %s" % (a[0], b[0])
    if a[0] != "ok":
        return "same"
    if a[1] != b[1]:
        return "image differs (len %d vs %d)" % (len(a[1]), len(b[1]))
    if a[2] != b[2]:
        return "addresses differ"
    return "symbol values differ"


LEMMAS = [Meta()]
