"""
DiskFile.write_to_granules -- unbounded contract (C08 "stream in chain order", C07 writer side).

For ANY data length L, ANY chain G of k distinct granules (k large enough) and ANY data contents, after
write_to_granules(data, G, preamble, postamble):

    stream:  for all j < |T| :   A'[ offset(G[j div 2304]) + j mod 2304 ] == T[j]        T = preamble || data || postamble
    frame:   every byte outside the granules G[0 .. needed) is unchanged

with NO condition on where the trailer falls (until the fix "write_to_granules keeps the postamble inside the granule
chain" the contract needed the pre-condition that the trailer does not straddle a granule end; see `fixed` in
known_findings.json).  The proof follows the recursion of the real function: the nested call is replaced by this very
contract (decreases = data length; the nested call's parameter shape -- preamble None, postamble None, first_granule
False, data = rest of data || trailer -- is a cell of its own), write_bytes_to_buffer by its contract (proved in
disk_writer_fns), seek_granule and the preamble / postamble writers are inlined.  Distinctness of the chain is carried by an injectivity ghost P[G[m]] == m;
"q lies in one of the granules G[lo .. lo+cnt)" is expressed without quantifier through the inverse of the geometry.
"""
import z3

from specs import diskbasic as db
from pyvc.filesh import Files, Raised
from pyvc.lists import ArrList
from pyvc.contracts import Verifier, CallSpec, Forall, prove_forall
from pyvc.sym import SymInt, mk, mks, cur, branch, And, Or, Not, Implies, Ite
from pyvc import sym

DSK = "cocoasm.virtualfiles.disk"
KEY = "cocoasm/virtualfiles/disk.py::DiskFile."
N = db.IMAGE_SIZE
GR = db.GRANULE
T17 = db.DIR_TRACK * db.TRACK            # 78336: first byte of the directory track
T18 = T17 + db.TRACK                     # 82944: first byte after it


def sel(arr, i):
    return SymInt(z3.simplify(z3.Select(arr, sym._z(i))))


def _hi(v):
    return (v >> 8) if isinstance(v, int) else mks(v.e / 256)


def _lo(v):
    return (v & 255) if isinstance(v, int) else mks(v.e % 256)


def offset(g):
    return g * GR + Ite(g >= 34, 2 * GR, 0)


def gran_of(q):
    """inverse geometry: (granule number holding byte q, q is inside a granule at all)"""
    gq = Ite(q < T17, sym.floordiv(q, GR) if isinstance(q, SymInt) else q // GR, (sym.floordiv(q, GR) if isinstance(q, SymInt) else q // GR) - 2)
    valid = Or(And(q >= 0, q < T17), And(q >= T18, q < N))
    return gq, valid


class WTG:
    """one verification context (arrays + ghost) for a write_to_granules cell"""

    def __init__(self, env, F, pl, has_post, hdr=(0x0102, 0x1234, 0x5678)):
        """hdr = (recorded data length, load address, exec address): ints or symbolic 16-bit values"""
        self.env, self.F, self.pl, self.has_post = env, F, pl, has_post
        dl, la, ea = hdr
        self.GA = z3.Array("h_chain", z3.IntSort(), z3.IntSort())
        self.P = z3.Array("Pinj", z3.IntSort(), z3.IntSort())
        self.DA = z3.Array("h_dataarr", z3.IntSort(), z3.IntSort())
        self.POST = [0xFF, 0x00, 0x00, _hi(ea), _lo(ea)]
        self.PRE = {5: [0x00, _hi(dl), _lo(dl), _hi(la), _lo(la)], 3: [0xFF, _hi(dl), _lo(dl)], 0: []}[pl]
        self.postlen = 5 if has_post else 0

    def g(self, m):
        return sel(self.GA, m)

    def chain_pre(self, m):
        """precondition instance at chain position m: granule in range, injectivity ghost"""
        return And(self.g(m) >= 0, self.g(m) <= 67, sel(self.P, self.g(m)) == m)

    def inregion(self, q, lo, cnt):
        gq, valid = gran_of(q)
        pr = sel(self.P, gq)
        return And(valid, pr >= lo, pr < lo + cnt, sel(self.GA, pr) == gq)

    def stream(self, j, pl, dview, Ld):
        """T[j] for a call whose preamble has pl bytes, data view dview (offset into DA) of length Ld"""
        e = sel(self.DA, dview + (j - pl))
        if self.has_post:
            t = j - pl - Ld
            pe = self.POST[4]
            for idx in (3, 2, 1, 0):
                pe = Ite(t == idx, self.POST[idx], pe)
            e = Ite(j < pl + Ld, e, pe)
        for idx in range(pl - 1, -1, -1):
            e = Ite(j == idx, self.PRE[idx], e)
        return e

    def loc(self, j, goff):
        m = sym.floordiv(j, GR) if isinstance(j, SymInt) else j // GR
        r = (j % GR)
        return offset(self.g(goff + m)) + r


class DiskWriteToGranules:
    name = "disk_wtg"
    props = ("C08", "C07", "C13", "C16", "C09")
    max_paths = 400

    def cells(self, tier):
        # the nested call of the recursion has another parameter shape (preamble None, first_granule False): the contract
        # assumed for it must be proved for that shape too, with and without postamble, or the induction is incomplete
        return [{"id": "fn/write_to_granules/ML", "kind": "ML"}, {"id": "fn/write_to_granules/BASIC", "kind": "BASIC"},
                {"id": "fn/write_to_granules/ASCII", "kind": "ASCII"},
                {"id": "fn/write_to_granules/nested-call", "kind": "REC-NOPOST"}]

    def probes(self, cell):
        kind = cell["kind"]
        for L, chain in ((0, [5]), (1, [33]), (2294, [33, 34]), (2299, [67, 0]), (2304, [34, 33]), (5000, [10, 50, 2]), (4598, [1, 2, 3]),
                         (2289, [66]), (6000, [0, 67, 33]), (7000, [33, 34, 35, 36])):
            pre = {"ML": 5, "BASIC": 3, "ASCII": 0, "REC-POST": 0, "REC-NOPOST": 0}[kind]
            yield {"L": L, "k": len(chain), "chain": chain, "dataarr": [(3 * i + 1) % 251 for i in range(L)]}

    def run(self, env, cell):
        if env.mode == "native":
            return self.native(env, cell)
        return self.symbolic(env, cell)

    # ------------------------------------------------------------------ native (replay / probes)
    def native(self, env, cell):
        F = Files(env)
        h = env.holes
        kind = cell["kind"]
        chain = list(h.get("chain", []))[:h.get("k", len(h.get("chain", [])))]
        data = list(h.get("dataarr", []))[:h.get("L", len(h.get("dataarr", [])))]
        d = F.new(DSK, "DiskFile")
        buf = F.get(d, "buffer")
        base = list(buf)
        hdr = (h.get("hdr_len", 0x0102), h.get("hdr_load", 0x1234), h.get("hdr_exec", 0x5678))
        pre, post, stream = self._objects(F, kind, data, hdr)
        need = len(stream) // GR + 1
        if len(set(chain)) != len(chain) or any(not 0 <= g <= 67 for g in chain) or len(chain) < need:
            raise sym.PathAbort()
        arg_data, arg_chain = list(data), list(chain)
        try:
            if kind.startswith("REC"):
                F.method(d, "write_to_granules", arg_data, arg_chain, None, post, first_granule=False)
            else:
                F.method(d, "write_to_granules", arg_data, arg_chain, pre, post)
        except Raised as e:
            env.fail(KEY + "write_to_granules::raises:none", ("C08", "C13"), lambda: "write_to_granules:%s:raised:%s" % (kind, e.cls))
            return
        # the caller's lists are outside the frame (the data list belongs to the CoCoFile, which goes to other containers later)
        env.ensure(KEY + "write_to_granules::post:frame:arguments-unchanged", arg_data == list(data) and arg_chain == list(chain), ("C16", "C09"),
                   lambda: "write_to_granules:%s:arguments-modified:data %d->%d,chain %d->%d" % (kind, len(data), len(arg_data), len(chain), len(arg_chain)))
        ok = all(buf[db.offset(chain[j // GR]) + j % GR] == stream[j] for j in range(len(stream)))
        env.ensure(KEY + "write_to_granules::post:stream", ok, ("C08", "C07"), lambda: "write_to_granules:%s:stream:L=%d" % (kind, len(data)))
        region = set()
        for g in chain[:need]:
            region.update(range(db.offset(g), db.offset(g) + GR))
        okf = all(buf[q] == base[q] for q in range(N) if q not in region)
        env.ensure(KEY + "write_to_granules::post:frame", okf, ("C08",), lambda: "write_to_granules:%s:frame:L=%d" % (kind, len(data)))

    def _objects(self, F, kind, data, hdr=(0x0102, 0x1234, 0x5678)):
        """real preamble / postamble objects with the header values hdr (concrete natively, symbolic in the proof), and the
        expected stream (native use only)"""
        dl, la, ea = hdr
        if kind == "ML":
            pre = F.new(DSK, "MLPreamble")
            F.set(pre, "data_length", F.numeric(dl))
            F.set(pre, "load_addr", F.numeric(la))
            post = F.new(DSK, "Postamble")
            F.set(post, "exec_addr", F.numeric(ea))
            stream = [0x00, _hi(dl), _lo(dl), _hi(la), _lo(la)] + list(data) + [0xFF, 0x00, 0x00, _hi(ea), _lo(ea)]
        elif kind == "BASIC":
            pre = F.new(DSK, "BasicPreamble")
            F.set(pre, "data_length", F.numeric(dl))
            post = None
            stream = [0xFF, _hi(dl), _lo(dl)] + list(data)
        elif kind == "REC-POST":
            pre = None
            post = F.new(DSK, "Postamble")
            F.set(post, "exec_addr", F.numeric(ea))
            stream = list(data) + [0xFF, 0x00, 0x00, _hi(ea), _lo(ea)]
        elif kind == "REC-NOPOST":
            pre, post, stream = None, None, list(data)
        else:
            pre = F.new(DSK, "ASCIIPreamble")
            post = None
            stream = list(data)
        return pre, post, stream

    # ------------------------------------------------------------------ symbolic proof
    def symbolic(self, env, cell):
        F = Files(env)
        kind = cell["kind"]
        pl = {"ML": 5, "BASIC": 3, "ASCII": 0, "REC-POST": 0, "REC-NOPOST": 0}[kind]
        has_post = kind in ("ML", "REC-POST")
        hdr = (env.hole_int("hdr_len", 0, 65535), env.hole_int("hdr_load", 0, 65535), env.hole_int("hdr_exec", 0, 65535))
        W = WTG(env, F, pl, has_post, hdr)
        L = env.hole_int("L", 0, 65535)
        k = env.hole_int("k", 1, 68)
        env.hole_terms["chain"] = ("arr", W.GA, k.e)
        env.hole_terms["dataarr"] = ("arr", W.DA, L.e)
        total = pl + L + W.postlen
        need = sym.floordiv(total, GR) + 1
        p = cur()
        p.assume(need <= k)
        d = F.new(DSK, "DiskFile")
        A0 = z3.Array("A0", z3.IntSort(), z3.IntSort())
        buf = ArrList(A0, N)
        F.set(d, "buffer", buf)
        pre, post, _ = self._objects(F, kind, [], hdr)
        data = ArrList(W.DA, L)
        chain = ArrList(W.GA, k)
        # precondition instances the body needs directly: the first chain element
        p.assume(W.chain_pre(0))
        v = Verifier(env, F.it)
        key = KEY + "write_to_granules"
        wkey = KEY + "write_bytes_to_buffer"
        state = {"calls": 0}

        def apply_wbtb(v_, interp, func, args):
            pointer, dat = args["pointer"], args["data_to_write"]
            b = interp.getattr_(args["self"], "buffer")
            n = dat.length()
            env.ensure(wkey + "::pre@call:in-bounds", And(pointer >= 0, pointer + n <= N), ("C08", "C13"))
            Aold = b.arr
            p.fresh += 1
            Anew = z3.Array("Awb!%d" % p.fresh, z3.IntSort(), z3.IntSort())
            b.arr = Anew
            doff, darr = dat.off, dat.arr
            v_.facts.append(Forall("wb-written", 0, n, lambda t, Anew=Anew, pointer=pointer, doff=doff, darr=darr:
                                   sel(Anew, pointer + t) == sel(darr, doff + t)))
            v_.facts.append(Forall("wb-frame", 0, N, lambda q, Anew=Anew, Aold=Aold, pointer=pointer, n=n:
                                   Implies(Or(q < pointer, q >= pointer + n), sel(Anew, q) == sel(Aold, q))))
            state["wb"] = (pointer, n, doff)
            return pointer + n
        v.contract(wkey, CallSpec(apply_wbtb))

        def apply_rec(v_, interp, func, args):
            """the function's own contract for the nested call (no preamble, no postamble, first_granule False)"""
            dat, ch = args["file_data"], args["allocated_granules"]
            if args["preamble"] is not None or args["first_granule"] is not False or args["postamble"] is not None:
                raise sym.EngineError("nested write_to_granules call with a preamble / postamble")
            Ld, kd = dat.length(), ch.length()
            needd = sym.floordiv(Ld, GR) + 1
            env.ensure(key + "::pre@call:enough-granules", needd <= kd, ("C08",))
            env.ensure(key + "::decreases", Ld < L + W.postlen, ("C08", "C13"))
            b = interp.getattr_(args["self"], "buffer")
            Aold = b.arr
            p.fresh += 1
            Anew = z3.Array("Arec!%d" % p.fresh, z3.IntSort(), z3.IntSort())
            b.arr = Anew
            goff, doff, darr = ch.off, dat.off, dat.arr
            v_.facts.append(Forall("rec-stream", 0, Ld, lambda j, Anew=Anew, goff=goff, doff=doff, darr=darr:
                                   sel(Anew, W.loc(j, goff)) == sel(darr, doff + j)))
            v_.facts.append(Forall("rec-frame", 0, N, lambda q, Anew=Anew, Aold=Aold, goff=goff, needd=needd:
                                   Implies(Not(W.inregion(q, goff, needd)), sel(Anew, q) == sel(Aold, q))))
            state["rec"] = (goff, doff, Ld, needd)
            return None
        v.contract(key, CallSpec(apply_rec, nested_only=True))

        # preamble / postamble writers through their contracts (proved for all header values in disk_writer_fns): the bytes
        # 00|FF, length hi/lo, load hi/lo  resp.  FF 00 00 exec hi/lo  at the pointer, nothing else, returns pointer + length
        def amble_contract(cls, bytes_):
            def apply_amble(v_, interp, func, args):
                bufarg, ptr = args["buffer"], args["pointer"]
                n_ = len(bytes_)
                if isinstance(bufarg, ArrList):
                    env.ensure(KEY.replace("DiskFile.", cls + ".") + "write::pre@call:room", And(ptr >= 0, ptr + n_ <= bufarg.length()), ("C08", "C13"))
                    for k_, bv in enumerate(bytes_):
                        bufarg.arr = z3.Store(bufarg.arr, sym._z(bufarg.off + ptr + k_), sym._z(bv))
                else:
                    if not isinstance(ptr, int) or ptr + n_ > len(bufarg):
                        raise sym.EngineError("amble contract on a short python list")
                    for k_, bv in enumerate(bytes_):
                        bufarg[ptr + k_] = bv
                return ptr + n_
            v.contract(KEY.replace("DiskFile.", cls + ".") + "write", CallSpec(apply_amble))
        if kind == "ML":
            amble_contract("MLPreamble", W.PRE)
        elif kind == "BASIC":
            amble_contract("BasicPreamble", W.PRE)
        if has_post:
            amble_contract("Postamble", W.POST)
        data_arr0 = data.arr if isinstance(data, ArrList) else None
        with v.installed():
            try:
                if kind.startswith("REC"):
                    F.method(d, "write_to_granules", data, chain, None, post, first_granule=False)
                else:
                    F.method(d, "write_to_granules", data, chain, pre, post)
            except Raised as e:
                env.fail(key + "::raises:none", ("C08", "C13"))
                return
        A = buf.arr
        facts = v.facts
        g0 = W.g(0)
        o0 = offset(g0)
        if isinstance(data, ArrList):
            env.ensure(key + "::post:frame:arguments-unchanged", And(data.arr is data_arr0, data.length() == L), ("C16", "C09"))

        def hyp(q_or_j):
            # named instances of the chain precondition (positions 0, 1, and the positions the index can denote)
            hs = [W.chain_pre(0)]
            hs.append(Implies(k > 1, W.chain_pre(1)))
            return hs

        def stream_terms(j):
            ts = [o0 + j, j - pl, j - GR]
            if "wb" in state:
                pointer, n, doff = state["wb"]
                ts.append(o0 + j - pointer)
            return ts

        def stream_hyps(j):
            m = sym.floordiv(j, GR)
            return hyp(j) + [Implies(And(m >= 0, m < k), W.chain_pre(m))]
        prove_forall(env, p, key + "::post:stream", Forall("stream", 0, total, lambda j: sel(A, W.loc(j, 0)) == W.stream(j, pl, 0, L)),
                     facts, ("C08", "C07"), extra_instances=stream_terms, hyps=stream_hyps)

        def frame_hyps(q):
            gq, valid = gran_of(q)
            pr = sel(W.P, gq)
            return hyp(q) + [Implies(And(pr >= 0, pr < k), W.chain_pre(pr))]
        prove_forall(env, p, key + "::post:frame", Forall("frame", 0, N, lambda q: Implies(Not(W.inregion(q, 0, need)), sel(A, q) == sel(A0, q))),
                     facts, ("C08",), extra_instances=lambda q: [q], hyps=frame_hyps)


LEMMAS = [DiskWriteToGranules()]
