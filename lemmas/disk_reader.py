"""
Disk READER contracts, unbounded (C07 read-back side).

DiskFile.read_data(starting_granule, fat, preamble, data_length)   for ANY image contents, ANY chain G (ghost) linked through the
FAT, ANY data length L and each preamble shape (5 / 3 / 0 bytes, and the nested call's `None`):

    returns (data, pointer):   len(data) == L,   data[t] == image[ offset(G[(pl+t) div 2304]) + (pl+t) mod 2304 ]   -- chain order
                               pointer == position after the last byte read
    and raises nothing for a valid chain.  The proof follows the recursion: nested call through this very contract (its
    parameter shape `preamble=None` is a cell of its own, so the induction is complete), decreases = data_length, both copy
    loops cut with invariants, list.extend as ghost concatenation.

(Before the fix "read_data checks the bytes available for the granule being read" this contract needed the pre-condition
that the code's test `len(self.buffer[pointer:]) < data_length` does not fire; a valid chain starting near the end of the
image violated it -- VirtualFileValidationError.  Recorded under `fixed` in known_findings.json.)

DiskFile.calculate_file_length(granule, fat, bils)  (used for files without a length in the preamble)
    for ANY chain of m granules ending in $C0+s:   2304*(m-1) + (s-1)*256 + bils      (while loop: invariant with ghost level,
    variant m - level); pre-condition: the links are granule numbers 0..67 (not $C0..), the last entry has both top bits set.
"""
import z3

from specs import diskbasic as db
from pyvc.filesh import Files, Raised
from pyvc.lists import ArrList
from pyvc.contracts import Verifier, CallSpec, LoopSpec, Forall, prove_forall
from pyvc.sym import SymInt, mk, mks, cur, branch, And, Or, Not, Implies, Ite
from pyvc import sym
from lemmas.disk_wtg import sel, offset, GR, N, DSK, KEY

FAT = db.FAT_OFFSET
INTERNAL = "contract over any image / chain / length"


class SlotView:
    """directory slot i of image A with its (ghost) chain g: m -> granule and data length L -- the terms in which list_files'
    pre-condition is written (used by fn/list_files and by the stability lemma of disk_bridge)"""

    def __init__(self, A, i, g, L):
        self.A, self.i, self.g, self.L = A, i, g, L

    def ent(self, k):
        from lemmas.disk_addfile import DIR
        return sel(self.A, DIR + 32 * self.i + k)

    def active(self):
        return And(self.ent(0) != 0x00, self.ent(0) != 0xFF)

    def loc(self, j):
        m = sym.floordiv(j, GR) if isinstance(j, SymInt) else j // GR
        return offset(self.g(m)) + (j % GR)

    def strm(self, j):
        return sel(self.A, self.loc(j))

    def kind_pl(self):
        return Ite(self.ent(11) == 2, 5, Ite(self.ent(12) == 0xFF, 0, 3))

    def entry_bytes(self):
        return And(*[And(self.ent(k) >= 0, self.ent(k) <= 255) for k in (0, 11, 12, 13, 14, 15)])

    def valid(self):
        """the part of the pre-condition that holds for an ACTIVE slot: first granule from the entry, flag byte, recorded length,
        trailer of a machine-language stream"""
        L = self.L
        v = [self.g(0) == self.ent(13), self.g(0) >= 0, self.g(0) <= 67, L >= 0, L <= 65535]
        for k in range(5):
            v.append(And(self.strm(k) >= 0, self.strm(k) <= 255))
        ml = And(self.strm(0) == 0x00, self.strm(1) * 256 + self.strm(2) == L,
                 self.strm(5 + L) == 0xFF, self.strm(6 + L) == 0x00, self.strm(7 + L) == 0x00,
                 self.strm(8 + L) >= 0, self.strm(8 + L) <= 255, self.strm(9 + L) >= 0, self.strm(9 + L) <= 255)
        bas = And(self.strm(0) == 0xFF, self.strm(1) * 256 + self.strm(2) == L)
        v.append(Implies(self.ent(11) == 2, ml))
        v.append(Implies(And(self.ent(11) != 2, self.ent(12) != 0xFF), bas))
        return Implies(self.active(), And(*v))


def chain_wf(fat, g, m, s, j):
    """instance j of calculate_file_length's pre-condition for a chain of m granules: links are granule numbers, the last entry
    is $C0 + s   (fat(x): allocation-table entry of granule x)"""
    return And(g(j) >= 0, g(j) <= 67,
               Implies(And(j >= 0, j < m - 1), And(fat(g(j)) == g(j + 1), fat(g(j)) >= 0, fat(g(j)) <= 67)),
               Implies(j == m - 1, fat(g(j)) == 0xC0 + s))


def rd_link(fat, g, total, m):
    """instance m of read_data's pre-condition: while the stream goes on, the table links granule m to granule m + 1"""
    return Implies(total > GR * (m + 1), And(fat(g(m)) == g(m + 1), g(m + 1) >= 0, g(m + 1) <= 67))


class DiskReader:
    name = "disk_reader"
    props = ("C07", "C13")
    max_paths = 400

    def cells(self, tier):
        out = [{"id": "fn/read_data/%s" % k, "fn": "read_data", "kind": k} for k in ("ML", "BASIC", "ASCII", "nested-call")]
        out.append({"id": "fn/calculate_file_length", "fn": "cfl"})
        out.append({"id": "fn/list_files", "fn": "lf"})
        return out

    def probes(self, cell):
        if cell["fn"] == "lf":
            for sizes in ([5], [0, 2299, 300], [4603, 1, 2304], [2295, 2296, 2297, 2298], [7000, 0, 0, 11]):
                yield {"sizes": sizes, "order": "default"}
                yield {"sizes": sizes, "order": "evenodd"}
            # images with deleted directory entries ($00) in front of / between active ones, and files beyond the first sector
            yield {"sizes": [10, 20, 30], "order": "default", "delete": [0]}
            yield {"sizes": [10, 20, 30, 40], "order": "default", "delete": [1, 2]}
            yield {"sizes": [3] * 11, "order": "default", "delete": [6, 7, 9]}
            return
        if cell["fn"] == "cfl":
            for chain, s, b in (([5], 1, 0), ([5, 6], 3, 17), ([67, 0, 33], 9, 255), ([1, 2, 3, 4, 5, 6, 7, 8], 2, 1)):
                yield {"chain": chain, "k": len(chain), "s": s, "b": b}
            return
        for L, chain in ((0, [5]), (1, [33]), (2299, [10]), (2300, [10, 11]), (2304, [34, 33]), (5000, [10, 50, 2]), (4598, [1, 2, 3]),
                         (7000, [33, 34, 35, 36]), (3000, [67, 0]), (3000, [66, 0]), (5000, [0, 67, 3]), (2310, [67, 66])):
            yield {"L": L, "k": len(chain), "chain": chain}

    def run(self, env, cell):
        if env.mode == "native":
            return getattr(self, "n_" + cell["fn"])(env, cell)
        return getattr(self, "s_" + cell["fn"])(env, cell)

    # ------------------------------------------------------------------ native
    def _preamble(self, F, kind):
        if kind == "ML":
            return F.new(DSK, "MLPreamble"), 5
        if kind == "BASIC":
            return F.new(DSK, "BasicPreamble"), 3
        if kind == "ASCII":
            return F.new(DSK, "ASCIIPreamble"), 0
        return None, 0

    def n_read_data(self, env, cell):
        F = Files(env)
        h = env.holes
        kind = cell["kind"]
        chain = list(h.get("chain", []))[:h.get("k", len(h.get("chain", [])))]
        L = h.get("L", 0)
        pre, pl = self._preamble(F, kind)
        total = pl + L
        need = max(1, (total + GR - 1) // GR)
        if len(chain) < need or any(not 0 <= g <= 67 for g in chain) or len(set(chain)) != len(chain):
            raise sym.PathAbort()
        chain = chain[:need]
        img = [(7 * q + q // 256) % 251 for q in range(N)]
        for a, b in zip(chain, chain[1:]):
            img[FAT + a] = b
        img[FAT + chain[-1]] = 0xC1
        noshort = all(N - db.offset(g) >= (L if m == 0 else total - GR * m) for m, g in enumerate(chain))
        d = F.new(DSK, "DiskFile", buffer=list(img))
        fat = img[FAT:FAT + 256]
        want = [img[db.offset(chain[j // GR]) + j % GR] for j in range(pl, total)]
        feat = "noshort=%s" % ("yes" if noshort else "no")
        key = KEY + "read_data"
        try:
            r = F.method(d, "read_data", chain[0], fat, pre, data_length=L)
        except Raised as e:
            env.fail(key + "::raises:none-on-valid-chain", ("C07", "C13"), lambda: "read_data:%s:raised:%s:%s" % (kind, e.cls, feat))
            return
        env.ensure(key + "::post:data", list(r[0]) == want, ("C07",), lambda: "read_data:%s:data:L=%d:%s" % (kind, L, feat))
        endp = (db.offset(chain[(total - 1) // GR]) + (total - 1) % GR + 1) if L > 0 else db.offset(chain[0]) + pl
        env.ensure(key + "::post:pointer", r[1] == endp, ("C07",), lambda: "read_data:%s:pointer:L=%d:%s" % (kind, L, feat))

    def n_cfl(self, env, cell):
        F = Files(env)
        h = env.holes
        chain = list(h.get("chain", []))[:h.get("k", len(h.get("chain", [])))]
        s, b = h.get("s", 1), h.get("b", 0)
        if not chain or any(not 0 <= g <= 67 for g in chain) or len(set(chain)) != len(chain) or not 1 <= s <= 9 or not 0 <= b <= 256:
            raise sym.PathAbort()
        fat = [0xFF] * 256
        for a, c in zip(chain, chain[1:]):
            fat[a] = c
        fat[chain[-1]] = 0xC0 + s
        cls = F.cls(DSK, "DiskFile")
        fn = F.get(cls, "calculate_file_length") if F.sym else cls.calculate_file_length
        try:
            r = F.call(fn, chain[0], fat, b)
        except Raised as e:
            env.fail(KEY + "calculate_file_length::raises:none", ("C07", "C13"), lambda: "calculate_file_length:raised:%s" % e.cls)
            return
        env.ensure(KEY + "calculate_file_length::post:length", r == GR * (len(chain) - 1) + (s - 1) * 256 + b, ("C07",),
                   lambda: "calculate_file_length:m=%d" % len(chain))

    def n_lf(self, env, cell):
        """property-level: list_files on an image built by the independent builder returns exactly its files"""
        F = Files(env)
        sizes = list(env.holes.get("sizes", []))
        if not sizes:
            raise sym.PathAbort()
        order = {"default": None, "evenodd": list(range(0, 68, 2)) + list(range(1, 68, 2))}[env.holes.get("order", "default")]
        kinds = [(2, 0), (0, 0), (1, 0xFF)]
        want = []
        for j, L in enumerate(sizes):
            ft, dt = kinds[j % 3]
            want.append(("F%d" % j, "BIN", ft, dt, 0x1000 + j, 0x2000 + j, [(5 * t + j) % 256 for t in range(L)]))
        img = db.build(want, order=order) if order else db.build(want)
        for slot in env.holes.get("delete", []):
            # delete the file in that slot the way Disk BASIC does: first name byte $00, its granules freed
            e = [x for x in db.entries(img) if x["slot"] == slot][0]
            ch, _ = db.chain(img, e["first"])
            for g_ in ch:
                img[FAT + g_] = 0xFF
            img[db.DIR_OFFSET + 32 * slot] = 0x00
        want = [w for j, w in enumerate(want) if j not in env.holes.get("delete", [])]
        d = F.new(DSK, "DiskFile", buffer=list(img))
        key = KEY + "list_files"
        try:
            got = list(F.method(d, "list_files"))
        except Raised as e:
            env.fail(key + "::raises:none-on-valid-image", ("C07", "C13"), lambda: "list_files:raised:%s:%s" % (e.cls, ",".join(map(str, sizes))))
            return
        env.ensure(key + "::post:count", len(got) == len(want), ("C07",), lambda: "list_files:count=%d,want=%d" % (len(got), len(want)))
        for g, w in zip(got, want):
            ok = F.get(g, "name") == w[0] and list(F.get(g, "data")) == w[6] and F.intval(F.get(g, "type")) == w[2]
            if w[2] == 2:
                ok = ok and F.intval(F.get(g, "load_addr")) == w[4] and F.intval(F.get(g, "exec_addr")) == w[5]
            env.ensure(key + "::post:entry", ok, ("C07",), lambda: "list_files:entry:%s:len=%d" % (w[0], len(w[6])))

    # ------------------------------------------------------------------ list_files: the directory loop, callees through contracts
    def s_lf(self, env, cell):
        """for ANY image: slot i of the directory (i symbolic) is skipped iff its first byte is 00 / FF; otherwise exactly one file
        is appended whose type / data type come from the entry, whose data are the bytes [pl, pl+L) of the stream of its FAT chain
        (read_data's contract), L from the preamble (ML, BASIC) or from the FAT (calculate_file_length's contract), whose load
        address is stream[3..4] and exec address stream[pl+L+3 .. pl+L+4] for ML files.  Pre-condition (valid image): the chain of
        every active entry is FAT-linked and long enough, the stream starts with the kind's flag byte, an ML stream has FF 00 00
        behind the data.  Names: the 8 + 3 name bytes are read by read_sequence (contract: the decoded bytes); their normalisation
        (.replace) is not interpreted here."""
        from pyvc.lists import AbsList
        from lemmas.disk_addfile import DIR
        F = Files(env)
        p = cur()
        it = F.it
        A0 = z3.Array("A0", z3.IntSort(), z3.IntSort())
        d = F.new(DSK, "DiskFile")
        buf = ArrList(A0, N)
        F.set(d, "buffer", buf)
        key = KEY + "list_files"
        GA2 = z3.Array("chains", z3.IntSort(), z3.ArraySort(z3.IntSort(), z3.IntSort()))     # chain of the file in slot i
        LEN = z3.Array("lens", z3.IntSort(), z3.IntSort())                                   # its data length
        CNT = z3.Array("count", z3.IntSort(), z3.IntSort())                                  # active entries before slot i
        st = {"files": {}}

        def g(i, m):
            return SymInt(z3.simplify(z3.Select(z3.Select(GA2, sym._z(i)), sym._z(m))))

        def view(i):
            return SlotView(A0, i, lambda m: g(i, m), sel(LEN, i))

        def ent(i, k):
            return view(i).ent(k)

        def active(i):
            return view(i).active()

        def loc(i, j):
            return view(i).loc(j)

        def strm(i, j):
            return view(i).strm(j)

        def kind_pl(i):
            return view(i).kind_pl()

        def pre(i):
            """instance i of the pre-condition (valid image): bytes are bytes, first granule from the entry, flag byte, lengths"""
            sv = view(i)
            return And(sel(CNT, i + 1) == sel(CNT, i) + Ite(active(i), 1, 0), sel(CNT, 0) == 0, sv.entry_bytes(), sv.valid())
        v = Verifier(env, it)

        # ---- callee contracts
        def apply_rs(v_, interp, func, args):
            ptr, n_, dec = args["pointer"], args["length"], args.get("decode", False)
            st["names"] = st.get("names", 0) + 1
            return "NAME%d" % st["names"] if dec else [0] * n_
        v.contract(KEY + "read_sequence", CallSpec(apply_rs))

        def apply_cfl(v_, interp, func, args):
            i = st["i"]
            env.ensure(KEY + "calculate_file_length::pre@call:first-granule", args["granule"] == g(i, 0), ("C07",), internal=INTERNAL)
            st["cfl"] = True
            return sel(LEN, i)                       # its contract: the stream length encoded in the FAT chain + last-sector bytes
        v.contract(KEY + "calculate_file_length", CallSpec(apply_cfl))

        def apply_rd(v_, interp, func, args):
            i = st["i"]
            pre_ = args["preamble"]
            pl = it.getattr_(pre_, "length") if pre_ is not None else 0
            R = args["data_length"]
            env.ensure(KEY + "read_data::pre@call:first-granule", args["starting_granule"] == g(i, 0), ("C07",), internal=INTERNAL)
            env.ensure(KEY + "read_data::pre@call:preamble-kind", pl == kind_pl(i), ("C07",), internal=INTERNAL)
            p.fresh += 1
            RD = z3.Array("rdata!%d" % p.fresh, z3.IntSort(), z3.IntSort())
            fact = Forall("rd", 0, R, lambda t: sel(RD, t) == strm(i, pl + t))
            v_.facts.append(fact)
            # named instances of the post-condition at the five positions behind the data (the postamble of a binary file)
            for k_ in range(1, 6):
                p.assume(fact.instance(R - k_))
            st["rd"] = (RD, R, pl)
            return (ArrList(RD, R), Ite(R == 0, offset(g(i, 0)) + pl, loc(i, pl + R - 1) + 1))
        v.contract(KEY + "read_data", CallSpec(apply_rd))

        # ---- the directory loop
        def on_append(lst, x):
            i = st["i"]
            L = sel(LEN, i)
            RD, R, pl = st.get("rd", (None, None, None))
            dat = F.get(x, "data")
            ok_data = isinstance(dat, ArrList) and RD is not None and dat.arr is RD and isinstance(dat.off, int) and dat.off == 0
            env.ensure(key + "::loop0::append:data-is-read_data-result", ok_data, ("C07",), internal=INTERNAL)
            if not ok_data:
                return
            env.ensure(key + "::loop0::append:data-length", dat.length() == L, ("C07",), internal=INTERNAL)
            env.ensure(key + "::loop0::append:read-from-data-start", pl == kind_pl(i), ("C07",), internal=INTERNAL)
            env.ensure(key + "::loop0::append:type", And(F.intval(F.get(x, "type")) == ent(i, 11), F.intval(F.get(x, "data_type")) == ent(i, 12)),
                       ("C07",), internal=INTERNAL)
            if branch(ent(i, 11) == 2):
                fs = [f for f in v.facts if f.name == "rd"]
                hs = [f.instance(L + 3) for f in fs] + [f.instance(L + 4) for f in fs]
                env.ensure(key + "::loop0::append:ml-addresses",
                           sym.Implies(And(*hs), And(F.intval(F.get(x, "load_addr")) == strm(i, 3) * 256 + strm(i, 4),
                                                     F.intval(F.get(x, "exec_addr")) == strm(i, 5 + L + 3) * 256 + strm(i, 5 + L + 4))),
                           ("C07",), internal=INTERNAL)
            st["appended"] = st.get("appended", 0) + 1

        def init(ctx):
            st["i"] = 0
            return {}

        def havoc(ctx):
            p.fresh += 1
            ctx.locals["pointer"] = SymInt(z3.Int("dptr!%d" % p.fresh))
            al = AbsList(SymInt(z3.Int("nfiles!%d" % p.fresh)), lambda idx: None)
            al.on_append = on_append
            ctx.locals["files"] = al
            st.pop("rd", None)
            st["appended"] = 0
            return {}

        def inv(ctx, i, gh):
            st["i"] = i
            fl = ctx.locals["files"]
            ln = fl.length() if isinstance(fl, AbsList) else len(fl)
            return [("pointer", ctx.locals["pointer"] == DIR + 32 * i), ("files-so-far", ln == sel(CNT, i))]

        def assume(ctx, i):
            st["i"] = i
            return [pre(i)]

        def step(ctx, i, gh):
            return {}
        v.loop(key, 0, LoopSpec(("C07",), init, havoc, inv, step, assume=assume))
        p.assume(sel(CNT, 0) == 0)
        with v.installed():
            try:
                r = F.method(d, "list_files")
            except Raised as e:
                env.fail(key + "::raises:none-on-valid-image", ("C07", "C13"), internal=INTERNAL)
                return
        ln = r.length() if isinstance(r, AbsList) else len(r)
        env.ensure(key + "::post:count", ln == sel(CNT, 72), ("C07",), internal=INTERNAL)

    # ------------------------------------------------------------------ read_data, symbolic
    def s_read_data(self, env, cell):
        F = Files(env)
        p = cur()
        kind = cell["kind"]
        assume_noshort = False          # not needed since the fix of read_data's length test (see known_findings.json: fixed)
        pre, pl = self._preamble(F, kind)
        L = env.hole_int("L", 0, 156672)
        k = env.hole_int("k", 1, 68)
        GA = z3.Array("h_chain", z3.IntSort(), z3.IntSort())
        env.hole_terms["chain"] = ("arr", GA, k.e)
        A0 = z3.Array("A0", z3.IntSort(), z3.IntSort())
        d = F.new(DSK, "DiskFile")
        buf = ArrList(A0, N)
        F.set(d, "buffer", buf)
        fat = ArrList(A0, 256, FAT)
        total = pl + L
        cap0 = GR - pl
        key = KEY + "read_data"

        def g(m):
            return sel(GA, m)

        def loc(j):
            m = sym.floordiv(j, GR) if isinstance(j, SymInt) else j // GR
            return offset(g(m)) + (j % GR)

        def inrange(m):
            return And(g(m) >= 0, g(m) <= 67)

        def link(m):
            return rd_link(lambda x: sel(A0, FAT + x), g, total, m)

        def noshort(m):
            return (N - offset(g(m)) >= L) if (isinstance(m, int) and m == 0) else (N - offset(g(m)) >= total - GR * m)
        p.assume(inrange(0))
        p.assume(link(0))
        p.assume(sym.floordiv(total + GR - 1, GR) <= k)
        if assume_noshort:
            p.assume(noshort(0))
            p.assume(Implies(total > GR, noshort(1)))
        v = Verifier(env, F.it)
        st = {}
        p0 = offset(g(0)) + pl

        # ---- ghost for list.extend
        def on_extend(lst, other):
            p.fresh += 1
            X = z3.Array("ext!%d" % p.fresh, z3.IntSort(), z3.IntSort())
            old, oldlen = lst.arr, lst.len
            oarr, ooff, olen = other.arr, other.off, other.length()
            v.facts.append(Forall("ext-old", 0, oldlen, lambda t: sel(X, t) == sel(old, t)))
            v.facts.append(Forall("ext-new", 0, olen, lambda t: sel(X, oldlen + t) == sel(oarr, ooff + t)))
            lst.arr = X
            lst.len = oldlen + olen

        def fresh_list(tag):
            p.fresh += 1
            al = ArrList(z3.Array("%s!%d" % (tag, p.fresh), z3.IntSort(), z3.IntSort()), SymInt(z3.Int("%slen!%d" % (tag, p.fresh))))
            al.on_extend = on_extend
            return al

        # ---- loop 0: copy of the first granule's share, loop 1: copy of the rest (same invariant)
        def mkspec(first):
            def init(ctx):
                return {}

            def havoc(ctx):
                ctx.locals["file_data"] = fresh_list("fd")
                p.fresh += 1
                ctx.locals["pointer"] = SymInt(z3.Int("rp!%d" % p.fresh))
                if first:
                    ctx.locals["data_length"] = SymInt(z3.Int("dl!%d" % p.fresh))
                return {}

            def inv(ctx, i, gh):
                fd = ctx.locals["file_data"]
                ln = fd.length() if isinstance(fd, ArrList) else len(fd)
                D = fd.arr if isinstance(fd, ArrList) else z3.K(z3.IntSort(), z3.IntVal(0))
                out = [("length", ln == i), ("pointer", ctx.locals["pointer"] == p0 + i),
                       Forall("copied", 0, i, lambda t, D=D: sel(D, t) == sel(A0, p0 + t))]
                if first:
                    out.append(("remaining", ctx.locals["data_length"] == L - i))
                return out

            def step(ctx, i, gh):
                return {}
            return LoopSpec(("C07",), init, havoc, inv, step)
        v.loop(key, 0, mkspec(True))
        v.loop(key, 1, mkspec(False))

        # ---- the nested call through this very contract (shape: preamble None)
        def apply_rec(v_, interp, func, args):
            if args["preamble"] is not None:
                raise sym.EngineError("nested read_data call with a preamble")
            sg, Rn = args["starting_granule"], args["data_length"]
            env.ensure(key + "::pre@call:next-granule-is-chain-successor", And(sg == g(1), inrange(1)), ("C07",), internal=INTERNAL)
            env.ensure(key + "::pre@call:remaining-length", And(Rn == total - GR, Rn > 0), ("C07",), internal=INTERNAL)
            env.ensure(key + "::decreases", Rn < L, ("C07", "C13"), internal=INTERNAL)
            if assume_noshort:
                env.ensure(key + "::pre@call:noshort", noshort(1), ("C07",), internal=INTERNAL)
            p.fresh += 1
            RD = z3.Array("rd!%d" % p.fresh, z3.IntSort(), z3.IntSort())
            v_.facts.append(Forall("rec-data", 0, Rn, lambda t: sel(RD, t) == sel(A0, loc(GR + t))))
            st["rec"] = True
            return (ArrList(RD, Rn), loc(total - 1) + 1)
        v.contract(key, CallSpec(apply_rec, nested_only=True))
        with v.installed():
            try:
                r = F.method(d, "read_data", g(0), fat, pre, data_length=L)
            except Raised as e:
                env.fail(key + "::raises:none-on-valid-chain", ("C07", "C13"))
                return
        data, ptr = r[0], r[1]
        ln = data.length() if isinstance(data, ArrList) else len(data)
        env.ensure(key + "::post:length", ln == L, ("C07",), internal=INTERNAL)
        env.ensure(key + "::post:pointer", ptr == Ite(L == 0, p0, loc(total - 1) + 1), ("C07",), internal=INTERNAL)
        if isinstance(data, ArrList):
            D = data.arr
            prove_forall(env, p, key + "::post:data", Forall("data", 0, L, lambda t: sel(D, t) == sel(A0, loc(pl + t))), v.facts, ("C07",),
                         extra_instances=lambda t: [t, t - cap0], internal=INTERNAL)

    # ------------------------------------------------------------------ calculate_file_length
    def s_cfl(self, env, cell):
        F = Files(env)
        p = cur()
        m = env.hole_int("k", 1, 68)
        s = env.hole_int("s", 1, 9)
        b = env.hole_int("b", 0, 256)
        GA = z3.Array("h_chain", z3.IntSort(), z3.IntSort())
        env.hole_terms["chain"] = ("arr", GA, m.e)
        FA = z3.Array("fatarr", z3.IntSort(), z3.IntSort())
        fat = ArrList(FA, 256)
        key = KEY + "calculate_file_length"

        def g(j):
            return sel(GA, j)

        def wf(j):
            return chain_wf(lambda x: sel(FA, x), g, m, s, j)
        st = {"j": 0}
        v = Verifier(env, F.it)

        def init(ctx):
            st["j"] = 0
            return {}

        def havoc(ctx):
            p.fresh += 1
            st["j"] = SymInt(z3.Int("lvl!%d" % p.fresh))
            ctx.locals["granule"] = SymInt(z3.Int("cg!%d" % p.fresh))
            ctx.locals["total_bytes"] = SymInt(z3.Int("tb!%d" % p.fresh))
            ctx.locals["is_last_granule"] = sym.SymBool(z3.Bool("last!%d" % p.fresh))
            return {}

        def inv(ctx, j, gh):
            last = ctx.locals["is_last_granule"]
            tb = ctx.locals["total_bytes"]
            going = And(j >= 0, j < m, ctx.locals["granule"] == g(j), tb == GR * j)
            done = And(j == m, tb == GR * (m - 1) + (s - 1) * 256 + b)
            if isinstance(last, bool):
                return [("state", done if last else going)]
            return [("state", And(Implies(Not(last), going), Implies(last, done)))]

        def assume(ctx, j):
            return [wf(j), wf(j + 1)]

        def step(ctx, j, gh):
            st["j"] = j + 1
            return {}
        spec = LoopSpec(("C07",), init, havoc, inv, step, index=lambda ctx: st["j"], variant=lambda ctx: m - st["j"], assume=assume)
        v.loop(key, 0, spec)
        p.assume(wf(0))
        cls = F.cls(DSK, "DiskFile")
        fn = F.get(cls, "calculate_file_length")
        with v.installed():
            try:
                r = F.call(fn, g(0), fat, b)
            except Raised as e:
                env.fail(key + "::raises:none", ("C07", "C13"), internal=INTERNAL)
                return
        env.ensure(key + "::post:length", r == GR * (m - 1) + (s - 1) * 256 + b, ("C07",), internal=INTERNAL)


LEMMAS = [DiskReader()]
