"""
PSHS/PSHU/PULS/PULU register lists and TFR/EXG register pairs (C01, C12, C02).
The operand space is finite; every register subset (2^9 per stack instruction, canonical and
reversed order) and every ordered register pair (10 x 10, plus unknown names) is enumerated by
forking on a hole, executed through the real pipeline and decoded with the data-sheet decoder.
"""
from specs import mc6809
from pyvc.asmh import assemble
from lemmas.asm_forms import dsum

NAMES = ["CC", "A", "B", "DP", "X", "Y", "U", "S", "PC", "D"]
PAIR_NAMES = ["D", "X", "Y", "U", "S", "PC", "A", "B", "CC", "DP"]
BAD_NAMES = ["Z", "PCR", "", "AB", "XY"]


def expected_set(mnemonic, regs):
    own = "S" if mnemonic in ("PSHS", "PULS") else "U"
    out = set()
    for r in regs:
        if r == "D":
            out |= {"A", "B"}
        else:
            out.add(r)
    return own not in regs, frozenset(out)


class AsmSpecial:
    name = "asm_special"
    props = ("C01", "C02", "C12", "C13", "C17")

    def cells(self, tier):
        out = []
        for m in ("PSHS", "PSHU", "PULS", "PULU"):
            for order in ("canon", "rev"):
                for chunk in range(8):
                    out.append({"id": "reglist/%s/%s/%d" % (m, order, chunk), "kind": "reglist", "mnemonic": m, "order": order,
                                "chunk": chunk})
            out.append({"id": "reglist/%s/invalid" % m, "kind": "badlist", "mnemonic": m})
        for m in ("TFR", "EXG"):
            out.append({"id": "regpair/%s" % m, "kind": "pair", "mnemonic": m})
            out.append({"id": "regpair/%s/invalid" % m, "kind": "badpair", "mnemonic": m})
        return out

    def run(self, env, cell):
        m = cell["mnemonic"]
        k = cell["kind"]
        native = env.mode == "native"
        if k == "reglist":
            # 10 names -> 1023 non-empty subsets, split in 8 chunks of 128
            lo = cell["chunk"] * 128
            mask = env.hole_choice("mask", list(range(max(1, lo), lo + 128)))
            regs = [NAMES[i] for i in range(10) if mask >> i & 1]
            if cell["order"] == "rev":
                regs = regs[::-1]
            text = ",".join(regs)
        elif k == "badlist":
            text = env.hole_choice("bad", ["", "Z", "A,Z", "A,,B", "PCR", "A,B,", ",A", "a", "X,Q"])
            regs = None
        elif k == "pair":
            i = env.hole_choice("r0", list(range(10)))
            j = env.hole_choice("r1", list(range(10)))
            regs = (PAIR_NAMES[i], PAIR_NAMES[j])
            text = "%s,%s" % regs
        else:
            text = env.hole_choice("bad", ["A", "A,B,X", "Z,A", "A,Z", "", "X,", ",X", "PCR,X", "a,b"])
            regs = None
        lines = [" %s %s\n" % (m, text)]
        env.info["lines"] = lines
        run = assemble(env, lines)
        env.info["run"] = repr(run)

        def sig(what):
            t = text
            if k == "reglist":
                own = "S" if m in ("PSHS", "PULS") else "U"
                t = "own-stack-register" if own in regs else "other"
            return (lambda: "%s:%s:%s:%s" % (k, m, what, t)) if native else None
        if run.status == "hang":
            env.fail("C13:terminates", ("C13",), sig("hang"))
            return
        if run.status == "escape":
            env.fail("C13:no-internal-error", ("C13",), sig("escape:%s" % run.exc_class))
            return
        env.ensure("C13:no-internal-error", True, ("C13",))
        if k in ("reglist",):
            valid, want = expected_set(m, regs)
        elif k == "pair":
            valid = mc6809.TFR_WIDTH[regs[0]] == mc6809.TFR_WIDTH[regs[1]]
            want = regs
        else:
            valid, want = False, None
        if run.status == "diag":
            if valid:
                env.fail("C01:accepted", ("C01",), sig("rejected:%s" % run.exc_class))
            else:
                env.ensure("C12:rejected", True, ("C12",))
            return
        st = run.stmts[0]
        d = mc6809.decode(st.bytes)
        wellformed = d.ok and d.length == len(st.bytes) and d.op == m and st.size == len(st.bytes)
        if not valid:
            env.fail("C12:rejected", ("C12",), sig("accepted-invalid:%s" % ("ok" if wellformed else "malformed")))
            env.ensure("C12:wellformed", wellformed, ("C12",), sig("malformed"))
            return
        env.ensure("C01:accepted", True, ("C01",))
        env.ensure("C02:size", st.size == len(st.bytes), ("C02", "C12"), sig("size=%s,len=%d" % (st.size, len(st.bytes))))
        if not (d.ok and d.length == len(st.bytes) and d.op == m):
            env.fail("C01:decodes", ("C01", "C12"), sig("undecodable:%s" % (d.why or d.op)))
            return
        if k == "reglist":
            dsig = (lambda: "reglist:%s:lost=%s:extra=%s" % (m, ",".join(sorted(want - d.regs)), ",".join(sorted(d.regs - want)))) \
                if native else None
        else:
            dsig = sig("decoded-registers=%s" % (d.regs,))
        env.ensure("C01:decodes", d.regs == want, ("C01",), dsig)


LEMMAS = [AsmSpecial()]
