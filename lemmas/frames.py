"""
C17 beyond the per-run frame obligations (those are generated inside every assembler cell, see pyvc/asmh.py):
  * determinism-source scan over the ASTs of the assembler modules (no iteration over sets, no hash/id/random/time/
    os.environ/globals, dict iteration only over the insertion-ordered symbol table)
  * bounded histories: P alone  ==  P after Q1..Qk (accepted and rejected programs) in the same interpreter / process,
    natively also against a fresh process.
"""
import ast
import os
import subprocess
import sys
import json

from pyvc.asmh import assemble
from lemmas.corpus import PROGRAMS, REJECTED, TABBED

ALL = dict(PROGRAMS, **TABBED)

ASM_MODULES = ["cocoasm/instruction.py", "cocoasm/operands.py", "cocoasm/values.py", "cocoasm/statement.py", "cocoasm/program.py",
               "cocoasm/exceptions.py", "cocoasm/operand_type.py"]
BANNED_CALLS = {"hash", "id", "set", "frozenset", "globals", "vars", "locals", "input", "random", "time", "getenv", "urandom"}
BANNED_MODULES = {"random", "time", "datetime", "secrets", "uuid", "threading", "multiprocessing"}


def scan(repo):
    bad = []
    for rel in ASM_MODULES:
        with open(os.path.join(repo, rel)) as f:
            tree = ast.parse(f.read())
        for n in ast.walk(tree):
            if isinstance(n, (ast.Import, ast.ImportFrom)):
                names = [a.name for a in n.names] if isinstance(n, ast.Import) else [n.module or ""]
                for nm in names:
                    if nm.split(".")[0] in BANNED_MODULES:
                        bad.append("%s:%d imports %s" % (rel, n.lineno, nm))
            if isinstance(n, ast.Call):
                fn = n.func
                name = fn.id if isinstance(fn, ast.Name) else (fn.attr if isinstance(fn, ast.Attribute) else None)
                if name in BANNED_CALLS:
                    bad.append("%s:%d calls %s()" % (rel, n.lineno, name))
            if isinstance(n, (ast.Set, ast.SetComp)):
                bad.append("%s:%d builds a set" % (rel, n.lineno))
            if isinstance(n, ast.Attribute) and n.attr == "environ":
                bad.append("%s:%d reads os.environ" % (rel, n.lineno))
            if isinstance(n, ast.Global):
                bad.append("%s:%d global statement" % (rel, n.lineno))
    return bad


def _view(run):
    if run.status != "ok":
        return (run.status, run.exc_class)
    return ("ok", list(run.image), [(s.address, s.size) for s in run.stmts], sorted(run.symbols.items()), run.origin, run.name,
            list(run.listing or []))


class Frames:
    name = "frames"
    props = ("C17",)
    fresh_interp = True

    def cells(self, tier):
        out = [{"id": "scan/determinism-sources", "k": "scan"}]
        names = list(ALL)
        for p in names:
            out.append({"id": "history/%s/after-all" % p, "k": "history", "p": p, "bounded": "P after the whole corpus"})
            out.append({"id": "history/%s/twice" % p, "k": "twice", "p": p, "bounded": "P twice"})
        out.append({"id": "history/shared-include", "k": "shared_include",
                    "bounded": "two programs that INCLUDE the same file at different statement positions, one after the other"})
        out.append({"id": "history/rejected-include-elsewhere", "k": "rejected_include",
                    "bounded": "a rejected program whose INCLUDE lies in another directory, then an accepted program with a relative INCLUDE"})
        out.append({"id": "history/fresh-process", "k": "fresh", "native_only": True,
                    "bounded": "corpus in a fresh CPython process vs a warm one, two hash seeds"})
        return out

    def run(self, env, cell):
        getattr(self, "k_" + cell["k"])(env, cell, env.mode == "native")

    def k_scan(self, env, cell, native):
        repo = os.environ.get("VERIF_REPO", "/repo")
        bad = scan(repo)
        env.ensure("C17:no-nondeterminism-source", not bad, ("C17",), lambda: "; ".join(bad)[:200])

    def k_history(self, env, cell, native):
        p = cell["p"]
        if native:
            # natively the baseline comes from a FRESH process: the worker process that replays this cell has usually
            # assembled other programs before, so an in-process baseline may already carry the leaked state
            first = _fresh_views({p: ALL[p]}).get(p)
            for q in list(PROGRAMS) + list(REJECTED):
                _native_view(PROGRAMS.get(q) or REJECTED.get(q))
            src = list(ALL[p])
            again = _native_view(src, copy=False)
            env.ensure("C17:input-lines-unmodified", src == list(ALL[p]), ("C17",),
                       lambda: "the caller's list of source lines of %s was modified by assembling it" % p)
            env.ensure("C17:same-output-after-other-programs", first == again, ("C17",),
                       lambda: "output of %s changed after other assemblies" % p)
            return
        first = _view(assemble(env, ALL[p], want_listing=True))
        for q in list(PROGRAMS) + list(REJECTED):
            lines = (PROGRAMS.get(q) or REJECTED.get(q))
            assemble(env, lines, want_listing=True)
        again = _view(assemble(env, ALL[p], want_listing=True))
        env.ensure("C17:same-output-after-other-programs", first == again, ("C17",), lambda: "output of %s changed after other assemblies" % p)

    def k_shared_include(self, env, cell, native):
        """state kept per include FILE (not per program) would show here: the second program must assemble as if it were alone"""
        body = ["LOOP    LDA #$01\n", "        JMP LOOP\n", "TAIL    BNE LOOP\n", "        LEAX TAIL,PCR\n"]
        fs = {"c17shared.asm": body}
        q = ["        ORG $2000\n", "        NOP\n", "        INCLUDE c17shared.asm\n"]
        pr = ["        ORG $2000\n", "        NOP\n", "        NOP\n", "        NOP\n", "        INCLUDE c17shared.asm\n", "AFTER   JMP TAIL\n"]
        alone = _view(assemble(env, pr[:4] + body + pr[5:], want_listing=True))
        assemble(env, q, want_listing=True, fs=fs)
        second = _view(assemble(env, pr, want_listing=True, fs=fs))
        third = _view(assemble(env, pr, want_listing=True, fs=fs))
        env.ensure("C17:same-output-after-other-programs", second[:3] == alone[:3] and third[:3] == alone[:3], ("C17",),
                   lambda: "a program that includes a file another program included before assembles differently")

    def k_rejected_include(self, env, cell, native):
        """process-level state (working directory, environment) left behind by a REJECTED program would show here"""
        from pyvc.asmh import end_session
        fs = {"val.asm": ["VAL     EQU $42\n"], "sub/val.asm": ["VAL     EQU $17\n"], "sub/bad.asm": ["        FROB 12\n"],
              "sub/deep.asm": ["        INCLUDE nowhere.asm\n"]}
        pr = ["        ORG $0E00\n", "        INCLUDE val.asm\n", "START   LDA #VAL\n", "        RTS\n"]
        alone = _view(assemble(env, ["        ORG $0E00\n", "VAL     EQU $42\n", "START   LDA #VAL\n", "        RTS\n"], want_listing=True))
        ses = {}
        try:
            first = _view(assemble(env, pr, want_listing=True, fs=fs, session=ses))
            for q in (["        ORG $2000\n", "        INCLUDE sub/bad.asm\n"], ["        INCLUDE sub/deep.asm\n"], ["        LDA NOWHERE\n"]):
                assemble(env, q, want_listing=True, fs=fs, session=ses)
            again = _view(assemble(env, pr, want_listing=True, fs=fs, session=ses))
        finally:
            end_session(ses)
        env.ensure("C17:same-output-after-other-programs", first[:3] == alone[:3] and again[:3] == alone[:3], ("C17",),
                   lambda: "a program with a relative INCLUDE assembles differently after rejected programs (%s / %s)" % (first[0], again[0]))

    def k_twice(self, env, cell, native):
        p = cell["p"]
        if native:
            # the SAME list object is handed to the assembler twice; it must come back untouched (the input is outside the frame)
            src = list(ALL[p])
            a = _native_view(src, copy=False)
            same1 = src == list(ALL[p])
            b = _native_view(src, copy=False)
            env.ensure("C17:input-lines-unmodified", same1 and src == list(ALL[p]), ("C17",),
                       lambda: "the caller's list of source lines of %s was modified by assembling it" % p)
            env.ensure("C17:same-output-twice", a == b, ("C17",), lambda: "output of %s differs between two runs" % p)
            return
        a = _view(assemble(env, ALL[p], want_listing=True))
        b = _view(assemble(env, ALL[p], want_listing=True))
        env.ensure("C17:same-output-twice", a == b, ("C17",), lambda: "output of %s differs between two runs" % p)

    def k_fresh(self, env, cell, native):
        if not native:
            # only observable on the real interpreter; symbolically this is implied by the frame obligations (DESIGN A6)
            env.ensure("C17:fresh-process-agrees", True, ("C17",))
            return
        # every program in its OWN fresh process (two hash seeds) against the warm process that has assembled everything
        res = [_fresh_views(PROGRAMS, seed) for seed in ("0", "12345")]
        warm = {}
        for k, lines in PROGRAMS.items():
            _native_view(lines)
        for k, lines in PROGRAMS.items():
            warm[k] = _native_view(lines)
        env.ensure("C17:fresh-process-agrees", res[0] == res[1] == warm, ("C17",),
                   lambda: "fresh/warm/hash-seed runs disagree: %s" % ",".join(k for k in PROGRAMS if not (res[0].get(k) == res[1].get(k) == warm.get(k))))


_FRESH_CODE = ("import sys, json; sys.path.insert(0, %r)\n"
               "from cocoasm.program import Program\n"
               "lines = json.loads(sys.stdin.read())\n"
               "try:\n"
               "    p = Program(); p.process(lines)\n"
               "    out = [p.get_binary_array(), p.get_statements(), p.get_symbol_table()]\n"
               "except Exception as e:\n"
               "    out = ['raised', type(e).__name__]\n"
               "print(json.dumps(out))\n")


def _fresh_views(programs, seed="0"):
    repo = os.environ.get("VERIF_REPO", "/repo")
    out = {}
    for k, lines in programs.items():
        e = dict(os.environ, PYTHONHASHSEED=seed)
        o = subprocess.run([sys.executable, "-c", _FRESH_CODE % repo], input=json.dumps(list(lines)), capture_output=True, text=True, env=e,
                           timeout=60)
        out[k] = json.loads(o.stdout) if o.returncode == 0 else ["error", o.stderr[-200:]]
    return out


def _native_view(lines, copy=True):
    repo = os.environ.get("VERIF_REPO", "/repo")
    if repo not in sys.path:
        sys.path.insert(0, repo)
    from cocoasm.program import Program
    try:
        p = Program()
        p.process(list(lines) if copy else lines)
        return [p.get_binary_array(), p.get_statements(), p.get_symbol_table()]
    except Exception as e:  # noqa
        return ["raised", type(e).__name__]


LEMMAS = [Frames()]
